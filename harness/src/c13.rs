//! C13 — values encode integers faithfully, in bytes and in JSON.
//! Correspondence of Model/Bytes.v with bytes.rs / data_values.rs, plus the native round-trip oracle.
use crate::coqfmt::*;
use crate::gen::*;
use crate::out::Out;
use crate::rng::Rng;
use ciphercore_base::bytes::{vec_u128_from_bytes, vec_u64_from_bytes};
use ciphercore_base::data_types::*;
use ciphercore_base::data_values::Value;
use serde_json::json;

pub const HEADER: &str = "From CC Require Import Base.Prelude Base.Scalar Base.Ty Model.Bytes.";

fn expected_ext128(x: Int, st: ScalarType) -> u128 {
    // independent statement of the property: x mod 2^w, sign-extended to 128 bits for signed types
    let w = width(st);
    let m = x.wrap128();
    if w == 128 {
        return m;
    }
    let low = m & ((1u128 << w) - 1);
    if st.is_signed() && (low >> (w - 1)) & 1 == 1 {
        low | (u128::MAX ^ ((1u128 << w) - 1))
    } else {
        low
    }
}

fn gen_ints(st: ScalarType, n: usize, rng: &mut Rng) -> Vec<Int> {
    // 70% : all elements in the i128 range (Rust argument type i128); 30% : u128 argument type
    let big = rng.chance(3, 10);
    (0..n)
        .map(|_| {
            if st == BIT {
                if rng.chance(1, 40) {
                    Int::I(rng.range(-2, 3) as i128)
                } else {
                    Int::I(rng.below(2) as i128)
                }
            } else if big {
                Int::U(boundary_i128(st, rng) as u128)
            } else {
                Int::I(boundary_i128(st, rng))
            }
        })
        .collect()
}

fn from_flat(st: ScalarType, xs: &[Int]) -> Outcome<Value> {
    let all_i = xs.iter().all(|x| matches!(x, Int::I(_)));
    if all_i {
        let v: Vec<i128> = xs.iter().map(|x| if let Int::I(y) = x { *y } else { 0 }).collect();
        observe(move || Value::from_flattened_array(&v, st))
    } else {
        let v: Vec<u128> = xs.iter().map(|x| x.wrap128()).collect();
        // a u128 argument cannot be negative: only use when all are non-negative
        observe(move || Value::from_flattened_array(&v, st))
    }
}

pub fn run(tier: &str, seed: u64, out: &mut Out) {
    let mut rng = Rng::new(seed ^ 0xC13);
    let rounds = if tier == "thorough" { 60 } else { 8 };
    for round in 0..rounds {
        for &st in ALL_ST.iter() {
            // ---- writers + readers -------------------------------------------------------
            let n = match round % 4 {
                0 => 1,
                1 => 1 + rng.below(8) as usize,
                2 => 1 + rng.below(70) as usize,
                _ => 9 + rng.below(16) as usize,
            };
            let mut xs = gen_ints(st, n, &mut rng);
            if xs.iter().any(|x| matches!(x, Int::U(_))) {
                // mixed lists use the u128 entry point: make every element non-negative
                xs = xs.iter().map(|x| Int::U(x.wrap128())).collect();
            }
            let xs_coq = list(&xs, |x| x.coq());
            let input = json!({"st": scalar(st), "n": n, "xs": xs.iter().take(6).map(|x| x.coq()).collect::<Vec<_>>() });
            let r = from_flat(st, &xs);
            let nontrivial = xs.iter().any(|x| match x {
                Int::I(v) => *v < 0 || (*v as u128) >> 64 != 0,
                Int::U(_) => true,
            }) || (st == BIT && n % 8 != 0);
            out.stat(&format!("st:{}", scalar(st)));
            out.stat(&format!("write:{}", r.tag()));
            out.case(
                "from_flattened_array",
                format!("from_flattened_array {} {}", scalar(st), xs_coq),
                res(&r, |v| bvalue(v)),
                input.clone(),
                nontrivial,
            );
            let v = match r {
                Outcome::Ok(v) => v,
                _ => {
                    // oracle: writers may only reject non-bit entries of a BIT array
                    let legit = st == BIT && xs.iter().any(|x| x.wrap128() > 1);
                    if !legit {
                        out.violation("from_flattened_array-rejects", input.clone(), "writer failed on representable integers".into());
                    }
                    continue;
                }
            };
            let t = array_type(vec![n as u64], st);
            let tc = ty(&t);
            let vc = bvalue(&v);
            // u128 reader + native round-trip oracle
            let r128 = { let (v, t) = (v.clone(), t.clone()); observe(move || v.to_flattened_array_u128(t)) };
            out.case("to_u128s", format!("to_flattened_array_u128 {} {}", vc, tc), res(&r128, |a| list_u128(a)), input.clone(), nontrivial);
            match &r128 {
                Outcome::Ok(a) => {
                    let exp: Vec<u128> = xs.iter().map(|x| expected_ext128(*x, st)).collect();
                    if *a != exp {
                        out.violation("roundtrip-u128", input.clone(), format!("read back {:?}, expected {:?}", a, exp));
                    } else {
                        out.oracle_ok();
                    }
                }
                _ => out.violation("roundtrip-u128-fails", input.clone(), "reader failed on a value just written".into()),
            }
            macro_rules! reader {
                ($name:ident, $k:expr, $signed:expr, $T:ty) => {{
                    let (v2, t2) = (v.clone(), t.clone());
                    let r = observe(move || v2.$name(t2));
                    let f = if $signed { "to_flattened_array_i" } else { "to_flattened_array_u" };
                    out.case(stringify!($name), format!("{} {} {} {}", f, $k, vc, tc),
                        res(&r, |a| list(a, |x| z_i128(*x as i128))), input.clone(), nontrivial);
                    if let Outcome::Ok(a) = &r {
                        // oracle: reader = expected value cast to the reader's width
                        let exp: Vec<$T> = xs.iter().map(|x| expected_ext128(*x, st) as $T).collect();
                        if *a != exp { out.violation(concat!("reader-", stringify!($name)), input.clone(), format!("{:?} vs {:?}", a, exp)); } else { out.oracle_ok(); }
                    } else { out.violation(concat!("reader-fails-", stringify!($name)), input.clone(), "reader failed".into()); }
                }};
            }
            reader!(to_flattened_array_u8, 8, false, u8);
            reader!(to_flattened_array_i8, 8, true, i8);
            reader!(to_flattened_array_u16, 16, false, u16);
            reader!(to_flattened_array_i16, 16, true, i16);
            reader!(to_flattened_array_u32, 32, false, u32);
            reader!(to_flattened_array_i32, 32, true, i32);
            reader!(to_flattened_array_u64, 64, false, u64);
            reader!(to_flattened_array_i64, 64, true, i64);
            {
                let (v2, t2) = (v.clone(), t.clone());
                let r = observe(move || v2.to_flattened_array_i128(t2));
                out.case("to_flattened_array_i128", format!("to_flattened_array_i 128 {} {}", vc, tc), res(&r, |a| list_i128(a)), input.clone(), nontrivial);
            }
            // bit arrays: no stray bits, length ceil(n/8)
            if st == BIT {
                let ok = v.access_bytes(|b| {
                    let mut ok = b.len() == (n + 7) / 8;
                    if n % 8 != 0 && !b.is_empty() {
                        ok = ok && (b[b.len() - 1] >> (n % 8)) == 0;
                    }
                    Ok(ok)
                }).unwrap();
                if !ok { out.violation("bits-stray", input.clone(), "stray bits or wrong length".into()); } else { out.oracle_ok(); }
            }
            // scalar reader
            if n == 1 {
                let v2 = v.clone();
                let r = observe(move || v2.to_u128(st));
                out.case("to_u128", format!("to_u128 {} {}", vc, scalar(st)), res(&r, |x| z_u128(*x)), input.clone(), nontrivial);
            }
            // wrong-type reads (layout mismatch must be an error, never a panic)
            let t_bad = match rng.below(3) {
                0 => array_type(vec![n as u64 + 1], st),
                1 => array_type(vec![n as u64], *rng.pick(&ALL_ST)),
                _ => scalar_type(st),
            };
            let (v2, t2) = (v.clone(), t_bad.clone());
            let r = observe(move || v2.to_flattened_array_u128(t2));
            out.stat(&format!("badread:{}", r.tag()));
            out.case("to_u128s_mismatch", format!("to_flattened_array_u128 {} {}", vc, ty(&t_bad)), res(&r, |a| list_u128(a)), json!({"st":scalar(st),"n":n,"bad_type":format!("{}",t_bad)}), true);
            if matches!(r, Outcome::Panic) { out.violation("reader-panics", input.clone(), format!("panic reading as {}", t_bad)); }
        }
        // ---- raw byte readers on arbitrary bytes -------------------------------------------
        for &st in ALL_ST.iter() {
            let len = rng.below(40) as usize;
            let bytes: Vec<u8> = (0..len).map(|_| if rng.chance(1, 3) { *rng.pick(&[0u8, 0xff, 0x80, 0x7f]) } else { rng.next() as u8 }).collect();
            let b2 = bytes.clone();
            let r = observe(move || vec_u128_from_bytes(&b2, st));
            out.stat(&format!("raw128:{}", r.tag()));
            out.case("vec_u128_from_bytes", format!("vec_u128_from_bytes {} {}", scalar(st), list_u8(&bytes)), res(&r, |a| list_u128(a)), json!({"st":scalar(st),"len":len}), len > 0);
            if width(st) <= 64 {
                let b2 = bytes.clone();
                let r = observe(move || vec_u64_from_bytes(&b2, st));
                out.case("vec_u64_from_bytes", format!("vec_u64_from_bytes {} {}", scalar(st), list_u8(&bytes)), res(&r, |a| list_u64(a)), json!({"st":scalar(st),"len":len}), len > 0);
            }
        }
        // ---- check_type, zero/one on random type trees ---------------------------------------
        for _ in 0..6 {
            let t = random_type(&mut rng, 3);
            let t2 = if rng.chance(1, 2) { t.clone() } else { random_type(&mut rng, 2) };
            let z = { let t = t.clone(); observe(move || Ok(Value::zero_of_type(t))) };
            out.case("zero_of_type", format!("zero_of_type {}", ty(&t)), res(&z, |v| bvalue(v)), json!({"type":format!("{}",t)}), !t.is_scalar());
            let o = { let t = t.clone(); observe(move || Value::one_of_type(t)) };
            out.case("one_of_type", format!("one_of_type {}", ty(&t)), res(&o, |v| bvalue(v)), json!({"type":format!("{}",t)}), !t.is_scalar());
            if let Outcome::Ok(zv) = z {
                let (zv2, t22) = (zv.clone(), t2.clone());
                let r = observe(move || zv2.check_type(t22));
                out.stat(&format!("check_type:{}", match &r { Outcome::Ok(b) => if *b {"true"} else {"false"}, Outcome::Err => "Err", Outcome::Panic => "Panic" }));
                out.case("check_type", format!("check_type {} {}", bvalue(&zv), ty(&t2)), res(&r, |b| b.to_string()), json!({"value_of":format!("{}",t),"against":format!("{}",t2)}), true);
                if t == t2 && r != Outcome::Ok(true) { out.violation("check_type-own-zero", json!({"type":format!("{}",t)}), "zero_of_type(t) does not check against t".into()); } else { out.oracle_ok(); }
            }
        }
    }
}

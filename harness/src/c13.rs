//! C13 — values encode integers faithfully, in bytes and in JSON.
//! Correspondence of Model/Bytes.v with bytes.rs / data_values.rs, plus the native round-trip oracle.
use crate::coqfmt::*;
use crate::gen::*;
use crate::out::Out;
use crate::rng::Rng;
use ciphercore_base::bytes::{vec_u128_from_bytes, vec_u64_from_bytes};
use ciphercore_base::data_types::*;
use ciphercore_base::data_values::Value;
use ciphercore_base::typed_value::TypedValue;
use ciphercore_base::typed_value_operations::TypedValueOperations;
use serde_json::json;

pub const HEADER: &str = "From CC Require Import Base.Prelude Base.Scalar Base.Ty Model.Bytes Model.TvJson.";

fn expected_ext128(x: Int, st: ScalarType) -> u128 {
    // independent statement of the property: x mod 2^w, sign-extended to 128 bits for signed types
    let w = width(st);
    let m = x.wrap128();
    if w == 128 {
        return m;
    }
    let low = m & ((1u128 << w) - 1);
    if st.is_signed() && (low >> (w - 1)) & 1 == 1 {
        low | (u128::MAX ^ ((1u128 << w) - 1))
    } else {
        low
    }
}

fn gen_ints(st: ScalarType, n: usize, rng: &mut Rng) -> Vec<Int> {
    // 70% : all elements in the i128 range (Rust argument type i128); 30% : u128 argument type
    let big = rng.chance(3, 10);
    (0..n)
        .map(|_| {
            if st == BIT {
                if rng.chance(1, 40) {
                    Int::I(rng.range(-2, 3) as i128)
                } else {
                    Int::I(rng.below(2) as i128)
                }
            } else if big {
                Int::U(boundary_i128(st, rng) as u128)
            } else {
                Int::I(boundary_i128(st, rng))
            }
        })
        .collect()
}

fn from_flat(st: ScalarType, xs: &[Int]) -> Outcome<Value> {
    let all_i = xs.iter().all(|x| matches!(x, Int::I(_)));
    if all_i {
        let v: Vec<i128> = xs.iter().map(|x| if let Int::I(y) = x { *y } else { 0 }).collect();
        observe(move || Value::from_flattened_array(&v, st))
    } else {
        let v: Vec<u128> = xs.iter().map(|x| x.wrap128()).collect();
        // a u128 argument cannot be negative: only use when all are non-negative
        observe(move || Value::from_flattened_array(&v, st))
    }
}

pub fn run(tier: &str, seed: u64, out: &mut Out) {
    let mut rng = Rng::new(seed ^ 0xC13);
    let rounds = if tier == "thorough" { 60 } else { 8 };
    for round in 0..rounds {
        for &st in ALL_ST.iter() {
            // ---- writers + readers -------------------------------------------------------
            let n = match round % 4 {
                0 => 1,
                1 => 1 + rng.below(8) as usize,
                2 => 1 + rng.below(70) as usize,
                _ => 9 + rng.below(16) as usize,
            };
            let mut xs = gen_ints(st, n, &mut rng);
            if xs.iter().any(|x| matches!(x, Int::U(_))) {
                // mixed lists use the u128 entry point: make every element non-negative
                xs = xs.iter().map(|x| Int::U(x.wrap128())).collect();
            }
            let xs_coq = list(&xs, |x| x.coq());
            let input = json!({"st": scalar(st), "n": n, "xs": xs.iter().take(6).map(|x| x.coq()).collect::<Vec<_>>() });
            let r = from_flat(st, &xs);
            let nontrivial = xs.iter().any(|x| match x {
                Int::I(v) => *v < 0 || (*v as u128) >> 64 != 0,
                Int::U(_) => true,
            }) || (st == BIT && n % 8 != 0);
            out.stat(&format!("st:{}", scalar(st)));
            out.stat(&format!("write:{}", r.tag()));
            out.case(
                "from_flattened_array",
                format!("from_flattened_array {} {}", scalar(st), xs_coq),
                res(&r, |v| bvalue(v)),
                input.clone(),
                nontrivial,
            );
            let v = match r {
                Outcome::Ok(v) => v,
                _ => {
                    // oracle: writers may only reject non-bit entries of a BIT array
                    let legit = st == BIT && xs.iter().any(|x| x.wrap128() > 1);
                    if !legit {
                        out.violation("from_flattened_array-rejects", input.clone(), "writer failed on representable integers".into());
                    }
                    continue;
                }
            };
            let t = array_type(vec![n as u64], st);
            let tc = ty(&t);
            let vc = bvalue(&v);
            // u128 reader + native round-trip oracle
            let r128 = { let (v, t) = (v.clone(), t.clone()); observe(move || v.to_flattened_array_u128(t)) };
            out.case("to_u128s", format!("to_flattened_array_u128 {} {}", vc, tc), res(&r128, |a| list_u128(a)), input.clone(), nontrivial);
            match &r128 {
                Outcome::Ok(a) => {
                    let exp: Vec<u128> = xs.iter().map(|x| expected_ext128(*x, st)).collect();
                    if *a != exp {
                        out.violation("roundtrip-u128", input.clone(), format!("read back {:?}, expected {:?}", a, exp));
                    } else {
                        out.oracle_ok();
                    }
                }
                _ => out.violation("roundtrip-u128-fails", input.clone(), "reader failed on a value just written".into()),
            }
            macro_rules! reader {
                ($name:ident, $k:expr, $signed:expr, $T:ty) => {{
                    let (v2, t2) = (v.clone(), t.clone());
                    let r = observe(move || v2.$name(t2));
                    let f = if $signed { "to_flattened_array_i" } else { "to_flattened_array_u" };
                    out.case(stringify!($name), format!("{} {} {} {}", f, $k, vc, tc),
                        res(&r, |a| list(a, |x| z_i128(*x as i128))), input.clone(), nontrivial);
                    if let Outcome::Ok(a) = &r {
                        // oracle: reader = expected value cast to the reader's width
                        let exp: Vec<$T> = xs.iter().map(|x| expected_ext128(*x, st) as $T).collect();
                        if *a != exp { out.violation(concat!("reader-", stringify!($name)), input.clone(), format!("{:?} vs {:?}", a, exp)); } else { out.oracle_ok(); }
                    } else { out.violation(concat!("reader-fails-", stringify!($name)), input.clone(), "reader failed".into()); }
                }};
            }
            reader!(to_flattened_array_u8, 8, false, u8);
            reader!(to_flattened_array_i8, 8, true, i8);
            reader!(to_flattened_array_u16, 16, false, u16);
            reader!(to_flattened_array_i16, 16, true, i16);
            reader!(to_flattened_array_u32, 32, false, u32);
            reader!(to_flattened_array_i32, 32, true, i32);
            reader!(to_flattened_array_u64, 64, false, u64);
            reader!(to_flattened_array_i64, 64, true, i64);
            {
                let (v2, t2) = (v.clone(), t.clone());
                let r = observe(move || v2.to_flattened_array_i128(t2));
                out.case("to_flattened_array_i128", format!("to_flattened_array_i 128 {} {}", vc, tc), res(&r, |a| list_i128(a)), input.clone(), nontrivial);
            }
            // bit arrays: no stray bits, length ceil(n/8)
            if st == BIT {
                let ok = v.access_bytes(|b| {
                    let mut ok = b.len() == (n + 7) / 8;
                    if n % 8 != 0 && !b.is_empty() {
                        ok = ok && (b[b.len() - 1] >> (n % 8)) == 0;
                    }
                    Ok(ok)
                }).unwrap();
                if !ok { out.violation("bits-stray", input.clone(), "stray bits or wrong length".into()); } else { out.oracle_ok(); }
            }
            // scalar reader
            if n == 1 {
                let v2 = v.clone();
                let r = observe(move || v2.to_u128(st));
                out.case("to_u128", format!("to_u128 {} {}", vc, scalar(st)), res(&r, |x| z_u128(*x)), input.clone(), nontrivial);
            }
            // wrong-type reads (layout mismatch must be an error, never a panic)
            let t_bad = match rng.below(3) {
                0 => array_type(vec![n as u64 + 1], st),
                1 => array_type(vec![n as u64], *rng.pick(&ALL_ST)),
                _ => scalar_type(st),
            };
            let (v2, t2) = (v.clone(), t_bad.clone());
            let r = observe(move || v2.to_flattened_array_u128(t2));
            out.stat(&format!("badread:{}", r.tag()));
            out.case("to_u128s_mismatch", format!("to_flattened_array_u128 {} {}", vc, ty(&t_bad)), res(&r, |a| list_u128(a)), json!({"st":scalar(st),"n":n,"bad_type":format!("{}",t_bad)}), true);
            if matches!(r, Outcome::Panic) { out.violation("reader-panics", input.clone(), format!("panic reading as {}", t_bad)); }
        }
        // ---- raw byte readers on arbitrary bytes -------------------------------------------
        for &st in ALL_ST.iter() {
            let len = rng.below(40) as usize;
            let bytes: Vec<u8> = (0..len).map(|_| if rng.chance(1, 3) { *rng.pick(&[0u8, 0xff, 0x80, 0x7f]) } else { rng.next() as u8 }).collect();
            let b2 = bytes.clone();
            let r = observe(move || vec_u128_from_bytes(&b2, st));
            out.stat(&format!("raw128:{}", r.tag()));
            out.case("vec_u128_from_bytes", format!("vec_u128_from_bytes {} {}", scalar(st), list_u8(&bytes)), res(&r, |a| list_u128(a)), json!({"st":scalar(st),"len":len}), len > 0);
            if width(st) <= 64 {
                let b2 = bytes.clone();
                let r = observe(move || vec_u64_from_bytes(&b2, st));
                out.case("vec_u64_from_bytes", format!("vec_u64_from_bytes {} {}", scalar(st), list_u8(&bytes)), res(&r, |a| list_u64(a)), json!({"st":scalar(st),"len":len}), len > 0);
            }
        }
        // ---- check_type, zero/one on random type trees ---------------------------------------
        for _ in 0..6 {
            let t = random_type(&mut rng, 3);
            let t2 = if rng.chance(1, 2) { t.clone() } else { random_type(&mut rng, 2) };
            let z = { let t = t.clone(); observe(move || Ok(Value::zero_of_type(t))) };
            out.case("zero_of_type", format!("zero_of_type {}", ty(&t)), res(&z, |v| bvalue(v)), json!({"type":format!("{}",t)}), !t.is_scalar());
            let o = { let t = t.clone(); observe(move || Value::one_of_type(t)) };
            out.case("one_of_type", format!("one_of_type {}", ty(&t)), res(&o, |v| bvalue(v)), json!({"type":format!("{}",t)}), !t.is_scalar());
            if let Outcome::Ok(zv) = z {
                let (zv2, t22) = (zv.clone(), t2.clone());
                let r = observe(move || zv2.check_type(t22));
                out.stat(&format!("check_type:{}", match &r { Outcome::Ok(b) => if *b {"true"} else {"false"}, Outcome::Err => "Err", Outcome::Panic => "Panic" }));
                out.case("check_type", format!("check_type {} {}", bvalue(&zv), ty(&t2)), res(&r, |b| b.to_string()), json!({"value_of":format!("{}",t),"against":format!("{}",t2)}), true);
                if t == t2 && r != Outcome::Ok(true) { out.violation("check_type-own-zero", json!({"type":format!("{}",t)}), "zero_of_type(t) does not check against t".into()); } else { out.oracle_ok(); }
                // a value is accepted for a type exactly when its layout matches: perturbed layouts
                // (a sub-value or a byte dropped, added, or a nested one perturbed) against an
                // independent reference of the layout rule; TypedValue::new must agree
                for _ in 0..3 {
                    let pv = perturb_layout(&zv, &t, &mut rng);
                    let expect = layout_matches(&pv, &t);
                    let (pv2, t3) = (pv.clone(), t.clone());
                    let r = observe(move || pv2.check_type(t3));
                    out.stat(&format!("check_type_perturbed:{}", match &r { Outcome::Ok(b) => if *b {"true"} else {"false"}, Outcome::Err => "Err", Outcome::Panic => "Panic" }));
                    out.case("check_type", format!("check_type {} {}", bvalue(&pv), ty(&t)), res(&r, |b| b.to_string()), json!({"perturbed_value_of":format!("{}",t)}), true);
                    let (pv3, t4) = (pv.clone(), t.clone());
                    let tvn = observe(move || ciphercore_base::typed_value::TypedValue::new(t4, pv3).map(|_| ()));
                    if r != Outcome::Ok(expect) || matches!(tvn, Outcome::Ok(())) != expect {
                        out.violation("check_type-layout-rule", json!({"type":format!("{}",t),"value":bvalue(&pv)}), format!("layout matches = {}, check_type = {}, TypedValue::new ok = {}", expect, match &r { Outcome::Ok(b) => b.to_string(), _ => r.tag().to_string() }, matches!(tvn, Outcome::Ok(()))));
                    } else { out.oracle_ok(); }
                }
            }
        }
    }
    run_json(tier, seed, out);
}

/// independent statement of the layout rule: a leaf holds exactly ceil(bits/8) bytes, a container
/// exactly one well-laid-out sub-value per component of its type
fn layout_matches(v: &Value, t: &Type) -> bool {
    let kids = |v: &Value| v.to_vector().ok();
    match t {
        Type::Scalar(_) | Type::Array(_, _) => {
            let bits = get_size_in_bits(t.clone()).unwrap_or(u64::MAX);
            v.access_bytes(|b| Ok(b.len() as u64 == (bits + 7) / 8)).unwrap_or(false)
        }
        Type::Vector(n, et) => kids(v).map(|c| c.len() as u64 == *n && c.iter().all(|x| layout_matches(x, et))).unwrap_or(false),
        Type::Tuple(ts) => kids(v).map(|c| c.len() == ts.len() && c.iter().zip(ts.iter()).all(|(x, ct)| layout_matches(x, ct))).unwrap_or(false),
        Type::NamedTuple(ts) => kids(v).map(|c| c.len() == ts.len() && c.iter().zip(ts.iter()).all(|(x, (_, ct))| layout_matches(x, ct))).unwrap_or(false),
    }
}

fn perturb_layout(v: &Value, t: &Type, rng: &mut Rng) -> Value {
    let child_types: Vec<Type> = match t {
        Type::Vector(n, et) => (0..*n).map(|_| (**et).clone()).collect(),
        Type::Tuple(ts) => ts.iter().map(|x| (**x).clone()).collect(),
        Type::NamedTuple(ts) => ts.iter().map(|(_, x)| (**x).clone()).collect(),
        _ => {
            let mut b = v.access_bytes(|b| Ok(b.to_vec())).unwrap_or_default();
            match rng.below(3) { 0 => { b.pop(); } 1 => b.push(0), _ => {} }
            return Value::from_bytes(b);
        }
    };
    let mut ch = v.to_vector().unwrap_or_default();
    match rng.below(6) {
        0 => { ch.pop(); }
        1 => { ch.clear(); }
        2 => { if let Some(x) = ch.last().cloned() { ch.push(x); } else { ch.push(Value::from_bytes(vec![0])); } }
        3 | 4 if !ch.is_empty() => { let i = rng.below(ch.len() as u64) as usize; ch[i] = perturb_layout(&ch[i].clone(), &child_types[i], rng); }
        _ => {}
    }
    Value::from_vector(ch)
}

// =====================================================================================================
// JSON half: Model/TvJson.v against typed_value_serialization.rs
// =====================================================================================================

/// JSON tree, the image of Model/TvJson.v `json`.  Integer tokens keep their digits (any size);
/// a number token with a fraction or an exponent is `Float`.  Object fields keep their order.
#[derive(Clone, Debug, PartialEq)]
enum J {
    Null,
    Bool(bool),
    Num(String),
    Float(String),
    Str(String),
    Arr(Vec<J>),
    Obj(Vec<(String, J)>),
}

/// Minimal reader of the text serde_json prints for a TypedValue (no escapes are ever produced:
/// the generator's names are [A-Za-z0-9 _$:]).  Independent of serde_json::Value, so key order and
/// big integers are seen as printed.
struct P<'a> {
    b: &'a [u8],
    i: usize,
}
impl<'a> P<'a> {
    fn ws(&mut self) {
        while self.i < self.b.len() && (self.b[self.i] as char).is_ascii_whitespace() {
            self.i += 1;
        }
    }
    fn lit(&mut self, s: &str) -> Option<()> {
        if self.b[self.i..].starts_with(s.as_bytes()) {
            self.i += s.len();
            Some(())
        } else {
            None
        }
    }
    fn string(&mut self) -> Option<String> {
        if self.b.get(self.i) != Some(&b'"') {
            return None;
        }
        self.i += 1;
        let st = self.i;
        while *self.b.get(self.i)? != b'"' {
            if self.b[self.i] == b'\\' {
                return None;
            }
            self.i += 1;
        }
        let s = std::str::from_utf8(&self.b[st..self.i]).ok()?.to_string();
        self.i += 1;
        Some(s)
    }
    fn value(&mut self) -> Option<J> {
        self.ws();
        match *self.b.get(self.i)? {
            b'n' => self.lit("null").map(|_| J::Null),
            b't' => self.lit("true").map(|_| J::Bool(true)),
            b'f' => self.lit("false").map(|_| J::Bool(false)),
            b'"' => self.string().map(J::Str),
            b'[' => {
                self.i += 1;
                let mut v = vec![];
                self.ws();
                if self.b.get(self.i) == Some(&b']') {
                    self.i += 1;
                    return Some(J::Arr(v));
                }
                loop {
                    v.push(self.value()?);
                    self.ws();
                    match *self.b.get(self.i)? {
                        b',' => self.i += 1,
                        b']' => {
                            self.i += 1;
                            return Some(J::Arr(v));
                        }
                        _ => return None,
                    }
                }
            }
            b'{' => {
                self.i += 1;
                let mut v = vec![];
                self.ws();
                if self.b.get(self.i) == Some(&b'}') {
                    self.i += 1;
                    return Some(J::Obj(v));
                }
                loop {
                    self.ws();
                    let k = self.string()?;
                    self.ws();
                    if *self.b.get(self.i)? != b':' {
                        return None;
                    }
                    self.i += 1;
                    let x = self.value()?;
                    v.push((k, x));
                    self.ws();
                    match *self.b.get(self.i)? {
                        b',' => self.i += 1,
                        b'}' => {
                            self.i += 1;
                            return Some(J::Obj(v));
                        }
                        _ => return None,
                    }
                }
            }
            _ => {
                let st = self.i;
                while self.i < self.b.len() && matches!(self.b[self.i], b'-' | b'+' | b'.' | b'e' | b'E' | b'0'..=b'9') {
                    self.i += 1;
                }
                let s = std::str::from_utf8(&self.b[st..self.i]).ok()?.to_string();
                if s.is_empty() {
                    return None;
                }
                let int = s.strip_prefix('-').unwrap_or(&s).bytes().all(|c| c.is_ascii_digit()) && s != "-";
                Some(if int { J::Num(s) } else { J::Float(s) })
            }
        }
    }
}
fn j_parse(text: &str) -> Option<J> {
    let mut p = P { b: text.as_bytes(), i: 0 };
    let v = p.value()?;
    p.ws();
    if p.i == p.b.len() {
        Some(v)
    } else {
        None
    }
}
fn j_render(j: &J) -> String {
    match j {
        J::Null => "null".into(),
        J::Bool(b) => b.to_string(),
        J::Num(s) | J::Float(s) => s.clone(),
        J::Str(s) => format!("\"{}\"", s),
        J::Arr(v) => format!("[{}]", v.iter().map(j_render).collect::<Vec<_>>().join(",")),
        J::Obj(v) => format!("{{{}}}", v.iter().map(|(k, x)| format!("\"{}\":{}", k, j_render(x))).collect::<Vec<_>>().join(",")),
    }
}
fn j_coq(j: &J) -> String {
    match j {
        J::Null => "JNull".into(),
        J::Bool(b) => format!("(JBool {})", b),
        J::Num(s) => {
            if s.starts_with('-') {
                format!("(JNum ({}))", s)
            } else {
                format!("(JNum {})", s)
            }
        }
        J::Float(_) => "JFloat".into(),
        J::Str(s) => format!("(JStr {})", coq_string(s)),
        J::Arr(v) => format!("(JArr {})", list(v, j_coq)),
        J::Obj(v) => format!("(JObj {})", list(v, |(k, x)| format!("({}, {})", coq_string(k), j_coq(x)))),
    }
}

fn tval_coq(tv: &TypedValue) -> String {
    format!("({}, {})", ty(&tv.t), bvalue(&tv.value))
}

/// Independent statement of which types the JSON form can carry at all: it has no place for the
/// element type of an empty vector (read back as vector of empty tuples) and none for the field list
/// of an empty named tuple (its "value":[] is read as an untyped empty sequence).
fn json_carries_type(t: &Type) -> bool {
    match t {
        Type::Scalar(_) | Type::Array(_, _) => true,
        Type::Vector(n, e) => json_carries_type(e) && (*n > 0 || **e == tuple_type(vec![])),
        Type::Tuple(ts) => ts.iter().all(|t| json_carries_type(t)),
        Type::NamedTuple(fs) => !fs.is_empty() && fs.iter().all(|(_, t)| json_carries_type(t)),
    }
}

fn has_empty_named(t: &Type) -> bool {
    match t {
        Type::Scalar(_) | Type::Array(_, _) => false,
        Type::Vector(_, e) => has_empty_named(e),
        Type::Tuple(ts) => ts.iter().any(|t| has_empty_named(t)),
        Type::NamedTuple(fs) => fs.is_empty() || fs.iter().any(|(_, t)| has_empty_named(t)),
    }
}

fn has_lossy_vector(t: &Type) -> bool {
    match t {
        Type::Scalar(_) | Type::Array(_, _) => false,
        Type::Vector(n, e) => (*n == 0 && **e != tuple_type(vec![])) || has_lossy_vector(e),
        Type::Tuple(ts) => ts.iter().any(|t| has_lossy_vector(t)),
        Type::NamedTuple(fs) => fs.iter().any(|(_, t)| has_lossy_vector(t)),
    }
}

fn n_elems(t: &Type) -> usize {
    match t {
        Type::Scalar(_) => 1,
        Type::Array(sh, _) => sh.iter().product::<u64>() as usize,
        _ => 0,
    }
}

/// Value of type `t`.  mode 0: leaves written from in-range boundary integers; 1: leaves are raw
/// bytes (every bit pattern incl. stray bits beyond a bit array's size); 2: fixed pattern `fix`.
fn gen_value(t: &Type, mode: u32, fix: Option<Int>, rng: &mut Rng) -> Value {
    match t {
        Type::Scalar(st) | Type::Array(_, st) => {
            let n = n_elems(t);
            if mode == 1 {
                let bits = n as u64 * width(*st) as u64;
                let len = ((bits + 7) / 8) as usize;
                let bytes: Vec<u8> = (0..len).map(|_| if rng.chance(1, 2) { *rng.pick(&[0u8, 0xff, 0x80, 0x7f, 1]) } else { rng.next() as u8 }).collect();
                Value::from_bytes(bytes)
            } else {
                let xs: Vec<u128> = (0..n)
                    .map(|_| match fix {
                        Some(x) => x.wrap128(),
                        None => in_range_i128(*st, rng).wrap128(),
                    })
                    .map(|x| if *st == BIT { x & 1 } else { x })
                    .collect();
                Value::from_flattened_array(&xs, *st).unwrap()
            }
        }
        Type::Vector(n, e) => Value::from_vector((0..*n).map(|_| gen_value(e, mode, fix, rng)).collect()),
        Type::Tuple(ts) => Value::from_vector(ts.iter().map(|t| gen_value(t, mode, fix, rng)).collect()),
        Type::NamedTuple(fs) => Value::from_vector(fs.iter().map(|(_, t)| gen_value(t, mode, fix, rng)).collect()),
    }
}

fn json_type(rng: &mut Rng, depth: u32) -> Type {
    let k = if depth == 0 { rng.below(3) } else { rng.below(8) };
    match k {
        0 => scalar_type(*rng.pick(&ALL_ST)),
        1 => array_type(random_shape(rng), *rng.pick(&ALL_ST)),
        2 => array_type(if rng.chance(1, 2) { vec![1 + rng.below(20)] } else { vec![1 + rng.below(3), 1 + rng.below(7)] }, BIT),
        3 | 4 => {
            let n = if rng.chance(1, 8) { 0 } else { 1 + rng.below(3) };
            tuple_type((0..n).map(|_| json_type(rng, depth - 1)).collect())
        }
        5 => {
            let n = if rng.chance(1, 12) { 0 } else { 1 + rng.below(3) };
            let names = ["a", "b1", "field 2", "x_y", "kind", "value"];
            let off = rng.below(3) as usize;
            named_tuple_type((0..n as usize).map(|i| (names[(i + off) % names.len()].to_string(), json_type(rng, depth - 1))).collect())
        }
        _ => {
            let n = if rng.chance(1, 12) { 0 } else { 1 + rng.below(3) };
            let e = if n == 0 && rng.chance(1, 2) { tuple_type(vec![]) } else { json_type(rng, depth - 1) };
            vector_type(n, e)
        }
    }
}

fn j_paths(j: &J, cur: &mut Vec<usize>, acc: &mut Vec<Vec<usize>>) {
    acc.push(cur.clone());
    match j {
        J::Arr(v) => {
            for (i, x) in v.iter().enumerate() {
                cur.push(i);
                j_paths(x, cur, acc);
                cur.pop();
            }
        }
        J::Obj(v) => {
            for (i, (_, x)) in v.iter().enumerate() {
                cur.push(i);
                j_paths(x, cur, acc);
                cur.pop();
            }
        }
        _ => {}
    }
}
fn j_at<'a>(j: &'a mut J, path: &[usize]) -> &'a mut J {
    let mut c = j;
    for &i in path {
        c = match c {
            J::Arr(v) => &mut v[i],
            J::Obj(v) => &mut v[i].1,
            _ => unreachable!(),
        };
    }
    c
}

/// One perturbation of a printed tree; returns its label, or None when no node of the needed sort exists.
fn perturb(j: &mut J, rng: &mut Rng) -> Option<String> {
    let mut paths = vec![];
    j_paths(j, &mut vec![], &mut paths);
    let sort = rng.below(3);
    let cand: Vec<Vec<usize>> = {
        let mut c = vec![];
        for p in &paths {
            let node = j_at(j, p);
            let ok = match (sort, &*node) {
                (0, J::Obj(_)) => true,
                (1, J::Num(_)) => true,
                (2, J::Arr(_)) => true,
                _ => false,
            };
            if ok {
                c.push(p.clone());
            }
        }
        c
    };
    if cand.is_empty() {
        return None;
    }
    let p = rng.pick(&cand).clone();
    let node = j_at(j, &p);
    match node {
        J::Obj(fs) => {
            let which = rng.below(9);
            match which {
                0 => {
                    // wrong kind string
                    let k = *rng.pick(&["scalar", "array", "vector", "tuple", "named tuple", "Scalar", "named_tuple", ""]);
                    for f in fs.iter_mut() {
                        if f.0 == "kind" {
                            f.1 = J::Str(k.to_string());
                        }
                    }
                    Some(format!("kind:={}", k))
                }
                1 => {
                    // missing field
                    if fs.is_empty() {
                        return None;
                    }
                    let i = rng.below(fs.len() as u64) as usize;
                    let (k, _) = fs.remove(i);
                    Some(format!("drop:{}", k))
                }
                2 => {
                    let i = rng.below(fs.len().max(1) as u64) as usize;
                    if fs.is_empty() {
                        return None;
                    }
                    let f = fs[i].clone();
                    let k = f.0.clone();
                    fs.push(f);
                    Some(format!("dup:{}", k))
                }
                3 => {
                    let k = *rng.pick(&["typ", "Kind", "names", "shape", ""]);
                    let at = rng.below(fs.len() as u64 + 1) as usize;
                    fs.insert(at, (k.to_string(), J::Num("1".into())));
                    Some(format!("unknown-field:{}", k))
                }
                4 => {
                    let t = *rng.pick(&["bit", "u8", "i8", "u16", "i16", "u32", "i32", "u64", "i64", "u128", "i128", "b", "i33", "U8", ""]);
                    let mut hit = false;
                    for f in fs.iter_mut() {
                        if f.0 == "type" {
                            f.1 = J::Str(t.to_string());
                            hit = true;
                        }
                    }
                    if !hit {
                        fs.push(("type".into(), J::Str(t.to_string())));
                    }
                    Some(format!("type:={}", t))
                }
                5 => {
                    rng.shuffle(fs);
                    Some("reorder-fields".into())
                }
                6 => {
                    // a field of the wrong JSON sort
                    if fs.is_empty() {
                        return None;
                    }
                    let i = rng.below(fs.len() as u64) as usize;
                    let k = fs[i].0.clone();
                    fs[i].1 = rng.pick(&[J::Null, J::Num("7".into()), J::Bool(true), J::Str("scalar".into()), J::Arr(vec![]), J::Obj(vec![])]).clone();
                    Some(format!("retype-field:{}", k))
                }
                7 => {
                    // add a name next to kind/type, or a private-number key next to the others
                    let k = *rng.pick(&["name", "$serde_json::private::Number"]);
                    fs.push((k.to_string(), J::Str("5".into())));
                    Some(format!("extra:{}", k))
                }
                _ => {
                    // the element object alone where a {name,value} wrapper is expected and vice versa
                    let inner = fs.iter().find(|f| f.0 == "value").map(|f| f.1.clone());
                    match inner {
                        Some(x) => {
                            *node = x;
                            Some("unwrap-value".into())
                        }
                        None => None,
                    }
                }
            }
        }
        J::Num(s) => {
            let old = s.clone();
            let pool: Vec<J> = vec![
                J::Num("340282366920938463463374607431768211456".into()),  // 2^128
                J::Num("340282366920938463463374607431768211455".into()),  // 2^128-1
                J::Num("-170141183460469231731687303715884105728".into()), // -2^127
                J::Num("-170141183460469231731687303715884105729".into()), // -2^127-1
                J::Num("18446744073709551616".into()),                     // 2^64
                J::Num("-9223372036854775809".into()),                     // -2^63-1
                J::Num("256".into()),
                J::Num("2".into()),
                J::Num("-1".into()),
                J::Num("-129".into()),
                J::Num("65536".into()),
                J::Float("1.5".into()),
                J::Float("1.0".into()),
                J::Float("1e2".into()),
                J::Float("-0.5".into()),
                J::Null,
                J::Bool(true),
                J::Bool(false),
                J::Str("1".into()),
                J::Arr(vec![J::Num(old.clone())]),
                J::Obj(vec![("$serde_json::private::Number".into(), J::Str(old.clone()))]),
                J::Obj(vec![("$serde_json::private::Number".into(), J::Str("+5".into()))]),
                J::Obj(vec![("$serde_json::private::Number".into(), J::Str("-".into()))]),
                J::Obj(vec![("$serde_json::private::Number".into(), J::Str("".into()))]),
                J::Obj(vec![("$serde_json::private::Number".into(), J::Str("12a".into()))]),
                J::Obj(vec![("$serde_json::private::Number".into(), J::Str("-0012".into()))]),
                J::Obj(vec![("$serde_json::private::Number".into(), J::Str("340282366920938463463374607431768211456".into()))]),
                J::Obj(vec![("$serde_json::private::Number".into(), J::Num("5".into()))]),
            ];
            let n = rng.pick(&pool).clone();
            let lab = format!("num:={}", j_render(&n));
            *node = n;
            Some(lab)
        }
        J::Arr(v) => match rng.below(6) {
            0 => {
                v.pop();
                Some("arr-pop".into())
            }
            1 => {
                if v.is_empty() {
                    return None;
                }
                let x = v[0].clone();
                v.push(x);
                Some("arr-push-copy".into())
            }
            2 => {
                if v.is_empty() {
                    return None;
                }
                let x = v[0].clone();
                v[0] = J::Arr(vec![x]);
                Some("arr-wrap-first".into())
            }
            3 => {
                v.clear();
                Some("arr-clear".into())
            }
            4 => {
                // ragged: the last sub-array loses or gains an element, or an element is flattened
                let i = v.len().checked_sub(1)?;
                match &mut v[i] {
                    J::Arr(w) => {
                        if rng.chance(1, 2) {
                            w.pop();
                        } else {
                            w.push(J::Num("1".into()));
                        }
                        Some("ragged-last".into())
                    }
                    _ => {
                        v.push(J::Arr(vec![J::Num("0".into())]));
                        Some("mixed-depth".into())
                    }
                }
            }
            _ => {
                // move one element from the last row to the first: same count, ragged rows
                if v.len() < 2 {
                    return None;
                }
                let last = v.len() - 1;
                let moved = match &mut v[last] {
                    J::Arr(w) => w.pop(),
                    _ => None,
                }?;
                match &mut v[0] {
                    J::Arr(w) => w.push(moved),
                    _ => return None,
                }
                Some("ragged-same-count".into())
            }
        },
        _ => None,
    }
}

fn rust_parse(text: &str) -> Outcome<TypedValue> {
    let text = text.to_string();
    match std::panic::catch_unwind(move || serde_json::from_str::<TypedValue>(&text)) {
        Ok(Ok(tv)) => Outcome::Ok(tv),
        Ok(Err(_)) => Outcome::Err,
        Err(_) => Outcome::Panic,
    }
}
fn rust_print(tv: &TypedValue) -> Outcome<String> {
    let tv = tv.clone();
    match std::panic::catch_unwind(std::panic::AssertUnwindSafe(move || serde_json::to_string(&tv))) {
        Ok(Ok(s)) => Outcome::Ok(s),
        Ok(Err(_)) => Outcome::Err,
        Err(_) => Outcome::Panic,
    }
}

/// All the cases and oracle checks for one typed value.
fn json_one(tv: &TypedValue, label: &str, n_malformed: usize, rng: &mut Rng, out: &mut Out) {
    let t = &tv.t;
    let input = json!({"what": label, "type": format!("{}", t), "value": bvalue(&tv.value).chars().take(160).collect::<String>()});
    let nested = !(t.is_scalar() || t.is_array());
    let printed = rust_print(tv);
    out.stat(&format!("json_print:{}", printed.tag()));
    let tree = match &printed {
        Outcome::Ok(s) => match j_parse(s) {
            Some(j) => Outcome::Ok(j),
            None => {
                out.violation("json-text-unreadable", input.clone(), format!("harness reader cannot read {}", s));
                return;
            }
        },
        Outcome::Err => Outcome::Err,
        Outcome::Panic => Outcome::Panic,
    };
    let has_neg_or_big = match &printed {
        Outcome::Ok(s) => s.contains('-') || s.split(|c: char| !c.is_ascii_digit()).any(|d| d.len() > 19),
        _ => false,
    };
    let nontrivial = nested || has_neg_or_big || matches!(t, Type::Array(_, _));
    out.case("json_print", format!("print_tv {} {}", ty(t), bvalue(&tv.value)), res(&tree, j_coq), input.clone(), nontrivial);
    let (text, tree) = match (printed, tree) {
        (Outcome::Ok(s), Outcome::Ok(j)) => (s, j),
        (Outcome::Panic, _) => {
            out.violation("json-print-panics", input.clone(), "to_string panicked".into());
            return;
        }
        _ => return,
    };
    // parse what Rust printed: model on the tree, Rust on the text
    let back = rust_parse(&text);
    out.stat(&format!("json_parse:{}", back.tag()));
    out.case("json_parse", format!("parse_tv {}", j_coq(&tree)), res(&back, tval_coq), input.clone(), nontrivial);
    // native oracle: the property itself.  Two input classes are open known findings of /repo (the JSON
    // form cannot carry them); they get their own violation classes, every other failure a different one.
    let carries = json_carries_type(t);
    let empty_named = has_empty_named(t);
    match &back {
        Outcome::Ok(tv2) => {
            let eq = { let (a, b) = (tv.clone(), tv2.clone()); observe(move || a.is_equal(&b)) };
            out.case("is_equal", format!("is_equal {} {}", tval_coq(tv), tval_coq(tv2)), res(&eq, |b| b.to_string()), input.clone(), nontrivial);
            let again = rust_print(tv2);
            if eq != Outcome::Ok(true) {
                if has_lossy_vector(t) {
                    out.stat("uncarried-type:not-equal");
                    out.violation("json-empty-vector-type-lost", input.clone(), format!("{} parsed back to type {}, is_equal = {:?}", text, tv2.t, eq));
                } else {
                    out.violation("json-roundtrip-not-equal", input.clone(), format!("{} parsed back to type {} value {}, is_equal = {:?}", text, tv2.t, bvalue(&tv2.value), eq));
                }
            } else if again != Outcome::Ok(text.clone()) {
                out.violation("json-second-print-differs", input.clone(), format!("{} then {:?}", text, again));
            } else {
                if !carries {
                    out.stat("uncarried-type:equal");
                }
                out.oracle_ok();
            }
        }
        Outcome::Err => {
            if empty_named {
                out.stat("uncarried-type:rejected");
                out.violation("json-empty-named-tuple-rejected", input.clone(), format!("from_str rejects {}", text));
            } else {
                out.violation("json-roundtrip-rejected", input.clone(), format!("from_str rejects {}", text));
            }
        }
        Outcome::Panic => out.violation("json-parse-panics", input.clone(), format!("from_str panicked on {}", text)),
    }
    // malformed stream: perturbed trees, model and Rust must agree (Ok with the same value, or Err)
    for _ in 0..n_malformed {
        let mut m = tree.clone();
        let lab = match perturb(&mut m, rng) {
            Some(l) => l,
            None => continue,
        };
        let mtext = j_render(&m);
        let r = rust_parse(&mtext);
        out.stat(&format!("json_malformed:{}", r.tag()));
        out.stat(&format!("perturb:{}", lab.split(':').next().unwrap_or("")));
        let minput = json!({"what": label, "perturbation": lab, "text": mtext.chars().take(300).collect::<String>()});
        out.case("json_parse_malformed", format!("parse_tv {}", j_coq(&m)), res(&r, tval_coq), minput.clone(), true);
        if matches!(r, Outcome::Panic) {
            out.violation("json-parse-panics", minput, "from_str panicked".into());
        } else {
            out.oracle_ok();
        }
    }
}

fn run_json(tier: &str, seed: u64, out: &mut Out) {
    let mut rng = Rng::new(seed ^ 0xC13_150);
    let thorough = tier != "quick";
    // ---- deterministic sweep: every scalar type x boundary values, as scalar and in arrays of rank 1-3
    let p = |k: u32| -> u128 { 1u128 << k };
    let fixed: Vec<Int> = vec![
        Int::I(0), Int::I(1), Int::I(-1), Int::I(-2),
        Int::I(127), Int::I(128), Int::I(-128), Int::I(255),
        Int::I(32767), Int::I(-32768), Int::I(65535),
        Int::I(i32::MAX as i128), Int::I(i32::MIN as i128), Int::I(u32::MAX as i128),
        Int::I(i64::MAX as i128), Int::I(i64::MIN as i128), Int::U(u64::MAX as u128),
        Int::U(p(64)), Int::U(p(64) + 1), Int::U(p(127) - 1), Int::U(p(127)), Int::I(i128::MIN), Int::U(u128::MAX),
    ];
    let sweep_shapes: [&[u64]; 4] = [&[3], &[2, 2], &[2, 1, 2], &[1]];
    for &st in ALL_ST.iter() {
        for (i, x) in fixed.iter().enumerate() {
            if !thorough && i % 2 == 1 && i < 16 {
                continue;
            }
            let t = scalar_type(st);
            let v = gen_value(&t, 2, Some(*x), &mut rng);
            let tv = TypedValue::new(t, v).unwrap();
            out.stat(&format!("json_st:{}", scalar(st)));
            json_one(&tv, "sweep-scalar", if thorough { 2 } else { 1 }, &mut rng, out);
            if thorough || i % 3 == 0 {
                let t = array_type(sweep_shapes[i % 4].to_vec(), st);
                let v = gen_value(&t, 2, Some(*x), &mut rng);
                let tv = TypedValue::new(t, v).unwrap();
                json_one(&tv, "sweep-array", 1, &mut rng, out);
            }
        }
    }
    // ---- empty containers (the JSON form has no place for the type of nothing)
    let edge: Vec<Type> = vec![
        tuple_type(vec![]),
        vector_type(0, tuple_type(vec![])),
        vector_type(0, scalar_type(INT32)),
        vector_type(0, array_type(vec![3], BIT)),
        tuple_type(vec![vector_type(0, scalar_type(UINT8)), scalar_type(BIT)]),
        vector_type(2, vector_type(0, scalar_type(INT64))),
        named_tuple_type(vec![]),
        vector_type(2, named_tuple_type(vec![])),
        named_tuple_type(vec![("a".to_string(), named_tuple_type(vec![]))]),
        named_tuple_type(vec![("a".to_string(), tuple_type(vec![])), ("b".to_string(), vector_type(1, tuple_type(vec![])))]),
    ];
    for t in edge {
        let v = gen_value(&t, 0, None, &mut rng);
        let tv = TypedValue::new(t, v).unwrap();
        json_one(&tv, "empty-container", 1, &mut rng, out);
    }
    // ---- random type trees (depth <= 3), leaves from in-range integers or raw bytes
    let n = if thorough { 1500 } else { 90 };
    for i in 0..n {
        let depth = (i % 4) as u32;
        let t = json_type(&mut rng, depth);
        let mode = if rng.chance(2, 5) { 1 } else { 0 };
        let v = gen_value(&t, mode, None, &mut rng);
        let tv = match TypedValue::new(t.clone(), v) {
            Ok(tv) => tv,
            Err(_) => {
                out.stat("json_gen:new-failed");
                continue;
            }
        };
        out.stat(&format!("json_depth:{}", depth));
        out.stat(if mode == 1 { "json_leaves:raw-bytes" } else { "json_leaves:ints" });
        json_one(&tv, "random", 2, &mut rng, out);
    }
    // ---- typed values that violate the TypedValue invariant (fields are public): printing must
    //      agree with the model (an error, not a panic)
    let m = if thorough { 150 } else { 20 };
    for _ in 0..m {
        let t = json_type(&mut rng, 2);
        let t2 = json_type(&mut rng, 2);
        let v = gen_value(&t2, 1, None, &mut rng);
        let tv = TypedValue { value: v, t, name: None };
        let pr = rust_print(&tv);
        out.stat(&format!("json_print_mismatch:{}", pr.tag()));
        let tree = match &pr {
            Outcome::Ok(s) => match j_parse(s) { Some(j) => Outcome::Ok(j), None => continue },
            Outcome::Err => Outcome::Err,
            Outcome::Panic => Outcome::Panic,
        };
        out.case("json_print_mismatch", format!("print_tv {} {}", ty(&tv.t), bvalue(&tv.value)), res(&tree, j_coq),
            json!({"type": format!("{}", tv.t), "value_of_type": format!("{}", t2)}), true);
    }
}

//! Printers from Rust data to Gallina terms (Z_scope is open in every cases file).
use ciphercore_base::data_types::{ScalarType, Type};
use ciphercore_base::data_values::Value;

pub fn z_i128(x: i128) -> String {
    if x < 0 {
        format!("({})", x)
    } else {
        format!("{}", x)
    }
}
pub fn z_u128(x: u128) -> String {
    format!("{}", x)
}
pub fn list<T, F: Fn(&T) -> String>(xs: &[T], f: F) -> String {
    let v: Vec<String> = xs.iter().map(f).collect();
    format!("[{}]", v.join("; "))
}
pub fn list_u64(xs: &[u64]) -> String {
    list(xs, |x| format!("{}", x))
}
pub fn list_u8(xs: &[u8]) -> String {
    list(xs, |x| format!("{}", x))
}
pub fn list_u128(xs: &[u128]) -> String {
    list(xs, |x| z_u128(*x))
}
pub fn list_i128(xs: &[i128]) -> String {
    list(xs, |x| z_i128(*x))
}
pub fn scalar(st: ScalarType) -> &'static str {
    match st {
        ScalarType::Bit => "Bit",
        ScalarType::U8 => "U8",
        ScalarType::I8 => "I8",
        ScalarType::U16 => "U16",
        ScalarType::I16 => "I16",
        ScalarType::U32 => "U32",
        ScalarType::I32 => "I32",
        ScalarType::U64 => "U64",
        ScalarType::I64 => "I64",
        ScalarType::U128 => "U128",
        ScalarType::I128 => "I128",
    }
}
pub fn coq_string(s: &str) -> String {
    format!("\"{}\"%string", s.replace('"', "\"\""))
}
pub fn ty(t: &Type) -> String {
    match t {
        Type::Scalar(st) => format!("(TScalar {})", scalar(*st)),
        Type::Array(sh, st) => format!("(TArray {} {})", list_u64(sh), scalar(*st)),
        Type::Vector(n, t) => format!("(TVector {} {})", n, ty(t)),
        Type::Tuple(ts) => format!("(TTuple {})", list(ts, |t| ty(t))),
        Type::NamedTuple(fs) => format!(
            "(TNamed {})",
            list(fs, |(n, t)| format!("({}, {})", coq_string(n), ty(t)))
        ),
    }
}
pub fn bvalue(v: &Value) -> String {
    v.access(
        |b| Ok(format!("(BBytes {})", list_u8(b))),
        |vs| Ok(format!("(BVec {})", list(vs, |c| bvalue(c)))),
    )
    .unwrap()
}
pub fn res<T, F: Fn(&T) -> String>(r: &Outcome<T>, f: F) -> String {
    match r {
        Outcome::Ok(x) => format!("(Ok {})", f(x)),
        Outcome::Err => "Err".to_string(),
        Outcome::Panic => "Panic".to_string(),
    }
}

/// Canonical outcome of a Rust call: errors mapped to a small enum.
#[derive(Clone, Debug, PartialEq)]
pub enum Outcome<T> {
    Ok(T),
    Err,
    Panic,
}
impl<T> Outcome<T> {
    pub fn tag(&self) -> &'static str {
        match self {
            Outcome::Ok(_) => "Ok",
            Outcome::Err => "Err",
            Outcome::Panic => "Panic",
        }
    }
    pub fn ok(self) -> Option<T> {
        match self {
            Outcome::Ok(x) => Some(x),
            _ => None,
        }
    }
}
/// Runs a closure returning the crate's Result under catch_unwind.
pub fn observe<T, F: FnOnce() -> ciphercore_base::errors::Result<T>>(f: F) -> Outcome<T> {
    match std::panic::catch_unwind(std::panic::AssertUnwindSafe(f)) {
        Ok(Ok(x)) => Outcome::Ok(x),
        Ok(Err(_)) => Outcome::Err,
        Err(_) => Outcome::Panic,
    }
}

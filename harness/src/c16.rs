//! C16 — comparison operations equal integer comparison.
//! Correspondence of Model/Cmp.v with ops/comparisons.rs, ops/min_max.rs, ops/multiplexer.rs:
//! a graph with BIT-array inputs and one custom operation is instantiated by /repo's
//! `run_instantiation_pass` and evaluated by /repo's evaluator; the output bits are compared with
//! the Gallina model on the same operand pairs (cases) and with native u128/i128 comparison
//! (oracle).  Broadcasting is expanded to operand pairs here, independently of /repo.
use crate::coqfmt::*;
use crate::out::Out;
use crate::rng::Rng;
use ciphercore_base::custom_ops::{run_instantiation_pass, CustomOperation};
use ciphercore_base::data_types::{array_type, BIT};
use ciphercore_base::data_values::Value;
use ciphercore_base::errors::Result;
use ciphercore_base::evaluators::random_evaluate;
use ciphercore_base::graphs::create_context;
use ciphercore_base::ops::comparisons::{
    Equal, GreaterThan, GreaterThanEqualTo, LessThan, LessThanEqualTo, NotEqual,
};
use ciphercore_base::ops::min_max::{Max, Min};
use serde_json::json;

pub const HEADER: &str = "From CC Require Import Base.Prelude Base.Scalar Base.Ty Base.Shape Graph.Value Graph.IR Graph.Eval Model.Cmp Model.GraphTies.";

const OP_NAMES: [&str; 8] = [
    "Equal", "NotEqual", "LessThan", "GreaterThan", "LessThanEqualTo", "GreaterThanEqualTo", "Min", "Max",
];

fn custom_op(op: usize, signed_comparison: bool) -> CustomOperation {
    match op {
        0 => CustomOperation::new(Equal {}),
        1 => CustomOperation::new(NotEqual {}),
        2 => CustomOperation::new(LessThan { signed_comparison }),
        3 => CustomOperation::new(GreaterThan { signed_comparison }),
        4 => CustomOperation::new(LessThanEqualTo { signed_comparison }),
        5 => CustomOperation::new(GreaterThanEqualTo { signed_comparison }),
        6 => CustomOperation::new(Min { signed_comparison }),
        _ => CustomOperation::new(Max { signed_comparison }),
    }
}

fn mask(w: u32) -> u128 {
    if w >= 128 {
        u128::MAX
    } else {
        (1u128 << w) - 1
    }
}

/// two's-complement reading of the low `w` bits of x (w <= 128)
fn as_signed(x: u128, w: u32) -> i128 {
    if w == 0 {
        0
    } else {
        // move bit w-1 to the sign position, then shift back arithmetically
        ((x << (128 - w)) as i128) >> (128 - w)
    }
}

/// LSB-first bits of the operands, row-major: the BIT array of shape [.., w]
fn to_bits(xs: &[u128], w: u32) -> Vec<u8> {
    let mut v = Vec::with_capacity(xs.len() * w as usize);
    for x in xs {
        for i in 0..w {
            v.push(((x >> i) & 1) as u8);
        }
    }
    v
}

/// /repo: build the graph with one custom op on BIT arrays of shapes sa ++ [wa], sb ++ [wb],
/// instantiate, evaluate; returns the flattened output bits.
fn run_repo(op: usize, sg: bool, sa: &[u64], wa: u32, xa: &[u128], sb: &[u64], wb: u32, xb: &[u128]) -> Result<Vec<u64>> {
    let c = create_context()?;
    let g = c.create_graph()?;
    let mut sha = sa.to_vec();
    sha.push(wa as u64);
    let mut shb = sb.to_vec();
    shb.push(wb as u64);
    let ia = g.input(array_type(sha, BIT))?;
    let ib = g.input(array_type(shb, BIT))?;
    let o = g.custom_op(custom_op(op, sg), vec![ia, ib])?;
    let ot = o.get_type()?;
    g.set_output_node(o)?;
    g.finalize()?;
    c.set_main_graph(g.clone())?;
    c.finalize()?;
    let mapped = run_instantiation_pass(c)?;
    let va = Value::from_flattened_array(&to_bits(xa, wa), BIT)?;
    let vb = Value::from_flattened_array(&to_bits(xb, wb), BIT)?;
    let r = random_evaluate(mapped.get_context().get_main_graph()?, vec![va, vb])?;
    if ot.is_scalar() {
        Ok(vec![r.to_u8(BIT)? as u64])
    } else {
        r.to_flattened_array_u64(ot)
    }
}

/// NumPy broadcasting of the prefix shapes, written independently of /repo: output shape and,
/// for every output position (row-major), the positions of the two operands.
fn broadcast(sa: &[u64], sb: &[u64]) -> Option<(Vec<u64>, Vec<(usize, usize)>)> {
    let n = sa.len().max(sb.len());
    let pad = |s: &[u64]| -> Vec<u64> {
        let mut v = vec![1u64; n - s.len()];
        v.extend_from_slice(s);
        v
    };
    let (pa, pb) = (pad(sa), pad(sb));
    let mut out = vec![];
    for i in 0..n {
        if pa[i] == pb[i] || pb[i] == 1 {
            out.push(pa[i]);
        } else if pa[i] == 1 {
            out.push(pb[i]);
        } else {
            return None;
        }
    }
    let total: u64 = out.iter().product();
    let mut pos = vec![];
    for k in 0..total {
        let mut rem = k;
        let mut idx = vec![0u64; n];
        for i in (0..n).rev() {
            idx[i] = rem % out[i];
            rem /= out[i];
        }
        let flat = |p: &[u64]| -> usize {
            let mut f = 0u64;
            for i in 0..n {
                f = f * p[i] + if p[i] == 1 { 0 } else { idx[i] };
            }
            f as usize
        };
        pos.push((flat(&pa), flat(&pb)));
    }
    Some((out, pos))
}

/// the property itself, natively: expected output of op on one operand pair
fn native_cmp(op: usize, sg: bool, w: u32, a: u128, b: u128) -> bool {
    let o = if sg { as_signed(a, w).cmp(&as_signed(b, w)) } else { a.cmp(&b) };
    use std::cmp::Ordering::*;
    match op {
        0 => o == Equal,
        1 => o != Equal,
        2 => o == Less,
        3 => o == Greater,
        4 => o != Greater,
        _ => o != Less,
    }
}
fn native_minmax(op: usize, sg: bool, w: u32, a: u128, b: u128) -> u128 {
    let a_le_b = if sg { as_signed(a, w) <= as_signed(b, w) } else { a <= b };
    if (op == 6) == a_le_b {
        a
    } else {
        b
    }
}

/// interesting values of width w
fn boundary(w: u32, rng: &mut Rng) -> u128 {
    let m = mask(w);
    let half = if w == 0 { 0 } else { 1u128 << (w - 1) };
    let v = match rng.below(12) {
        0 => 0,
        1 => 1,
        2 => m,
        3 => m.wrapping_sub(1),
        4 => half,
        5 => half.wrapping_sub(1),
        6 => half.wrapping_add(1),
        7 => 0x5555_5555_5555_5555_5555_5555_5555_5555,
        8 => 0xAAAA_AAAA_AAAA_AAAA_AAAA_AAAA_AAAA_AAAA,
        9 => rng.u128() >> rng.below(128),
        _ => rng.u128(),
    };
    v & m
}

/// operand pairs for one width: equal operands, adjacent values, sign boundaries, operands that
/// differ in exactly one position (every reduction-tree leaf can decide), random
fn gen_pairs(w: u32, n: usize, rng: &mut Rng) -> Vec<(u128, u128)> {
    let m = mask(w);
    let mut v: Vec<(u128, u128)> = vec![];
    let half = 1u128 << (w - 1);
    let fixed = [
        (0, 0), (m, m), (0, m), (m, 0), (half, half.wrapping_sub(1) & m), (half.wrapping_sub(1) & m, half),
        (half, 0), (0, half), (m, half), (half, m), (half.wrapping_add(1) & m, half), (1 & m, 0),
    ];
    v.extend_from_slice(&fixed);
    while v.len() < n {
        let x = boundary(w, rng);
        let p = match rng.below(8) {
            0 => (x, x),
            1 => (x, x.wrapping_add(1) & m),
            2 => (x.wrapping_add(1) & m, x),
            3 | 4 => {
                // differ in exactly one position
                let i = match rng.below(4) {
                    0 => 0,
                    1 => w - 1,
                    _ => rng.below(w as u64) as u32,
                };
                if rng.chance(1, 2) { (x, x ^ (1u128 << i)) } else { (x ^ (1u128 << i), x) }
            }
            5 => {
                // differ in two positions with opposite directions
                let i = rng.below(w as u64) as u32;
                let j = rng.below(w as u64) as u32;
                ((x | (1u128 << i)) & !(1u128 << j), (x | (1u128 << j)) & !(1u128 << i))
            }
            6 => (x, !x & m),
            _ => (x, boundary(w, rng)),
        };
        v.push((p.0 & m, p.1 & m));
    }
    v
}

fn pairs_coq(ps: &[(u128, u128)]) -> String {
    list(ps, |p| format!("({}, {})", p.0, p.1))
}

struct Job<'a> {
    sg: bool,
    w: u32,
    sa: &'a [u64],
    sb: &'a [u64],
    xa: Vec<u128>,
    xb: Vec<u128>,
    class: &'a str,
}

fn pack(bits: &[u64]) -> u128 {
    bits.iter().enumerate().fold(0u128, |acc, (i, b)| acc | ((*b as u128 & 1) << i))
}
fn bool_coq(b: &u64) -> String {
    if *b == 1 { "true".to_string() } else { "false".to_string() }
}

/// One job = the eight custom operations (six comparisons, Min, Max) in mode `sg` on the same
/// operand arrays: eight graphs built, instantiated and evaluated by /repo.  The oracle is checked
/// on every output element; one correspondence case is emitted unless oracle-only.
fn do_job(j: Job, emit_case: bool, out: &mut Out) {
    let Job { sg, w, sa, sb, xa, xb, class } = j;
    let (oshape, pos) = broadcast(sa, sb).expect("harness generates broadcastable shapes");
    let pairs: Vec<(u128, u128)> = pos.iter().map(|&(i, k)| (xa[i], xb[k])).collect();
    let input = json!({"signed": sg, "width": w, "shape_a": sa, "shape_b": sb, "class": class,
        "pairs": pairs.len(), "first_pairs": pairs.iter().take(4).map(|p| format!("{:#x},{:#x}", p.0, p.1)).collect::<Vec<_>>()});
    out.stat(&format!("w:{}", w));
    out.stat(&format!("signed:{}", sg));
    out.stat(&format!("shapes:{:?}x{:?}", sa, sb));
    out.stat(&format!("class:{}", class));
    out.stat_n("operand_pairs", pairs.len() as u64);
    let legit_err = sg && w < 2;
    let mut cmp_rhs: Vec<String> = vec![];
    let mut mm_rhs: Vec<String> = vec![];
    for op in 0..8usize {
        let (xa2, xb2, sa2, sb2) = (xa.clone(), xb.clone(), sa.to_vec(), sb.to_vec());
        let r = observe(move || run_repo(op, sg, &sa2, w, &xa2, &sb2, w, &xb2));
        out.stat(&format!("op:{}:{}", OP_NAMES[op], r.tag()));
        out.stat("graphs_evaluated");
        let elem_input = |k: usize, p: &(u128, u128)| json!({"op": OP_NAMES[op], "signed": sg, "width": w, "shape_a": sa, "shape_b": sb, "position": k, "a": format!("{:#x}", p.0), "b": format!("{:#x}", p.1)});
        let mode = if sg { "-signed" } else { "" };
        // Equal / NotEqual have no signed mode: a one-bit operand is fine for them
        let legit = legit_err && op >= 2;
        if op < 6 {
            cmp_rhs.push(res(&r, |bits| list(bits, bool_coq)));
            match &r {
                Outcome::Ok(bits) => {
                    if bits.len() != pairs.len() {
                        out.violation("cmp-output-size", input.clone(), format!("{}: {} output bits for {} broadcast positions (shape {:?})", OP_NAMES[op], bits.len(), pairs.len(), oshape));
                        continue;
                    }
                    let mut bad = false;
                    for (k, p) in pairs.iter().enumerate() {
                        let exp = native_cmp(op, sg && op >= 2, w, p.0, p.1);
                        if bits[k] != exp as u64 {
                            out.violation(&format!("cmp-wrong-{}{}", OP_NAMES[op], mode), elem_input(k, p), format!("observed {}, expected {}", bits[k], exp));
                            bad = true;
                            break;
                        }
                    }
                    if legit {
                        out.violation("reject-accepts", input.clone(), format!("{}: one-bit signed operands accepted", OP_NAMES[op]));
                    } else if !bad {
                        out.stat_n("oracle_checks", pairs.len() as u64);
                    }
                }
                _ => {
                    if legit && r == Outcome::Err {
                        out.oracle_ok();
                    } else {
                        out.violation("cmp-fails", input.clone(), format!("{}: {} on valid operands", OP_NAMES[op], r.tag()));
                    }
                }
            }
        } else {
            // Min / Max: output shape is broadcast ++ [w]
            let vals: Outcome<Vec<(usize, u128)>> = match &r {
                Outcome::Ok(bits) => {
                    if bits.len() != pairs.len() * w as usize {
                        out.violation("minmax-output-size", input.clone(), format!("{}: {} output bits for {} positions of width {}", OP_NAMES[op], bits.len(), pairs.len(), w));
                    }
                    Outcome::Ok(bits.chunks(w as usize).map(|c| (c.len(), pack(c))).collect())
                }
                Outcome::Err => Outcome::Err,
                Outcome::Panic => Outcome::Panic,
            };
            mm_rhs.push(res(&vals, |v| list(v, |(n, x)| format!("({}%nat, {})", n, x))));
            match &vals {
                Outcome::Ok(v) => {
                    let mut bad = v.len() != pairs.len();
                    if !bad {
                        for (k, p) in pairs.iter().enumerate() {
                            let exp = native_minmax(op, sg, w, p.0, p.1);
                            if v[k].1 != exp {
                                out.violation(&format!("minmax-wrong-{}{}", OP_NAMES[op], mode), elem_input(k, p), format!("observed {:#x}, expected {:#x}", v[k].1, exp));
                                bad = true;
                                break;
                            }
                        }
                    }
                    if legit {
                        out.violation("reject-accepts", input.clone(), format!("{}: one-bit signed operands accepted", OP_NAMES[op]));
                    } else if !bad {
                        out.stat_n("oracle_checks", pairs.len() as u64);
                    }
                }
                _ => {
                    if legit && r == Outcome::Err {
                        out.oracle_ok();
                    } else {
                        out.violation("minmax-fails", input.clone(), format!("{}: {} on valid operands", OP_NAMES[op], r.tag()));
                    }
                }
            }
        }
    }
    if emit_case {
        let nontrivial = pairs.iter().any(|p| p.0 != p.1);
        out.case(
            "ops",
            format!("all_ops {} {} {}", if sg { "true" } else { "false" }, w, pairs_coq(&pairs)),
            format!("([{}], [{}])", cmp_rhs.join("; "), mm_rhs.join("; ")),
            input,
            nontrivial,
        );
    }
}

/// malformed stream: operands the operations must reject (an error, never a panic)
fn reject_case(sg: bool, wa: u32, wb: u32, a: u128, b: u128, out: &mut Out) {
    let input = json!({"signed": sg, "width_a": wa, "width_b": wb, "a": format!("{:#x}", a), "b": format!("{:#x}", b)});
    let mut cmp_rhs: Vec<String> = vec![];
    let mut mm_rhs: Vec<String> = vec![];
    for op in 0..8usize {
        let r = observe(move || run_repo(op, sg, &[], wa, &[a], &[], wb, &[b]));
        out.stat(&format!("reject:{}", r.tag()));
        out.stat("graphs_evaluated");
        if op < 6 {
            cmp_rhs.push(res(&r, |bits| bool_coq(&bits[0])));
        } else {
            mm_rhs.push(res(&r, |bits| format!("({}%nat, {})", bits.len(), pack(bits))));
        }
        let must_reject = wa != wb || wa == 0 || (sg && op >= 2 && wa < 2);
        match r {
            Outcome::Panic => out.violation("reject-panics", input.clone(), format!("{}: panic instead of an error", OP_NAMES[op])),
            Outcome::Ok(_) if must_reject => out.violation("reject-accepts", input.clone(), format!("{}: operands of unequal/invalid width accepted", OP_NAMES[op])),
            Outcome::Err if !must_reject => out.violation("cmp-fails", input.clone(), format!("{}: valid operands rejected", OP_NAMES[op])),
            _ => out.oracle_ok(),
        }
    }
    out.case(
        "reject",
        format!("all_ops_on {} (bits_of {} {}) (bits_of {} {})", if sg { "true" } else { "false" }, wa, a, wb, b),
        format!("([{}], [{}])", cmp_rhs.join("; "), mm_rhs.join("; ")),
        input,
        true,
    );
}

const QUICK_WIDTHS: [u32; 25] = [
    1, 2, 3, 4, 5, 6, 7, 8, 9, 10, 11, 12, 13, 15, 16, 17, 31, 32, 33, 63, 64, 65, 100, 127, 128,
];

/// pairs of prefix shapes (the bit dimension is appended): [k,w] vs [w], [k,1,w] vs [m,w], ...
const BCAST: [(&[u64], &[u64]); 10] = [
    (&[3], &[]),
    (&[], &[4]),
    (&[3, 1], &[2]),
    (&[2], &[3, 1]),
    (&[2, 3], &[1, 3]),
    (&[2, 3], &[2, 3]),
    (&[1], &[5]),
    (&[2, 1, 3], &[2, 1]),
    (&[1, 1], &[1]),
    (&[4, 1], &[1, 3]),
];

/// T-tie: the real instantiated + inlined graph, exported, evaluated inside Coq on ALL operand
/// pairs of width `w` and compared with the proved model (Model/GraphTies.v).
fn graph_exhaustive_case(op: usize, sg: bool, w: u32, out: &mut Out) {
    use ciphercore_base::inline::inline_ops::{inline_operations, InlineConfig, InlineMode};
    let r = (|| -> Result<(ciphercore_base::graphs::Context, ciphercore_base::graphs::Graph, u64, u64, u64)> {
        let c = create_context()?;
        let g = c.create_graph()?;
        let ia = g.input(array_type(vec![w as u64], BIT))?;
        let ib = g.input(array_type(vec![w as u64], BIT))?;
        let o = g.custom_op(custom_op(op, sg), vec![ia, ib])?;
        g.set_output_node(o)?;
        g.finalize()?;
        c.set_main_graph(g.clone())?;
        c.finalize()?;
        let inst = run_instantiation_pass(c)?;
        let inl = inline_operations(&inst.get_context(), InlineConfig { default_mode: InlineMode::Simple, ..Default::default() })?;
        let kc = inl.get_context();
        let mg = kc.get_main_graph()?;
        let ins: Vec<u64> = mg.get_nodes().iter().filter(|n| n.get_operation().is_input()).map(|n| n.get_id()).collect();
        let oid = mg.get_output_node()?.get_id();
        Ok((kc, mg, ins[0], ins[1], oid))
    })();
    let desc = json!({"op": OP_NAMES[op], "signed": sg, "width": w});
    match r {
        Ok((_keep_ctx, mg, i0, i1, oid)) => {
            let nodes = crate::export::nodes_coq(&mg);
            out.stat_n("T:graph_nodes", mg.get_nodes().len() as u64);
            let lhs = if op < 6 {
                format!("graph_cmp_exhaustive {} {} {} {} {}%nat {}%N {}", nodes, i0, i1, oid, w, op, if sg { "true" } else { "false" })
            } else {
                format!("graph_minmax_exhaustive {} {} {} {} {}%nat {} {}", nodes, i0, i1, oid, w, if op == 7 { "true" } else { "false" }, if sg { "true" } else { "false" })
            };
            out.case("T:graph_exhaustive", lhs, "true".into(), desc, true);
        }
        Err(_) => {
            // rejected instantiation (e.g. signed comparison of width 1): nothing to export
            out.stat("T:graph_rejected");
        }
    }
}

pub fn run(tier: &str, seed: u64, out: &mut Out) {
    {
        let widths: &[u32] = if tier == "thorough" { &[1, 2, 3, 4, 5] } else { &[1, 2, 3] };
        for &w in widths {
            for op in 0..8 {
                for &sg in &[false, true] {
                    if (op == 0 || op == 1) && sg { continue; }
                    graph_exhaustive_case(op, sg, w, out);
                }
            }
        }
    }
    let mut rng = Rng::new(seed ^ 0xC16);
    let thorough = tier == "thorough";
    let search = tier == "search";
    let emit = !search;
    let modes = [false, true];

    // ---- 1. exhaustive operand pairs for small widths (all ops, both modes)
    let wmax = if thorough || search { 5 } else { 4 };
    for w in 1..=wmax {
        let n = 1u128 << w;
        let mut xa = vec![];
        let mut xb = vec![];
        for a in 0..n {
            for b in 0..n {
                xa.push(a);
                xb.push(b);
            }
        }
        let k = xa.len() as u64;
        let col: Vec<u128> = (0..n).collect();
        for &sg in modes.iter() {
            do_job(Job { sg, w, sa: &[k], sb: &[k], xa: xa.clone(), xb: xb.clone(), class: "exhaustive" }, emit, out);
            // the same space through broadcasting: [2^w,1,w] vs [2^w,w]
            if thorough || w <= 3 {
                do_job(Job { sg, w, sa: &[n as u64, 1], sb: &[n as u64], xa: col.clone(), xb: col.clone(), class: "exhaustive-broadcast" }, emit, out);
            }
        }
    }

    // ---- 2. every width (quick: a spread covering the parity paths), all ops, both modes
    let widths: Vec<u32> = if thorough || search {
        (1..=128).collect()
    } else {
        let mut v = QUICK_WIDTHS.to_vec();
        for _ in 0..2 {
            let w = 18 + rng.below(109) as u32;
            if !v.contains(&w) {
                v.push(w);
            }
        }
        v
    };
    let npairs = if search { 160 } else if thorough { 48 } else { 28 };
    for &w in widths.iter() {
        for &sg in modes.iter() {
            let ps = gen_pairs(w, npairs, &mut rng);
            let k = ps.len() as u64;
            let xa: Vec<u128> = ps.iter().map(|p| p.0).collect();
            let xb: Vec<u128> = ps.iter().map(|p| p.1).collect();
            do_job(Job { sg, w, sa: &[k], sb: &[k], xa, xb, class: "width-sweep" }, emit, out);
        }
        // one bit string against one bit string: rank-1 inputs, scalar comparison output
        if thorough || search || rng.chance(1, 3) {
            let sg = rng.chance(1, 2);
            let ps = gen_pairs(w, 13 + rng.below(8) as usize, &mut rng);
            let p = ps[ps.len() - 1];
            do_job(Job { sg, w, sa: &[], sb: &[], xa: vec![p.0], xb: vec![p.1], class: "rank1" }, emit, out);
        }
    }

    // ---- 3. broadcasting shapes
    let bw: Vec<u32> = if thorough || search { vec![1, 2, 3, 5, 8, 13, 33, 64, 127] } else { vec![1, 3, 8, 33] };
    for &(sa, sb) in BCAST.iter() {
        for &w in bw.iter() {
            for &sg in modes.iter() {
                if !(thorough || search) && !rng.chance(1, 4) {
                    continue;
                }
                let na: u64 = sa.iter().product();
                let nb: u64 = sb.iter().product();
                // few distinct values so that equal operands meet often
                let pool: Vec<u128> = (0..3).map(|_| boundary(w, &mut rng)).collect();
                let pick = |rng: &mut Rng| if rng.chance(1, 2) { *rng.pick(&pool) } else { boundary(w, rng) };
                let xa: Vec<u128> = (0..na).map(|_| pick(&mut rng)).collect();
                let xb: Vec<u128> = (0..nb).map(|_| pick(&mut rng)).collect();
                do_job(Job { sg, w, sa, sb, xa, xb, class: "broadcast" }, emit, out);
            }
        }
    }

    // ---- 4. malformed stream: unequal widths, one-bit signed operands, empty bit dimension
    if !search {
        let rounds = if thorough { 12 } else { 3 };
        for _ in 0..rounds {
            for &sg in modes.iter() {
                let wa = 1 + rng.below(9) as u32;
                let wb = if rng.chance(1, 2) { wa + 1 } else { 1 + rng.below(9) as u32 };
                reject_case(sg, wa, wb, boundary(wa, &mut rng), boundary(wb, &mut rng), out);
            }
        }
        reject_case(true, 1, 1, 0, 1, out);
        reject_case(true, 1, 1, 1, 1, out);
        reject_case(false, 0, 0, 0, 0, out);
        reject_case(true, 0, 0, 0, 0, out);
        reject_case(false, 0, 3, 0, 5, out);
    }
}

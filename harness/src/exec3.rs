//! Three-party execution of an inlined (compiled) graph: three value tables, one SimpleEvaluator
//! per party (own seed => own Random draws, own PRF cache), junk where a party holds nothing,
//! and a node annotated Send(s, r) copies party s's value of that node to party r. Nothing else
//! crosses parties. Mirrors Model/Knows.v (lstep / lnode / route_of).
use crate::coqfmt::*;
use crate::export::value_coq;
use ciphercore_base::data_types::*;
use ciphercore_base::data_values::Value;
use ciphercore_base::evaluators::simple_evaluator::SimpleEvaluator;
use ciphercore_base::evaluators::Evaluator;
use ciphercore_base::graphs::*;

#[derive(Clone, Debug, PartialEq)]
pub enum PV {
    Val(Value),
    Tup(Vec<PV>),
    Poison,
}
impl PV {
    pub fn extract(&self) -> Option<Value> {
        match self {
            PV::Val(v) => Some(v.clone()),
            PV::Poison => None,
            PV::Tup(l) => {
                let mut vs = vec![];
                for x in l {
                    vs.push(x.extract()?);
                }
                Some(Value::from_vector(vs))
            }
        }
    }
    pub fn get(&self, i: usize) -> PV {
        match self {
            PV::Tup(l) => l.get(i).cloned().unwrap_or(PV::Poison),
            PV::Val(v) => match v.to_vector() {
                Ok(vs) => vs.get(i).map(|x| PV::Val(x.clone())).unwrap_or(PV::Poison),
                Err(_) => PV::Poison,
            },
            PV::Poison => PV::Poison,
        }
    }
    pub fn coq(&self, t: &Type) -> String {
        match self {
            PV::Poison => "PPoison".into(),
            PV::Val(v) => format!("(embed {})", value_coq(v, t)),
            PV::Tup(l) => {
                let ts: Vec<Type> = match t {
                    Type::Tuple(ts) => ts.iter().map(|x| (**x).clone()).collect(),
                    Type::NamedTuple(fs) => fs.iter().map(|(_, x)| (**x).clone()).collect(),
                    Type::Vector(n, e) => (0..*n).map(|_| (**e).clone()).collect(),
                    _ => vec![],
                };
                let parts: Vec<String> = l.iter().zip(ts.iter()).map(|(x, t)| x.coq(t)).collect();
                format!("(PTup [{}])", parts.join("; "))
            }
        }
    }
}

#[derive(Clone, Copy, PartialEq, Debug)]
pub enum Route {
    Tuple,
    Get(u64),
    Nop,
    None,
}
pub fn route_of(n: &Node) -> Route {
    match n.get_operation() {
        Operation::CreateTuple | Operation::CreateNamedTuple(_) | Operation::CreateVector(_) => Route::Tuple,
        Operation::NOP => Route::Nop,
        Operation::TupleGet(i) => Route::Get(i),
        Operation::NamedTupleGet(name) => {
            let t = n.get_node_dependencies()[0].get_type().unwrap();
            if let Type::NamedTuple(fs) = t {
                for (i, (f, _)) in fs.iter().enumerate() {
                    if *f == name {
                        return Route::Get(i as u64);
                    }
                }
            }
            Route::None
        }
        _ => Route::None,
    }
}
pub fn is_random_op(op: &Operation) -> bool {
    matches!(op, Operation::Random(_) | Operation::RandomPermutation(_))
}
/// operations computing from their dependencies and from the evaluating party's own randomness
pub fn is_randdep_op(op: &Operation) -> bool {
    matches!(op, Operation::CuckooToPermutation | Operation::DecomposeSwitchingMap(_))
}
pub fn sends_of(n: &Node) -> Vec<(u64, u64)> {
    n.get_annotations().unwrap_or_default().iter().filter_map(|a| if let NodeAnnotation::Send(s, r) = a { Some((*s, *r)) } else { None }).collect()
}

pub struct Exec3Result {
    /// per party, per node
    pub vals: [Vec<PV>; 3],
    /// (node id, sender, receiver, delivered value) in order: the receivers' views
    pub deliveries: Vec<(u64, u64, u64, PV)>,
}

/// `inputs[k]` = the three parties' local values of the k-th Input node.
pub fn exec3(g: &Graph, inputs: &[[PV; 3]], seeds: [[u8; 16]; 3]) -> Exec3Result {
    exec3_with(g, inputs, seeds, None)
}
/// `ideal_prf`: when given, a PRF node evaluated by a party on key bytes `k` with counter `iv`
/// returns `ideal_prf(k, iv, type)` instead of the AES-based value: the masks are idealised as
/// independent uniform values, one per (key, counter), the same for every party holding the key.
pub type IdealPrf<'a> = &'a mut dyn FnMut(&[u8], u64, &Type) -> Value;
pub fn exec3_with(g: &Graph, inputs: &[[PV; 3]], seeds: [[u8; 16]; 3], mut ideal_prf: Option<IdealPrf>) -> Exec3Result {
    let mut evs: Vec<SimpleEvaluator> = seeds.iter().map(|s| SimpleEvaluator::new(Some(*s)).unwrap()).collect();
    for e in evs.iter_mut() {
        let _ = e.preprocess(&g.get_context());
    }
    let mut vals: [Vec<PV>; 3] = [vec![], vec![], vec![]];
    let mut deliveries = vec![];
    let mut input_id = 0;
    for node in g.get_nodes() {
        let op = node.get_operation();
        let mut cur: [PV; 3] = [PV::Poison, PV::Poison, PV::Poison];
        if op.is_input() {
            cur = inputs[input_id].clone();
            input_id += 1;
        } else {
            let route = route_of(&node);
            for p in 0..3 {
                let deps: Vec<PV> = node.get_node_dependencies().iter().map(|d| vals[p][d.get_id() as usize].clone()).collect();
                cur[p] = if is_random_op(&op) {
                    let n2 = node.clone();
                    let ev = &mut evs[p];
                    match observe(|| ev.evaluate_node(n2, vec![])) { Outcome::Ok(v) => PV::Val(v), _ => PV::Poison }
                } else {
                    match route {
                        Route::Tuple => PV::Tup(deps),
                        Route::Nop if !deps.is_empty() => deps[0].clone(),
                        Route::Get(i) if !deps.is_empty() => deps[0].get(i as usize),
                        _ => {
                            let ex: Option<Vec<Value>> = deps.iter().map(|d| d.extract()).collect();
                            match ex {
                                Some(vs) => {
                                    if let (Some(f), Operation::PRF(iv, t)) = (ideal_prf.as_mut(), &op) {
                                        match vs[0].access_bytes(|b| Ok(b.to_vec())) { Ok(k) => PV::Val(f(&k, *iv, t)), Err(_) => PV::Poison }
                                    } else {
                                        let n2 = node.clone();
                                        let ev = &mut evs[p];
                                        match observe(|| ev.evaluate_node(n2, vs)) { Outcome::Ok(v) => PV::Val(v), _ => PV::Poison }
                                    }
                                }
                                None => PV::Poison,
                            }
                        }
                    }
                };
            }
        }
        for (s, r) in sends_of(&node) {
            if s < 3 && r < 3 {
                cur[r as usize] = cur[s as usize].clone();
                deliveries.push((node.get_id(), s, r, cur[r as usize].clone()));
            }
        }
        for p in 0..3 {
            vals[p].push(cur[p].clone());
        }
    }
    Exec3Result { vals, deliveries }
}

/// the party whose draw of Random-like node `n` is "the" value: the sender of the first
/// Send-annotated node reachable from it (breadth first over users); 0 if none.
pub fn certs(g: &Graph) -> Vec<(u64, u64)> {
    let nodes = g.get_nodes();
    let mut users: Vec<Vec<u64>> = vec![vec![]; nodes.len()];
    for n in nodes.iter() {
        for d in n.get_node_dependencies() {
            users[d.get_id() as usize].push(n.get_id());
        }
    }
    let mut res = vec![];
    for n in nodes.iter() {
        if !is_random_op(&n.get_operation()) && !is_randdep_op(&n.get_operation()) {
            continue;
        }
        let mut queue = std::collections::VecDeque::new();
        let mut seen = std::collections::HashSet::new();
        queue.push_back(n.get_id());
        let mut cert = 0;
        'bfs: while let Some(i) = queue.pop_front() {
            if !seen.insert(i) {
                continue;
            }
            let s = sends_of(&nodes[i as usize]);
            if let Some((snd, _)) = s.first() {
                cert = *snd;
                break 'bfs;
            }
            for u in users[i as usize].iter() {
                queue.push_back(*u);
            }
        }
        res.push((n.get_id(), cert));
    }
    res
}

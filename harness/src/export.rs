//! Translator T: Rust graphs/values -> Gallina terms of Graph/IR.v and Graph/Value.v, and the
//! instrumented (node-by-node) evaluation that records every intermediate value.
use crate::coqfmt::*;
use ciphercore_base::data_types::Type;
use ciphercore_base::data_values::Value;
use ciphercore_base::evaluators::simple_evaluator::SimpleEvaluator;
use ciphercore_base::evaluators::Evaluator;
use ciphercore_base::graphs::{
    Graph, GraphAnnotation, JoinType, Node, NodeAnnotation, Operation, SliceElement,
};

pub fn opt_i64(x: &Option<i64>) -> String {
    match x {
        Some(v) => format!("(Some {})", z_i128(*v as i128)),
        None => "None".into(),
    }
}
pub fn slice_coq(sl: &[SliceElement]) -> String {
    list(sl, |e| match e {
        SliceElement::SingleIndex(i) => format!("(SSingle {})", z_i128(*i as i128)),
        SliceElement::SubArray(b, e, s) => format!("(SSub {} {} {})", opt_i64(b), opt_i64(e), opt_i64(s)),
        SliceElement::Ellipsis => "SEllipsis".into(),
    })
}
fn jt(j: &JoinType) -> &'static str {
    match j {
        JoinType::Inner => "JInner",
        JoinType::Left => "JLeft",
        JoinType::Union => "JUnion",
        JoinType::Full => "JFull",
    }
}
fn headers(h: &std::collections::HashMap<String, String>) -> String {
    let mut v: Vec<(&String, &String)> = h.iter().collect();
    v.sort();
    list(&v, |(a, b)| format!("({}, {})", coq_string(a), coq_string(b)))
}
fn b(x: bool) -> &'static str {
    if x {
        "true"
    } else {
        "false"
    }
}

/// normalised element: the low `w` bits (readers sign-extend signed types to 128 bits)
pub fn norm(x: u128, st: ciphercore_base::data_types::ScalarType) -> u128 {
    let w = st.size_in_bits();
    if w >= 128 {
        x
    } else {
        x & ((1u128 << w) - 1)
    }
}
/// Decoded value (Graph/Value.v): leaves are flattened, normalised element lists.
pub fn value_coq(v: &Value, t: &Type) -> String {
    match t {
        Type::Scalar(st) => match v.to_u128(*st) {
            Ok(x) => format!("(VArr [{}])", norm(x, *st)),
            Err(_) => "(VArr [])".into(),
        },
        Type::Array(_, st) => match v.to_flattened_array_u128(t.clone()) {
            Ok(xs) => format!("(VArr {})", list(&xs, |x| format!("{}", norm(*x, *st)))),
            Err(_) => "(VArr [])".into(),
        },
        Type::Vector(_, et) => match v.to_vector() {
            Ok(vs) => format!("(VTup {})", list(&vs, |c| value_coq(c, et))),
            Err(_) => "(VTup [])".into(),
        },
        Type::Tuple(ts) => match v.to_vector() {
            Ok(vs) => {
                let parts: Vec<String> = vs.iter().zip(ts.iter()).map(|(c, t)| value_coq(c, t)).collect();
                format!("(VTup [{}])", parts.join("; "))
            }
            Err(_) => "(VTup [])".into(),
        },
        Type::NamedTuple(fs) => match v.to_vector() {
            Ok(vs) => {
                let parts: Vec<String> = vs.iter().zip(fs.iter()).map(|(c, (_, t))| value_coq(c, t)).collect();
                format!("(VTup [{}])", parts.join("; "))
            }
            Err(_) => "(VTup [])".into(),
        },
    }
}

pub fn op_coq(op: &Operation) -> String {
    match op {
        Operation::Input(t) => format!("(OInput {})", ty(t)),
        Operation::Zeros(t) => format!("(OZeros {})", ty(t)),
        Operation::Ones(t) => format!("(OOnes {})", ty(t)),
        Operation::Add => "OAdd".into(),
        Operation::Subtract => "OSubtract".into(),
        Operation::Multiply => "OMultiply".into(),
        Operation::MixedMultiply => "OMixedMultiply".into(),
        Operation::Dot => "ODot".into(),
        Operation::Matmul => "OMatmul".into(),
        Operation::Gemm(x, y) => format!("(OGemm {} {})", b(*x), b(*y)),
        Operation::Truncate(s) => format!("(OTruncate {})", s),
        Operation::Sum(a) => format!("(OSum {})", list_u64(a)),
        Operation::CumSum(a) => format!("(OCumSum {})", a),
        Operation::PermuteAxes(a) => format!("(OPermuteAxes {})", list_u64(a)),
        Operation::Get(a) => format!("(OGet {})", list_u64(a)),
        Operation::GetSlice(s) => format!("(OGetSlice {})", slice_coq(s)),
        Operation::Reshape(t) => format!("(OReshape {})", ty(t)),
        Operation::NOP => "ONOP".into(),
        Operation::Random(t) => format!("(ORandom {})", ty(t)),
        Operation::PRF(iv, t) => format!("(OPRF {} {})", iv, ty(t)),
        Operation::PermutationFromPRF(iv, n) => format!("(OPermutationFromPRF {} {})", iv, n),
        Operation::Stack(a) => format!("(OStack {})", list_u64(a)),
        Operation::Concatenate(a) => format!("(OConcatenate {})", a),
        Operation::Constant(t, v) => format!("(OConstant {} {})", ty(t), value_coq(v, t)),
        Operation::A2B => "OA2B".into(),
        Operation::B2A(st) => format!("(OB2A {})", scalar(*st)),
        Operation::CreateTuple => "OCreateTuple".into(),
        Operation::CreateNamedTuple(n) => format!("(OCreateNamedTuple {})", list(n, |s| coq_string(s))),
        Operation::CreateVector(t) => format!("(OCreateVector {})", ty(t)),
        Operation::TupleGet(i) => format!("(OTupleGet {})", i),
        Operation::NamedTupleGet(s) => format!("(ONamedTupleGet {})", coq_string(s)),
        Operation::VectorGet => "OVectorGet".into(),
        Operation::Zip => "OZip".into(),
        Operation::Repeat(n) => format!("(ORepeat {})", n),
        Operation::Call => "OCall".into(),
        Operation::Iterate => "OIterate".into(),
        Operation::ArrayToVector => "OArrayToVector".into(),
        Operation::VectorToArray => "OVectorToArray".into(),
        Operation::RandomPermutation(n) => format!("(ORandomPermutation {})", n),
        Operation::Gather(a) => format!("(OGather {})", a),
        Operation::CuckooHash => "OCuckooHash".into(),
        Operation::InversePermutation => "OInversePermutation".into(),
        Operation::CuckooToPermutation => "OCuckooToPermutation".into(),
        Operation::DecomposeSwitchingMap(n) => format!("(ODecomposeSwitchingMap {})", n),
        Operation::SegmentCumSum => "OSegmentCumSum".into(),
        Operation::Shard(c) => format!("(OShard {})", coq_string(&format!("{:?}", c))),
        Operation::ShardWithColumnMasks(c) => format!("(OShardWithColumnMasks {})", coq_string(&format!("{:?}", c))),
        Operation::Join(j, h) => format!("(OJoin {} {})", jt(j), headers(h)),
        Operation::JoinWithColumnMasks(j, h) => format!("(OJoinWithColumnMasks {} {})", jt(j), headers(h)),
        Operation::ApplyPermutation(x) => format!("(OApplyPermutation {})", b(*x)),
        Operation::Sort(k) => format!("(OSort {})", coq_string(k)),
        Operation::Custom(c) => format!("(OCustom {})", coq_string(&c.get_name())),
        Operation::Print(m) => format!("(OPrint {})", coq_string(m)),
        Operation::Assert(m) => format!("(OAssert {})", coq_string(m)),
    }
}

pub fn annot_coq(a: &NodeAnnotation) -> String {
    match a {
        NodeAnnotation::AssociativeOperation => "AAssociative".into(),
        NodeAnnotation::Private => "APrivate".into(),
        NodeAnnotation::Send(s, r) => format!("(ASend {} {})", s, r),
        NodeAnnotation::PRFMultiplication => "APRFMultiplication".into(),
        NodeAnnotation::PRFB2A => "APRFB2A".into(),
        NodeAnnotation::PRFTruncate => "APRFTruncate".into(),
        NodeAnnotation::MpcCall => "AMpcCall".into(),
    }
}
pub fn gannot_coq(a: &GraphAnnotation) -> String {
    match a {
        GraphAnnotation::AssociativeOperation => "GAssociative".into(),
        GraphAnnotation::OneBitState => "GOneBitState".into(),
        GraphAnnotation::SmallState => "GSmallState".into(),
    }
}

pub fn node_coq(n: &Node) -> String {
    let deps: Vec<u64> = n.get_node_dependencies().iter().map(|d| d.get_id()).collect();
    let gdeps: Vec<u64> = n.get_graph_dependencies().iter().map(|g| g.get_id()).collect();
    let annots = n.get_annotations().unwrap_or_default();
    let t = n.get_type().expect("node type");
    format!(
        "(mkNode {} {} {} {} {})",
        op_coq(&n.get_operation()),
        list_u64(&deps),
        list_u64(&gdeps),
        list(&annots, |a| annot_coq(a)),
        ty(&t)
    )
}
pub fn nodes_coq(g: &Graph) -> String {
    list(&g.get_nodes(), |n| node_coq(n))
}
pub fn graph_coq(g: &Graph) -> String {
    let out = match g.get_output_node() {
        Ok(n) => format!("(Some {})", n.get_id()),
        Err(_) => "None".into(),
    };
    let ga = g.get_annotations().unwrap_or_default();
    format!("(mkGraph {} {} {})", nodes_coq(g), out, list(&ga, |a| gannot_coq(a)))
}

/// Node-by-node evaluation of a fully inlined graph: every intermediate value is observed.
/// Returns one outcome per node (evaluation stops being meaningful after the first failure:
/// later nodes depending on it get `None`).
pub fn eval_all(g: &Graph, inputs: &[Value], seed: [u8; 16]) -> Vec<Outcome<Value>> {
    let mut ev = SimpleEvaluator::new(Some(seed)).unwrap();
    let _ = ev.preprocess(&g.get_context());
    eval_all_with(g, inputs, &mut ev)
}
pub fn eval_all_with(g: &Graph, inputs: &[Value], ev: &mut SimpleEvaluator) -> Vec<Outcome<Value>> {
    let mut vals: Vec<Outcome<Value>> = vec![];
    let mut input_id = 0usize;
    for node in g.get_nodes() {
        let mut deps = vec![];
        let mut ok = true;
        for d in node.get_node_dependencies() {
            match &vals[d.get_id() as usize] {
                Outcome::Ok(v) => deps.push(v.clone()),
                _ => ok = false,
            }
        }
        if !ok {
            vals.push(Outcome::Err);
            continue;
        }
        let r = match node.get_operation() {
            Operation::Input(_) => {
                let v = inputs.get(input_id).cloned();
                input_id += 1;
                match v {
                    Some(v) => Outcome::Ok(v),
                    None => Outcome::Err,
                }
            }
            Operation::Call | Operation::Iterate => {
                let n2 = node.clone();
                observe(|| ev.evaluate_call_iterate(n2, deps))
            }
            _ => {
                let n2 = node.clone();
                observe(|| ev.evaluate_node(n2, deps))
            }
        };
        vals.push(r);
    }
    vals
}

/// true for operations the Coq evaluator reads from the tape (Graph/Eval.v from_tape)
pub fn from_tape(op: &Operation) -> bool {
    matches!(
        op,
        Operation::Input(_)
            | Operation::Random(_)
            | Operation::PRF(_, _)
            | Operation::PermutationFromPRF(_, _)
            | Operation::RandomPermutation(_)
            | Operation::CuckooHash
            | Operation::CuckooToPermutation
            | Operation::DecomposeSwitchingMap(_)
            | Operation::Shard(_)
            | Operation::ShardWithColumnMasks(_)
            | Operation::Join(_, _)
            | Operation::JoinWithColumnMasks(_, _)
            | Operation::Sort(_)
            | Operation::Custom(_)
            | Operation::Call
            | Operation::Iterate
    )
}

/// tape (node id -> value) as a Gallina association list, for the tape-supplied nodes
pub fn tape_coq(g: &Graph, vals: &[Outcome<Value>]) -> String {
    let mut items = vec![];
    for n in g.get_nodes() {
        if from_tape(&n.get_operation()) {
            if let Outcome::Ok(v) = &vals[n.get_id() as usize] {
                items.push(format!("({}, {})", n.get_id(), value_coq(v, &n.get_type().unwrap())));
            }
        }
    }
    format!("(tape_of_list [{}])", items.join("; "))
}

/// expected result of eval_graph_nodes: all node values if everything evaluated, else the
/// outcome of the first failing node
pub fn expected_coq(g: &Graph, vals: &[Outcome<Value>]) -> String {
    for (i, v) in vals.iter().enumerate() {
        match v {
            Outcome::Ok(_) => {}
            Outcome::Err => return { let _ = i; "Err".into() },
            Outcome::Panic => return "Panic".into(),
        }
    }
    let nodes = g.get_nodes();
    let parts: Vec<String> = vals
        .iter()
        .zip(nodes.iter())
        .map(|(v, n)| if let Outcome::Ok(v) = v { value_coq(v, &n.get_type().unwrap()) } else { unreachable!() })
        .collect();
    format!("(Ok [{}])", parts.join("; "))
}

//! C01 (deep model) — literal tie between the Gallina mirror of the MPC compiler's per-graph step
//! (Model/MpcCompile.v: propagate_private_annotations, get_nodes_to_reshare, compile_to_mpc_graph)
//! and /repo's `compile_to_mpc_graph`, reached through the guarded hooks
//! `ciphercore_base::mpc::verif_hooks::{compile_graph_to_mpc, private_and_reshared}`.
//!
//! Kinds:
//!  * `T:compile-literal` — `compile_graph <source nodes> <output id> <is_input_private>` computed by
//!    vm_compute must equal, node for node (operation, dependency ids, annotations, inferred type,
//!    in creation order) and with the same output id, the graph the real compiler emitted; the lhs
//!    also evaluates `mpc_mirrored` on the source, which must be true (the model's fragment);
//!  * `planner` — the private set and the set of nodes to reshare (sorted ids) of the two analyses;
//!  * `T:gadget-literal` — for every Custom node (AddMPC, SubtractMPC, MultiplyMPC, DotMPC, MatmulMPC,
//!    GemmMPC) of a compiled graph: the graph `CustomOperation::instantiate` builds on the argument
//!    types equals `gadget_body` node for node (the gadget semantics used by the theorem is PROVED
//!    from these bodies, Proofs/MpcCompileGadgets.v);
//!  * `T:compile-rejected` — programs the compiler rejects (operations it does not compile, or
//!    an is_input_private vector that is too short): same Err / Panic.
//!  * `T:context-literal` / `T:context-rejected` — the context-level wrapper (Model/MpcCompileCtx.v:
//!    compile_to_mpc with compile_to_mpc_context, share_all_inputs / share_input / share_node,
//!    generate_prf_key_triple, the Call node, reveal_output): for programs x input status vectors over
//!    {Party 0,1,2, Public, Shared} x all 16 ordered output lists, BOTH graphs of the context the
//!    guarded hook `mpc_compiler::verif_compile_to_mpc` returns (computation graph 0, main graph 1) are
//!    exported and compared node for node with the model; invalid party ids, Public/Shared output
//!    statuses, too short status vectors and uncompilable operations must be rejected the same way.
use crate::coqfmt::*;
use crate::export::*;
use crate::out::Out;
use crate::progen::*;
use crate::rng::Rng;
use ciphercore_base::data_types::*;
use ciphercore_base::graphs::*;
use ciphercore_base::mpc::mpc_compiler::{verif_compile_to_mpc, IOStatus};
use ciphercore_base::mpc::verif_hooks::{compile_graph_to_mpc, private_and_reshared};
use serde_json::json;

/// operation families of the mirrored fragment (names of progen.rs)
pub const DEEP_OPS: [&str; 35] = [
    "add", "add", "sub", "mul", "mul", "mul", "dot", "matmul", "gemm", "sum", "cumsum", "get", "getslice",
    "reshape", "permute", "stack", "concat", "constant", "zeros", "ones", "tuple", "tuple", "tupleget", "tupleget",
    "vector", "vector", "named", "namedget", "namedget", "vectorget", "vectorget", "zip", "repeat", "a2v", "v2a",
];
/// additive / bilinear / share-wise unary and n-ary operations (the fragment of C01_deep_compile_correct_partial)
pub const DEEP_THEOREM_OPS: [&str; 21] = [
    "add", "sub", "mul", "mul", "mul", "dot", "matmul", "gemm", "sum", "cumsum", "get", "getslice", "reshape", "permute", "constant",
    "zeros", "ones", "mul", "stack", "concat", "stack",
];
/// product-heavy programs: private x private products feeding products, so that the planner reshapes
/// its plan (ensure_dependencies_are_reshared, sanity_pass) and reshare blocks are emitted
pub const DEEP_MUL_OPS: [&str; 18] = [
    "mul", "mul", "mul", "mul", "mul", "mul", "add", "sub", "sum", "permute", "matmul", "dot", "getslice", "tuple", "get", "vector",
    "named", "a2v",
];

/// Rust twin of `mpc_mirrored` (Model/MpcCompile.v); the Coq side re-checks it in every case
fn mirrored(g: &Graph) -> bool {
    g.get_nodes().iter().all(|n| {
        !matches!(
            n.get_operation(),
            Operation::MixedMultiply
                | Operation::Truncate(_)
                | Operation::A2B
                | Operation::B2A(_)
                | Operation::Join(_, _)
                | Operation::JoinWithColumnMasks(_, _)
                | Operation::ApplyPermutation(_)
                | Operation::Sort(_)
        )
    })
}

/// Gallina term of the gadget named by a Custom node (Model/MpcCompile.v `gadget`)
fn gadget_coq(name: &str) -> Option<String> {
    match name {
        "AddMPC" => Some("GAdd".into()),
        "SubtractMPC" => Some("GSub".into()),
        "MultiplyMPC" => Some("(GBil OMultiply)".into()),
        "DotMPC" => Some("(GBil ODot)".into()),
        "MatmulMPC" => Some("(GBil OMatmul)".into()),
        _ => name.strip_prefix("GemmMPC-").and_then(|r| { let v: Vec<&str> = r.split('-').collect(); if v.len() == 2 { Some(format!("(GBil (OGemm {} {}))", v[0], v[1])) } else { None } }),
    }
}

/// `T:gadget-literal`: the graph `instantiate` builds for a Custom node of a compiled graph, on the
/// types of its arguments, equals `gadget_body` node for node (with the same output id)
fn gadget_cases(cg: &Graph, seen: &mut std::collections::HashSet<String>, out: &mut Out) {
    for n in cg.get_nodes() {
        if let Operation::Custom(c) = n.get_operation() {
            let name = c.get_name();
            let g = match gadget_coq(&name) { Some(g) => g, None => continue };
            let tys: Vec<Type> = n.get_node_dependencies().iter().map(|d| d.get_type().unwrap()).collect();
            let key = format!("{}|{}", name, tys.iter().map(|t| format!("{}", t)).collect::<Vec<_>>().join("|"));
            if !seen.insert(key) { continue; }
            let ictx = create_context().unwrap();
            let (c2, i2, t2) = (c.clone(), ictx.clone(), tys.clone());
            let r = observe(move || c2.instantiate(i2, t2));
            out.stat(&format!("deep:gadget-instantiate:{}", r.tag()));
            let private = tys.iter().any(|t| t.is_tuple());
            let rhs = match &r {
                Outcome::Ok(ig) => { let _ = ig.set_as_main(); let _ = ictx.finalize(); format!("(Ok ({}, {}))", nodes_coq(ig), ig.get_output_node().unwrap().get_id()) }
                Outcome::Err => "Err".to_string(),
                Outcome::Panic => "Panic".to_string(),
            };
            let desc = json!({"gadget": name, "argument_types": tys.iter().map(|t| format!("{}", t)).collect::<Vec<_>>()});
            out.case("T:gadget-literal", format!("gadget_body {} {}", g, list(&tys, |t| ty(t))), rhs, desc, private);
        }
    }
}

fn flags_coq(f: &[bool]) -> String {
    list(f, |b| if *b { "true".into() } else { "false".into() })
}

/// elementwise programs over one shape: add / sub / mul, constants (copy of c01.rs ring_program,
/// which is private there)
fn ring_program(rng: &mut Rng, st: ScalarType) -> Prog {
    let ctx = create_context().unwrap();
    let g = ctx.create_graph().unwrap();
    let shape = small_shape(rng);
    let t = array_type(shape, st);
    let ni = 1 + rng.below(3) as usize;
    let mut pool: Vec<Node> = (0..ni).map(|_| g.input(t.clone()).unwrap()).collect();
    if rng.chance(1, 2) { pool.push(g.constant(t.clone(), gen_value(&t, rng)).unwrap()); }
    if rng.chance(1, 6) { pool.push(g.zeros(t.clone()).unwrap()); }
    if rng.chance(1, 6) { pool.push(g.ones(t.clone()).unwrap()); }
    let n_ops = 1 + rng.below(6);
    for _ in 0..n_ops {
        let a = rng.pick(&pool).clone();
        let b = rng.pick(&pool).clone();
        let n = match rng.below(4) { 0 => a.add(b), 1 => a.subtract(b), _ => a.multiply(b) }.unwrap();
        pool.push(n);
    }
    let o = pool.last().unwrap().clone();
    g.set_output_node(o).unwrap();
    g.finalize().unwrap();
    ctx.set_main_graph(g.clone()).unwrap();
    ctx.finalize().unwrap();
    Prog { ctx, g, input_types: vec![t; ni], attempts: vec![] }
}

/// a program with one operation the compiler does not compile (the `_ =>` arms)
fn rejected_program(rng: &mut Rng, variant: usize) -> Prog {
    let ctx = create_context().unwrap();
    let g = ctx.create_graph().unwrap();
    let t = array_type(vec![3], UINT32);
    let a = g.input(t.clone()).unwrap();
    let b = g.input(t.clone()).unwrap();
    let c = a.add(b.clone()).unwrap();
    let o = match variant % 6 {
        0 => c.nop().unwrap(),
        1 => { let r = g.random(t.clone()).unwrap(); c.add(r).unwrap() }
        2 => { let idx = g.constant(array_type(vec![2], UINT64), ciphercore_base::data_values::Value::from_flattened_array(&[0u64, 2], UINT64).unwrap()).unwrap(); c.gather(idx, 0).unwrap() }
        3 => { let k = g.random(array_type(vec![128], BIT)).unwrap(); let r = g.add_node(vec![k], vec![], Operation::PRF(0, t.clone())).unwrap(); c.multiply(r).unwrap() }
        4 => g.add_node(vec![c], vec![], Operation::Print("x".into())).unwrap(),
        _ => { let p = g.random_permutation(3).unwrap(); let q = g.add_node(vec![p], vec![], Operation::InversePermutation).unwrap(); g.create_tuple(vec![c, q]).unwrap() }
    };
    let _ = rng.next();
    g.set_output_node(o).unwrap();
    g.finalize().unwrap();
    ctx.set_main_graph(g.clone()).unwrap();
    ctx.finalize().unwrap();
    Prog { ctx, g, input_types: vec![t.clone(), t], attempts: vec![] }
}

/// VectorGet on a vector of arrays with an index input: compiled when the index is public, rejected
/// ("VectorGet can't have a private index") when it is private
fn vector_get_program(rng: &mut Rng) -> Prog {
    let ctx = create_context().unwrap();
    let g = ctx.create_graph().unwrap();
    let t = array_type(vec![2], *rng.pick(&[UINT8, INT32, UINT64]));
    let it = scalar_type(UINT64);
    let a = g.input(t.clone()).unwrap();
    let idx = g.input(it.clone()).unwrap();
    let b = a.add(a.clone()).unwrap();
    let v = g.create_vector(t.clone(), vec![a, b]).unwrap();
    let e = v.vector_get(idx).unwrap();
    let o = e.multiply(e.clone()).unwrap();
    g.set_output_node(o).unwrap();
    g.finalize().unwrap();
    ctx.set_main_graph(g.clone()).unwrap();
    ctx.finalize().unwrap();
    Prog { ctx, g, input_types: vec![t, it], attempts: vec![] }
}

fn all_flag_vectors(n: usize) -> Vec<Vec<bool>> {
    (0..(1u32 << n)).map(|m| (0..n).map(|j| m & (1 << j) != 0).collect()).collect()
}

fn deep_cases(p: &Prog, flags: &[bool], stream: &str, seen: &mut std::collections::HashSet<String>, out: &mut Out) {
    if !mirrored(&p.g) { out.stat("deep:skipped-not-mirrored"); return; }
    let src = nodes_coq(&p.g);
    let oid = p.g.get_output_node().unwrap().get_id();
    let ops_desc: Vec<String> = p.g.get_nodes().iter().map(|n| op_name(&n.get_operation())).collect();
    let private = flags.iter().any(|b| *b);
    let g1 = p.g.clone();
    let f1 = flags.to_vec();
    let r = observe(|| compile_graph_to_mpc(g1, f1));
    out.stat(&format!("deep:{}:compile:{}", stream, r.tag()));
    out.stat(&format!("deep:flags:{}", flags.iter().map(|b| if *b { 'P' } else { 'p' }).collect::<String>().replace('P', "1").replace('p', "0")));
    for n in p.g.get_nodes() { out.stat(&format!("deep:src-op:{}", op_name(&n.get_operation()).split('(').next().unwrap_or("?"))); }
    let rhs = match &r {
        Outcome::Ok((_cctx, cg)) => {
            // _cctx owns the compiled graph's context: it must stay alive while the graph is exported
            let n = cg.get_nodes().len();
            out.stat_n("deep:compiled-nodes", n as u64);
            out.stat(&format!("deep:compiled-size:{}", match n { 0..=9 => "<10", 10..=29 => "10-29", 30..=79 => "30-79", _ => ">=80" }));
            let nres = cg.get_nodes().iter().filter(|n| matches!(n.get_operation(), Operation::NOP)).count() / 3;
            out.stat(&format!("deep:reshares:{}", std::cmp::min(nres, 4)));
            for n in cg.get_nodes() { if let Operation::Custom(c) = n.get_operation() { out.stat(&format!("deep:gadget:{}", c.get_name())); } }
            gadget_cases(cg, seen, out);
            format!("(true, Ok ({}, {}))", nodes_coq(cg), cg.get_output_node().unwrap().get_id())
        }
        Outcome::Err => "(true, Err)".to_string(),
        Outcome::Panic => "(true, Panic)".to_string(),
    };
    let desc = json!({"stream": stream, "ops": ops_desc, "input_types": p.input_types.iter().map(|t| format!("{}", t)).collect::<Vec<_>>(), "is_input_private": flags, "output": oid});
    let lhs = format!("let src := {} in (mpc_mirrored src, compile_graph src {} {})", src, oid, flags_coq(flags));
    let kind = if matches!(r, Outcome::Ok(_)) { "T:compile-literal" } else { "T:compile-rejected" };
    out.case(kind, lhs, rhs, desc, private);
    planner_case(p, flags, out);
}

/// the two analyses on their own
fn planner_case(p: &Prog, flags: &[bool], out: &mut Out) {
    let src = nodes_coq(&p.g);
    let oid = p.g.get_output_node().unwrap().get_id();
    let ops_desc: Vec<String> = p.g.get_nodes().iter().map(|n| op_name(&n.get_operation())).collect();
    let private = flags.iter().any(|b| *b);
    let desc = json!({"ops": ops_desc, "input_types": p.input_types.iter().map(|t| format!("{}", t)).collect::<Vec<_>>(), "is_input_private": flags, "output": oid});
    let g2 = p.g.clone();
    let f2 = flags.to_vec();
    let pr = observe(|| private_and_reshared(g2, f2));
    let prhs = match &pr {
        Outcome::Ok((pv, rs)) => { out.stat(&format!("deep:planner-reshared:{}", std::cmp::min(rs.len(), 4))); format!("(Ok ({}, {}))", list_u64(pv), list_u64(rs)) }
        Outcome::Err => "Err".to_string(),
        Outcome::Panic => "Panic".to_string(),
    };
    out.case("planner", format!("private_and_reshared {} {} {}", src, oid, flags_coq(flags)), prhs, desc, private);
}

fn run_flags(p: &Prog, stream: &str, exhaustive: bool, rng: &mut Rng, seen: &mut std::collections::HashSet<String>, out: &mut Out) {
    let n = p.input_types.len();
    if exhaustive && n <= 3 {
        for f in all_flag_vectors(n) { deep_cases(p, &f, stream, seen, out); }
    } else {
        deep_cases(p, &vec![true; n], stream, seen, out);
        let f: Vec<bool> = (0..n).map(|_| rng.chance(1, 2)).collect();
        if f.iter().any(|b| !*b) { deep_cases(p, &f, stream, seen, out); }
    }
}

// ---------------------------------------------------------------------------------------------
// context level: compile_to_mpc (Model/MpcCompileCtx.v)
// ---------------------------------------------------------------------------------------------

/// the case files of C01 import the modules of c01::HEADER; the context-level cases also need
/// Model.MpcCompileCtx (the runner takes the last `header` note)
fn ctx_header() -> String {
    format!("{}\nFrom CC Require Import Model.MpcCompileCtx.", crate::c01::HEADER)
}

fn status_coq(s: &IOStatus) -> String {
    match s {
        IOStatus::Public => "IOPublic".into(),
        IOStatus::Shared => "IOShared".into(),
        IOStatus::Party(p) => format!("(IOParty {})", p),
    }
}
fn status_tag(s: &IOStatus) -> String {
    match s {
        IOStatus::Public => "Pub".into(),
        IOStatus::Shared => "Sh".into(),
        IOStatus::Party(p) => format!("P{}", p),
    }
}

/// mpcgen::output_subsets: the 8 subsets in increasing order, then the 8 other orderings
fn ctx_output_lists() -> Vec<Vec<IOStatus>> {
    crate::mpcgen::output_subsets()
}

/// every status vector over {Party 0,1,2, Public, Shared} of length n
fn all_status_vectors(n: usize) -> Vec<Vec<IOStatus>> {
    crate::mpcgen::owner_vectors(n)
}
fn random_statuses(n: usize, rng: &mut Rng) -> Vec<IOStatus> {
    (0..n).map(|_| match rng.below(5) { 0 => IOStatus::Party(0), 1 => IOStatus::Party(1), 2 => IOStatus::Party(2), 3 => IOStatus::Public, _ => IOStatus::Shared }).collect()
}

/// inputs of tuple / vector / named-tuple type, so that share_node and reveal_output recurse over
/// the type (recursively_generate_node_shares with a node, recursively_sum_shares)
fn structured_program(rng: &mut Rng, variant: usize) -> Prog {
    let ctx = create_context().unwrap();
    let g = ctx.create_graph().unwrap();
    let st = *rng.pick(&[UINT8, INT32, UINT64, BIT]);
    let ta = array_type(vec![2], st);
    let tv = vector_type(2, ta.clone());
    let tt = tuple_type(vec![ta.clone(), tv.clone()]);
    let tn = named_tuple_type(vec![("a".to_string(), ta.clone()), ("b".to_string(), scalar_type(st))]);
    let (t0, t1) = match variant % 4 { 0 => (tt.clone(), tn.clone()), 1 => (tv.clone(), ta.clone()), 2 => (tn.clone(), tt.clone()), _ => (tt.clone(), ta.clone()) };
    let i0 = g.input(t0.clone()).unwrap();
    let i1 = g.input(t1.clone()).unwrap();
    let o = match variant % 4 {
        0 => { let x = i0.tuple_get(0).unwrap().add(i1.named_tuple_get("a".to_string()).unwrap()).unwrap(); g.create_tuple(vec![x, i0.clone(), i1.clone()]).unwrap() }
        1 => { let idx = g.constant(scalar_type(UINT64), ciphercore_base::data_values::Value::from_scalar(1u64, UINT64).unwrap()).unwrap(); let e = i0.vector_get(idx).unwrap(); let s = e.add(i1.clone()).unwrap(); g.create_vector(ta.clone(), vec![s, i1.clone()]).unwrap() }
        2 => g.create_named_tuple(vec![("p".to_string(), i0.clone()), ("q".to_string(), i1.tuple_get(1).unwrap())]).unwrap(),
        _ => i0.clone(),
    };
    g.set_output_node(o).unwrap();
    g.finalize().unwrap();
    ctx.set_main_graph(g.clone()).unwrap();
    ctx.finalize().unwrap();
    Prog { ctx, g, input_types: vec![t0, t1], attempts: vec![] }
}

/// one context-level case: the real compile_to_mpc on (context, statuses, outputs) against the model
fn context_case(p: &Prog, statuses: &[IOStatus], outputs: &[IOStatus], stream: &str, out: &mut Out) {
    if !mirrored(&p.g) { out.stat("ctx:skipped-not-mirrored"); return; }
    let src = nodes_coq(&p.g);
    let oid = p.g.get_output_node().unwrap().get_id();
    let (c1, s1, o1) = (p.ctx.clone(), statuses.to_vec(), outputs.to_vec());
    let r = observe(move || verif_compile_to_mpc(c1, vec![s1], vec![o1]));
    out.stat(&format!("ctx:{}:compile:{}", stream, r.tag()));
    for s in statuses { out.stat(&format!("ctx:input-status:{}", status_tag(s))); }
    out.stat(&format!("ctx:outputs:{}", if outputs.is_empty() { "[]".to_string() } else { outputs.iter().map(status_tag).collect::<Vec<_>>().join(",") }));
    let private = statuses.iter().any(|s| *s != IOStatus::Public);
    let rhs = match &r {
        Outcome::Ok(mc) => {
            // mc owns the compiled context: it stays alive (borrowed) while both graphs are exported
            let graphs = mc.context.get_graphs();
            let main_id = mc.context.get_main_graph().map(|g| g.get_id()).unwrap_or(u64::MAX);
            if graphs.len() != 2 || main_id != 1 {
                out.violation("ctx-shape", json!({"stream": stream, "graphs": graphs.len(), "main": main_id}), "compile_to_mpc of a one-graph context must return the computation graph 0 and the main graph 1".into());
                return;
            }
            out.oracle_ok();
            let (cg, mg) = (&graphs[0], &graphs[1]);
            let n = mg.get_nodes().len();
            out.stat_n("ctx:main-nodes", n as u64);
            out.stat(&format!("ctx:main-size:{}", match n { 0..=19 => "<20", 20..=39 => "20-39", 40..=79 => "40-79", _ => ">=80" }));
            let sends = mg.get_nodes().iter().filter(|n| n.get_annotations().unwrap_or_default().iter().any(|a| matches!(a, NodeAnnotation::Send(_, _)))).count();
            out.stat(&format!("ctx:main-sends:{}", match sends { 0..=3 => "3", 4..=6 => "4-6", 7..=9 => "7-9", _ => ">=10" }));
            let out_private = cg.get_output_node().unwrap().get_annotations().unwrap_or_default().contains(&NodeAnnotation::Private);
            out.stat(&format!("ctx:result:{}:{}", if out_private { "private" } else { "public" }, match outputs.len() { 0 => "kept-shared", 1 => "one-party", _ => "forwarded" }));
            let mul = cg.get_nodes().iter().any(|n| n.get_annotations().unwrap_or_default().contains(&NodeAnnotation::PRFMultiplication));
            out.stat(&format!("ctx:prf-mul-keys:{}", mul));
            format!("(true, Ok (({}, {}), ({}, {})))", nodes_coq(cg), cg.get_output_node().unwrap().get_id(), nodes_coq(mg), mg.get_output_node().unwrap().get_id())
        }
        Outcome::Err => "(true, Err)".to_string(),
        Outcome::Panic => "(true, Panic)".to_string(),
    };
    let ops_desc: Vec<String> = p.g.get_nodes().iter().map(|n| op_name(&n.get_operation())).collect();
    let desc = json!({"stream": stream, "ops": ops_desc, "input_types": p.input_types.iter().map(|t| format!("{}", t)).collect::<Vec<_>>(),
        "input_statuses": statuses.iter().map(status_tag).collect::<Vec<_>>(), "output_parties": outputs.iter().map(status_tag).collect::<Vec<_>>(), "output": oid});
    let lhs = format!("let src := {} in (mpc_mirrored src, compile_to_mpc src {} {} {})", src, oid, list(statuses, status_coq), list(outputs, status_coq));
    let kind = if matches!(r, Outcome::Ok(_)) { "T:context-literal" } else { "T:context-rejected" };
    out.case(kind, lhs, rhs, desc, private);
}

/// program x status vectors x all 16 ordered output lists
fn context_cases(p: &Prog, stream: &str, n_vectors: usize, exhaustive: bool, rng: &mut Rng, out: &mut Out) {
    let n = p.input_types.len();
    let vectors: Vec<Vec<IOStatus>> = if exhaustive && n <= 2 { all_status_vectors(n) } else {
        let mut v: Vec<Vec<IOStatus>> = vec![];
        for k in 0..n_vectors {
            // the first vector: owners Party k, k+1, ... ; then random ones
            v.push(if k == 0 { (0..n).map(|j| IOStatus::Party((j % 3) as u64)).collect() } else { random_statuses(n, rng) });
        }
        v
    };
    for sv in &vectors {
        for ol in ctx_output_lists() { context_case(p, sv, &ol, stream, out); }
    }
    // all inputs public: the result is public; kept shared (party 0 shares the Call result), one party, forwarded
    if !exhaustive || n > 2 {
        let sv = vec![IOStatus::Public; n];
        for ol in [vec![], vec![IOStatus::Party(1)], vec![IOStatus::Party(2), IOStatus::Party(0)]] { context_case(p, &sv, &ol, stream, out); }
    }
}

fn run_context(tier: &str, rng: &mut Rng, out: &mut Out) {
    out.note("header", json!(ctx_header()));
    let (n_thm, n_gen, n_mul, n_struct, n_vec) = match tier { "thorough" => (24, 24, 8, 8, 6), "search" => (2, 2, 1, 1, 2), _ => (3, 3, 1, 2, 2) };
    let exhaustive = tier == "thorough";
    let int_sts = [UINT8, INT16, UINT32, INT32, UINT64, INT64, UINT128];
    for i in 0..(n_thm + n_gen) {
        let thm = i < n_thm;
        let st = if i % 7 == 6 { BIT } else { *rng.pick(&int_sts) };
        let ops: Vec<&'static str> = if thm { DEEP_THEOREM_OPS.to_vec() } else { DEEP_OPS.to_vec() };
        let (ni, no) = (1 + rng.below(3) as usize, 1 + rng.below(7) as usize);
        let cfg = GenCfg { n_inputs: ni, n_ops: no, scalar_types: vec![st], ops, small: true };
        let p = if !thm && i % 2 == 0 { gen_program(rng, &cfg) } else { gen_program_single_output(rng, &cfg) };
        context_cases(&p, if thm { "theorem-fragment" } else { "fragment" }, n_vec, exhaustive, rng, out);
    }
    for i in 0..n_mul {
        let st = *rng.pick(&int_sts);
        let cfg = GenCfg { n_inputs: 2 + rng.below(2) as usize, n_ops: 3 + rng.below(5) as usize, scalar_types: vec![st], ops: DEEP_MUL_OPS.to_vec(), small: true };
        let p = if i % 2 == 0 { gen_program_single_output(rng, &cfg) } else { gen_program(rng, &cfg) };
        context_cases(&p, "mul-heavy", n_vec, false, rng, out);
    }
    for i in 0..n_struct {
        let p = structured_program(rng, i);
        context_cases(&p, "structured-types", n_vec + 1, exhaustive, rng, out);
    }
    // a*b+a with owners Party 0 / Party 1 (the non-vacuity example of Props/C01.v)
    {
        let p = example_program();
        for ol in ctx_output_lists() { context_case(&p, &[IOStatus::Party(0), IOStatus::Party(1)], &ol, "example", out); }
    }
    // rejected: invalid party ids, non-party output statuses, duplicates are accepted, short status vectors,
    // operations the compiler does not compile
    let p = ring_program(rng, UINT32);
    let n = p.input_types.len();
    let ok_in: Vec<IOStatus> = (0..n).map(|j| IOStatus::Party((j % 3) as u64)).collect();
    let mut bad_in = ok_in.clone();
    bad_in[n - 1] = IOStatus::Party(3 + rng.below(5));
    for (sv, ol) in [
        (bad_in.clone(), vec![IOStatus::Party(0)]),
        (ok_in.clone(), vec![IOStatus::Party(3)]),
        (ok_in.clone(), vec![IOStatus::Party(1), IOStatus::Party(7)]),
        (ok_in.clone(), vec![IOStatus::Public]),
        (ok_in.clone(), vec![IOStatus::Party(2), IOStatus::Shared]),
        (ok_in.clone(), vec![IOStatus::Shared]),
        (ok_in[..n - 1].to_vec(), vec![IOStatus::Party(0)]),
        (vec![], vec![]),
        // accepted: duplicated output parties, more statuses than inputs
        (ok_in.clone(), vec![IOStatus::Party(1), IOStatus::Party(1)]),
        (ok_in.clone(), vec![IOStatus::Party(2), IOStatus::Party(0), IOStatus::Party(2), IOStatus::Party(0)]),
        ([ok_in.clone(), vec![IOStatus::Shared, IOStatus::Party(9)]].concat(), vec![IOStatus::Party(0)]),
        ([ok_in.clone(), vec![IOStatus::Shared]].concat(), vec![]),
    ] {
        context_case(&p, &sv, &ol, "party-checks", out);
    }
    for i in 0..(if tier == "thorough" { 6 } else { 2 }) {
        let p = rejected_program(rng, i);
        context_case(&p, &[IOStatus::Party(1), if i % 2 == 0 { IOStatus::Public } else { IOStatus::Shared }], &[IOStatus::Party(0)], "rejected-op", out);
    }
}

/// a*b+a over one array type
fn example_program() -> Prog {
    let ctx = create_context().unwrap();
    let g = ctx.create_graph().unwrap();
    let t = array_type(vec![2], UINT32);
    let a = g.input(t.clone()).unwrap();
    let b = g.input(t.clone()).unwrap();
    let o = a.multiply(b).unwrap().add(a).unwrap();
    g.set_output_node(o).unwrap();
    g.finalize().unwrap();
    ctx.set_main_graph(g.clone()).unwrap();
    ctx.finalize().unwrap();
    Prog { ctx, g, input_types: vec![t.clone(), t], attempts: vec![] }
}

pub fn run(tier: &str, rng: &mut Rng, out: &mut Out) {
    let (n_ring, n_mix, n_thm, n_gen, n_rej) = match tier { "thorough" => (80, 90, 120, 300, 12), "search" => (10, 18, 10, 20, 6), _ => (10, 12, 12, 30, 6) };
    let n_mul = match tier { "thorough" => 150, "search" => 10, _ => 14 };
    let exhaustive = tier == "thorough";
    let mut seen = std::collections::HashSet::new();
    let int_sts = [UINT8, INT16, UINT32, INT32, UINT64, INT64, UINT128];
    for i in 0..n_ring {
        let st = if i % 5 == 4 { BIT } else { *rng.pick(&int_sts) };
        let p = ring_program(rng, st);
        run_flags(&p, "ring", exhaustive, rng, &mut seen, out);
    }
    for i in 0..n_mix {
        let st = *rng.pick(&int_sts);
        let p = crate::c01::broadcast_mix_program(rng, st, i * 5 + 1);
        run_flags(&p, "broadcast-mix", true, rng, &mut seen, out);
    }
    for i in 0..(n_thm + n_gen) {
        let thm = i < n_thm;
        let st = if i % 7 == 6 { BIT } else { *rng.pick(&int_sts) };
        let ops: Vec<&'static str> = if thm { DEEP_THEOREM_OPS.to_vec() } else { DEEP_OPS.to_vec() };
        let (ni, no) = (1 + rng.below(3) as usize, 1 + rng.below(8) as usize);
        let cfg = GenCfg { n_inputs: ni, n_ops: no, scalar_types: vec![st], ops, small: true };
        // tuple outputs (most of the graph live, CreateTuple output) and single array outputs
        let p = if i % 3 == 0 { gen_program(rng, &cfg) } else { gen_program_single_output(rng, &cfg) };
        run_flags(&p, if thm { "theorem-fragment" } else { "fragment" }, exhaustive, rng, &mut seen, out);
    }
    // product-heavy programs, all inputs private (and one random vector)
    for i in 0..n_mul {
        let st = if i % 6 == 5 { BIT } else { *rng.pick(&int_sts) };
        let (ni, no) = (2 + rng.below(2) as usize, 3 + rng.below(7) as usize);
        let cfg = GenCfg { n_inputs: ni, n_ops: no, scalar_types: vec![st], ops: DEEP_MUL_OPS.to_vec(), small: true };
        let p = if i % 2 == 0 { gen_program(rng, &cfg) } else { gen_program_single_output(rng, &cfg) };
        run_flags(&p, "mul-heavy", false, rng, &mut seen, out);
    }
    // rejected: operations outside is_mpc_compiled / the `_ =>` arms, and a too short flag vector
    for i in 0..n_rej {
        let p = rejected_program(rng, i);
        deep_cases(&p, &[true, i % 2 == 0], "rejected-op", &mut seen, out);
    }
    for _ in 0..std::cmp::max(1, n_rej / 6) {
        let p = vector_get_program(rng);
        for f in all_flag_vectors(2) { deep_cases(&p, &f, "vector-get-index", &mut seen, out); }
    }
    for i in 0..std::cmp::max(2, n_rej / 3) {
        let p = ring_program(rng, UINT32);
        let n = p.input_types.len();
        let f: Vec<bool> = (0..n - 1).map(|j| (i + j) % 2 == 0).collect();
        deep_cases(&p, &f, "short-flags", &mut seen, out);
    }
    run_context(tier, rng, out);
}

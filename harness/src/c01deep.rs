//! C01 (deep model) — literal tie between the Gallina mirror of the MPC compiler's per-graph step
//! (Model/MpcCompile.v: propagate_private_annotations, get_nodes_to_reshare, compile_to_mpc_graph)
//! and /repo's `compile_to_mpc_graph`, reached through the guarded hook
//! `ciphercore_base::mpc::verif_hooks::compile_graph_to_mpc`.
use crate::out::Out;
use crate::rng::Rng;

pub fn run(_tier: &str, _rng: &mut Rng, _out: &mut Out) {}

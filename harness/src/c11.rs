//! C11 — graph-building API keeps contexts well-formed; failed calls have no effect.
//! Histories of random API calls over one or two contexts are executed on /repo's real code; after
//! every call the public getters (and the serialized context, for the graphs' finalized flags) are
//! read and printed as a Gallina literal.  One correspondence case per (history, context): the
//! model `trace` over the same call list must give the same per-step (outcome, observation) list.
//! Native oracle, after every call: an Err leaves the receiver context's observation unchanged,
//! the other context is never touched, and the well-formedness invariants hold on the Rust side.
use crate::coqfmt::coq_string;
use crate::out::Out;
use crate::rng::Rng;
use ciphercore_base::data_types::*;
use ciphercore_base::data_values::Value;
use ciphercore_base::graphs::{create_context, Context, Graph, GraphAnnotation, Node, NodeAnnotation, Operation};
use serde_json::json;
use std::collections::HashSet;

pub const HEADER: &str = "From CC Require Import Base.Prelude Model.Api.";

pub const POOL: [&str; 4] = ["a", "b", "out", "x y"];

/// Interning tables: operations and types are opaque tags in the model.
pub struct Tags {
    pub ops: Vec<Operation>,
    pub tys: Vec<Type>,
}
impl Tags {
    pub fn new() -> Self {
        Tags { ops: vec![], tys: vec![] }
    }
    pub fn op(&mut self, o: &Operation) -> usize {
        if let Some(i) = self.ops.iter().position(|x| x == o) {
            return i;
        }
        self.ops.push(o.clone());
        self.ops.len() - 1
    }
    pub fn ty(&mut self, t: &Type) -> usize {
        if let Some(i) = self.tys.iter().position(|x| x == t) {
            return i;
        }
        self.tys.push(t.clone());
        self.tys.len() - 1
    }
}

/// Independent port of data_types.rs:1246 get_size_estimation_in_bits (private in /repo).
pub fn size_estimate(t: &Type) -> Option<u64> {
    if !t.is_valid() {
        return None;
    }
    let r: u64 = match t {
        Type::Scalar(st) => st.size_in_bits(),
        Type::Array(s, st) => {
            let mut pr: u64 = 1;
            for x in s {
                pr = pr.checked_mul(*x)?;
            }
            st.size_in_bits().checked_mul(pr.checked_add(1)?)?
        }
        Type::Vector(len, et) => len.checked_add(1)?.checked_mul(size_estimate(et)?)?,
        Type::Tuple(ts) => {
            let mut tot: u64 = 0;
            for e in ts {
                tot = tot.checked_add(size_estimate(e)?)?;
            }
            tot
        }
        Type::NamedTuple(fs) => {
            let mut tot: u64 = 0;
            for (_, e) in fs {
                tot = tot.checked_add(size_estimate(e)?)?;
            }
            tot
        }
    };
    r.checked_add(1)
}

pub fn node_annot_code(a: &NodeAnnotation) -> u64 {
    match a {
        NodeAnnotation::AssociativeOperation => 1,
        NodeAnnotation::Private => 2,
        NodeAnnotation::Send(s, r) => 100 + 10 * s + r,
        NodeAnnotation::PRFMultiplication => 3,
        NodeAnnotation::PRFB2A => 4,
        NodeAnnotation::PRFTruncate => 5,
        NodeAnnotation::MpcCall => 6,
    }
}
pub fn graph_annot_code(a: &GraphAnnotation) -> u64 {
    match a {
        GraphAnnotation::AssociativeOperation => 1,
        GraphAnnotation::OneBitState => 2,
        GraphAnnotation::SmallState => 3,
    }
}
fn random_node_annot(rng: &mut Rng) -> NodeAnnotation {
    match rng.below(7) {
        0 => NodeAnnotation::AssociativeOperation,
        1 => NodeAnnotation::Private,
        2 => NodeAnnotation::Send(rng.below(3), rng.below(3)),
        3 => NodeAnnotation::PRFMultiplication,
        4 => NodeAnnotation::PRFB2A,
        5 => NodeAnnotation::PRFTruncate,
        _ => NodeAnnotation::MpcCall,
    }
}
fn random_graph_annot(rng: &mut Rng) -> GraphAnnotation {
    match rng.below(3) {
        0 => GraphAnnotation::AssociativeOperation,
        1 => GraphAnnotation::OneBitState,
        _ => GraphAnnotation::SmallState,
    }
}

fn opt<T, F: Fn(&T) -> String>(o: &Option<T>, f: F) -> String {
    match o {
        Some(x) => format!("(Some {})", f(x)),
        None => "None".to_string(),
    }
}
fn lst<T, F: Fn(&T) -> String>(xs: &[T], f: F) -> String {
    let v: Vec<String> = xs.iter().map(f).collect();
    format!("[{}]", v.join("; "))
}
fn b(x: bool) -> &'static str {
    if x {
        "true"
    } else {
        "false"
    }
}

/// Observation of one context through its public interface, as the Gallina value of
/// `observe POOL s` (Model/Api.v).  `orphans`: nodes left behind by a failed insertion, whose type
/// the harness does not ask for (asking would make the lazy type checker infer and cache one).
/// Observation split as (context-level head, per-graph observations, context-level retrievals).
#[derive(Clone, PartialEq)]
pub struct Obs {
    pub head: String,
    pub graphs: Vec<String>,
    pub tail: String,
}
impl Obs {
    /// the Gallina value of `observe POOL s`
    pub fn full(&self) -> String {
        format!("({}, [{}], {})", self.head, self.graphs.join("; "), self.tail)
    }
    /// the Gallina value of `delta prev cur`: unchanged graphs are printed as None
    pub fn delta(&self, prev: &Obs) -> String {
        let gs: Vec<String> = self.graphs.iter().enumerate().map(|(i, g)| if prev.graphs.get(i) == Some(g) { "None".to_string() } else { format!("(Some {})", g) }).collect();
        format!("({}, [{}], {})", self.head, gs.join("; "), self.tail)
    }
}
pub fn observe_ctx(ctx: &Context, tags: &mut Tags, orphans: &HashSet<(u64, u64)>, pool: &[&str]) -> Obs {
    // finalized flags of the graphs are only visible in the serialized form
    let text = serde_json::to_string(ctx).unwrap();
    let env: serde_json::Value = serde_json::from_str(&text).unwrap();
    let inner: serde_json::Value = serde_json::from_str(env["data"].as_str().unwrap()).unwrap();
    let ctx_fin = ctx.check_finalized().is_ok();
    assert_eq!(inner["finalized"].as_bool().unwrap(), ctx_fin);
    let main = ctx.get_main_graph().ok().map(|g| g.get_id());
    let graphs = ctx.get_graphs();
    let mut gs = vec![];
    for (gi, g) in graphs.iter().enumerate() {
        let fin = inner["graphs"][gi]["finalized"].as_bool().unwrap();
        let out = g.get_output_node().ok().map(|n| n.get_id());
        let mut ns = vec![];
        for n in g.get_nodes() {
            let deps = n.get_node_dependencies();
            let gdeps = n.get_graph_dependencies();
            let same = deps.iter().all(|d| d.get_graph() == *g);
            let own = gdeps.iter().all(|d| d.get_context() == *ctx);
            let name = n.get_name().unwrap();
            let ann: Vec<u64> = n.get_annotations().unwrap().iter().map(node_annot_code).collect();
            let ty = if orphans.contains(&(g.get_id(), n.get_id())) { None } else { n.get_type().ok().map(|t| tags.ty(&t)) };
            ns.push(format!(
                "({}, {}, {}, ({}, {}, {}), ({}, {}, {}))",
                n.get_id(),
                tags.op(&n.get_operation()),
                lst(&deps, |d| d.get_id().to_string()),
                b(same),
                lst(&gdeps, |d| d.get_id().to_string()),
                b(own),
                opt(&name, |s| coq_string(s)),
                lst(&ann, |a| a.to_string()),
                opt(&ty, |t| t.to_string())
            ));
        }
        let gname = g.get_name().ok();
        let gann: Vec<u64> = g.get_annotations().unwrap().iter().map(graph_annot_code).collect();
        let retr: Vec<Option<u64>> = pool.iter().map(|nm| ctx.retrieve_node(g.clone(), nm).ok().map(|n| n.get_id())).collect();
        gs.push(format!(
            "({}, {}, {}, [{}], ({}, {}, {}))",
            g.get_id(),
            b(fin),
            opt(&out, |x| x.to_string()),
            ns.join("; "),
            opt(&gname, |s| coq_string(s)),
            lst(&gann, |a| a.to_string()),
            lst(&retr, |o| opt(o, |x| x.to_string()))
        ));
    }
    let retr: Vec<Option<u64>> = pool.iter().map(|nm| ctx.retrieve_graph(nm).ok().map(|g| g.get_id())).collect();
    Obs { head: format!("{}, {}", b(ctx_fin), opt(&main, |x| x.to_string())), graphs: gs, tail: lst(&retr, |o| opt(o, |x| x.to_string())) }
}

/// The well-formedness invariants, stated natively on the Rust objects.
pub fn check_invariants(ctx: &Context, orphans: &HashSet<(u64, u64)>) -> std::result::Result<(), String> {
    let graphs = ctx.get_graphs();
    if ctx.get_num_graphs() as usize != graphs.len() {
        return Err("get_num_graphs".into());
    }
    let ctx_fin = ctx.check_finalized().is_ok();
    if let Ok(m) = ctx.get_main_graph() {
        if m.get_context() != *ctx || graphs.get(m.get_id() as usize) != Some(&m) {
            return Err("main graph not a graph of this context".into());
        }
    } else if ctx_fin {
        return Err("finalized context without main graph".into());
    }
    for (gi, g) in graphs.iter().enumerate() {
        if g.get_id() != gi as u64 || g.get_context() != *ctx {
            return Err(format!("graph id {} at position {}", g.get_id(), gi));
        }
        let nodes = g.get_nodes();
        if g.get_num_nodes() as usize != nodes.len() {
            return Err("get_num_nodes".into());
        }
        for (ni, n) in nodes.iter().enumerate() {
            if n.get_id() != ni as u64 || n.get_graph() != *g {
                return Err(format!("node id {} at position {} of graph {}", n.get_id(), ni, gi));
            }
            if n.get_global_id() != (gi as u64, ni as u64) {
                return Err("global id".into());
            }
            for d in n.get_node_dependencies() {
                if d.get_graph() != *g || d.get_id() >= n.get_id() || nodes[d.get_id() as usize] != d {
                    return Err(format!("dependency of node ({},{}) does not precede it in the same graph", gi, ni));
                }
            }
            for d in n.get_graph_dependencies() {
                if d.get_context() != *ctx || d.get_id() >= g.get_id() || graphs[d.get_id() as usize] != d {
                    return Err(format!("graph dependency of node ({},{}) is not an older graph of the context", gi, ni));
                }
                // finalized: a finalized graph has an output and rejects new nodes
                if d.get_output_node().is_err() {
                    return Err("called graph has no output".into());
                }
            }
            if let Some(name) = n.get_name().map_err(|e| e.to_string())? {
                match g.retrieve_node(&name) {
                    Ok(m) if m == *n => {}
                    _ => return Err(format!("name {:?} of node ({},{}) does not resolve back", name, gi, ni)),
                }
            }
            if !orphans.contains(&(gi as u64, ni as u64)) {
                match n.get_type() {
                    Ok(t) if t.is_valid() => {}
                    _ => return Err(format!("node ({},{}) has no valid type", gi, ni)),
                }
            }
        }
        if let Ok(o) = g.get_output_node() {
            if o.get_graph() != *g || nodes.get(o.get_id() as usize) != Some(&o) {
                return Err("output node not in graph".into());
            }
        }
        if let Ok(name) = g.get_name() {
            match ctx.retrieve_graph(&name) {
                Ok(h) if h == *g => {}
                _ => return Err(format!("graph name {:?} does not resolve back", name)),
            }
        }
    }
    Ok(())
}

#[derive(Clone)]
struct NodeH {
    node: Node,
    c: usize,
}
#[derive(Clone)]
struct GraphH {
    graph: Graph,
    c: usize,
}

struct World {
    ctxs: Vec<Context>,
    orphans: Vec<HashSet<(u64, u64)>>,
}

fn nh(h: &NodeH, recv: usize) -> String {
    format!("(NH {} {} {})", if h.c == recv { 0 } else { 1 }, h.node.get_graph().get_id(), h.node.get_id())
}
fn gh(h: &GraphH, recv: usize) -> String {
    format!("(GH {} {})", if h.c == recv { 0 } else { 1 }, h.graph.get_id())
}

fn small_types() -> Vec<Type> {
    vec![
        scalar_type(INT32),
        scalar_type(BIT),
        array_type(vec![2], INT32),
        array_type(vec![3], INT32),
        array_type(vec![2, 3], UINT64),
        array_type(vec![4], BIT),
        tuple_type(vec![scalar_type(INT32), array_type(vec![2], BIT)]),
        scalar_type(UINT128),
    ]
}
fn huge_types() -> Vec<Type> {
    vec![
        array_type(vec![1u64 << 57], UINT64),                 // 2^63 + 65 bits: fits once, not twice
        array_type(vec![1u64 << 56, 3], UINT64),              // ~1.5 * 2^63
        array_type(vec![1u64 << 62], UINT64),                 // size estimation overflows
        array_type(vec![1u64 << 32, 1u64 << 31], UINT128),    // overflows
        vector_type(u64::MAX, scalar_type(BIT)),              // length + 1 overflows
        tuple_type(vec![array_type(vec![1u64 << 57], UINT64), array_type(vec![1u64 << 57], UINT64)]),
    ]
}
fn invalid_types() -> Vec<Type> {
    vec![
        array_type(vec![0], INT32),
        array_type(vec![], INT32),
        array_type(vec![u64::MAX, 2], BIT),
        named_tuple_type(vec![("a".into(), scalar_type(BIT)), ("a".into(), scalar_type(BIT))]),
        tuple_type(vec![array_type(vec![2, 0], BIT)]),
    ]
}

pub fn classify(kind: &str, msg: &str) -> u64 {
    let has = |s: &str| msg.contains(s);
    match kind {
        "create_graph" => 1,
        "add_node" => {
            if has("Can't add a node to a finalized graph") { 10 }
            else if has("invalid node dependencies") { 11 }
            else if has("not finilized graph dependency") || has("graph dependency with bigger id") || has("graph dependency from different context") { 12 }
            else if has("Trying to add a node with invalid size") { 14 }
            else if has("larger than MAX_INDIVIDUAL_NODE_SIZE") { 15 }
            else if has("Node with an invalid type") || has("exceeds MAX_TOTAL_SIZE_NODES") { 16 }
            else if has("Can't unregister a node") { 17 }
            else if has("Trying to register invalid type") { 18 }
            else { 13 }
        }
        "set_output" => if has("already set") { 20 } else if has("same graph") { 21 } else { 0 },
        "finalize_graph" => 25,
        "set_main" => if has("already set") { 30 } else if has("wrong context") { 31 } else if has("not finalized") { 32 } else { 0 },
        "finalize_ctx" => if has("Graph is not finalized") { 35 } else if has("without the main graph") { 36 } else { 0 },
        "set_graph_name" => if has("different context") { 40 } else if has("finalized context") { 41 } else if has("twice") { 42 } else if has("unique") { 43 } else { 0 },
        "set_node_name" => if has("different context") { 45 } else if has("finalized context") { 46 } else if has("twice") { 47 } else if has("unique") { 48 } else { 0 },
        "node_annot" => if has("different context") { 50 } else if has("finalized context") { 51 } else { 0 },
        "graph_annot" => if has("different context") { 55 } else if has("finalized context") { 56 } else { 0 },
        "get_graph_name" => if has("different context") { 60 } else if has("does not have a name") { 61 } else { 0 },
        "get_node_name" => if has("different context") { 60 } else { 0 },
        "retrieve_graph" => 64,
        "retrieve_node" => if has("different context") { 60 } else { 64 },
        _ => 0,
    }
}

struct History {
    rng: Rng,
    w: World,
    graphs: Vec<GraphH>,
    nodes: Vec<NodeH>,
    calls: Vec<Vec<String>>,   // per context: Gallina call terms
    steps: Vec<Vec<String>>,   // per context: Gallina (outcome, observation) terms
    last_obs: Vec<Obs>,
    rejected: usize,
    viol: Vec<(String, String)>,
    closing_at: Option<usize>, // from this step on the generator works towards a finalized context
    no_supplied: bool,         // never call add_node_with_type (C12: stored types must be the inferred ones)
    finalized: HashSet<(usize, u64)>,
}

impl History {
    fn pick_node(&mut self, prefer_c: usize, prefer_g: Option<u64>, valid: bool) -> Option<NodeH> {
        if self.nodes.is_empty() {
            return None;
        }
        if valid {
            let c: Vec<&NodeH> = self.nodes.iter().filter(|h| h.c == prefer_c && prefer_g.map_or(true, |g| h.node.get_graph().get_id() == g)).collect();
            if !c.is_empty() {
                let i = self.rng.below(c.len() as u64) as usize;
                return Some(c[i].clone());
            }
            None
        } else {
            let i = self.rng.below(self.nodes.len() as u64) as usize;
            Some(self.nodes[i].clone())
        }
    }
    fn pick_graph(&mut self, prefer_c: usize, valid: bool) -> Option<GraphH> {
        let c: Vec<&GraphH> = self.graphs.iter().filter(|h| !valid || h.c == prefer_c).collect();
        if c.is_empty() {
            return None;
        }
        let i = self.rng.below(c.len() as u64) as usize;
        Some(c[i].clone())
    }
    fn name(&mut self) -> String {
        if self.rng.chance(1, 6) {
            format!("n{}", self.rng.below(1000))
        } else {
            POOL[self.rng.below(POOL.len() as u64) as usize].to_string()
        }
    }
}

fn outcome_unit(kind: &str, r: &ciphercore_base::errors::Result<()>) -> (String, bool) {
    match r {
        Ok(()) => ("(OOk RUnit)".to_string(), true),
        Err(e) => (format!("(OErr {})", classify(kind, &e.to_string())), false),
    }
}

/// One random history.  Returns the per-context (lhs, rhs) pairs through `h`.
fn run_history(h: &mut History, ncalls: usize, tags: &mut Tags, out: &mut Out, stats_prefix: &str) {
    let nctx = h.w.ctxs.len();
    for c in 0..nctx {
        let o = observe_ctx(&h.w.ctxs[c], tags, &h.w.orphans[c], &POOL);
        h.last_obs.push(o);
    }
    let small = small_types();
    let huge = huge_types();
    let invalid = invalid_types();
    for step_no in 0..ncalls {
        let c = h.rng.below(nctx as u64) as usize; // receiver context
        let ctx = h.w.ctxs[c].clone();
        let bad = h.rng.chance(2, 5); // this call is generated from the unconstrained pools
        let closing = h.closing_at.map_or(false, |k| step_no >= k) && !bad;
        // in the closing phase: outputs, graph finalization, main graph, context finalization
        let (kind, want): (u64, Option<GraphH>) = if closing && h.rng.chance(3, 4) {
            let no_out: Vec<GraphH> = h.graphs.iter().filter(|g| g.c == c && g.graph.get_output_node().is_err() && g.graph.get_num_nodes() > 0).cloned().collect();
            let unfin: Vec<GraphH> = h.graphs.iter().filter(|g| g.c == c && g.graph.get_output_node().is_ok() && !h.finalized.contains(&(c, g.graph.get_id()))).cloned().collect();
            let empty: Vec<GraphH> = h.graphs.iter().filter(|g| g.c == c && g.graph.get_num_nodes() == 0).cloned().collect();
            let fin: Vec<GraphH> = h.graphs.iter().filter(|g| g.c == c && h.finalized.contains(&(c, g.graph.get_id()))).cloned().collect();
            if !empty.is_empty() { (20, None) }
            else if !no_out.is_empty() { (56, Some(no_out[h.rng.below(no_out.len() as u64) as usize].clone())) }
            else if !unfin.is_empty() { (63, Some(unfin[h.rng.below(unfin.len() as u64) as usize].clone())) }
            else if ctx.get_main_graph().is_err() && !fin.is_empty() { (69, Some(fin[h.rng.below(fin.len() as u64) as usize].clone())) }
            else { (72, None) }
        } else { (h.rng.below(100), None) };
        // (kind name, Gallina call, Gallina outcome, ok?)
        let (kname, call, outc, ok): (&str, String, String, bool);
        if kind < 10 || h.graphs.iter().all(|g| g.c != c) {
            let r = ctx.create_graph();
            kname = "create_graph";
            call = "CreateGraph".to_string();
            match r {
                Ok(g) => {
                    outc = format!("(OOk (RId {}))", g.get_id());
                    ok = true;
                    h.graphs.push(GraphH { graph: g, c });
                }
                Err(e) => {
                    outc = format!("(OErr {})", classify("create_graph", &e.to_string()));
                    ok = false;
                }
            }
        } else if kind < 55 {
            // ---- add_node / add_node_with_type -------------------------------------------
            kname = "add_node";
            let g = h.pick_graph(c, true).unwrap();
            let gid = g.graph.get_id();
            let sub = h.rng.below(100);
            let mut deps: Vec<NodeH> = vec![];
            let mut gdeps: Vec<GraphH> = vec![];
            let op: Operation;
            let pick_t = |rng: &mut Rng| -> Type {
                let r = rng.below(100);
                if r < 80 { small[rng.below(small.len() as u64) as usize].clone() }
                else if r < 92 { huge[rng.below(huge.len() as u64) as usize].clone() }
                else { invalid[rng.below(invalid.len() as u64) as usize].clone() }
            };
            if sub < 35 || h.nodes.iter().all(|n| n.c != c || n.node.get_graph().get_id() != gid) {
                let t = pick_t(&mut h.rng);
                op = match h.rng.below(5) {
                    0 | 1 | 2 => Operation::Input(t),
                    3 => {
                        let v = if size_estimate(&t).map_or(false, |s| s < 100000) { Value::zero_of_type(t.clone()) } else { Value::from_bytes(vec![0]) };
                        Operation::Constant(t, v)
                    }
                    _ => Operation::Zeros(t),
                };
                if bad && h.rng.chance(1, 3) {
                    if let Some(d) = h.pick_node(c, Some(gid), false) { deps.push(d); }
                }
            } else if sub < 85 {
                let k = h.rng.below(6);
                let arity = match k { 0 | 1 => 2, 2 | 3 => 1, _ => h.rng.below(4) as usize };
                op = match k {
                    0 => Operation::Add,
                    1 => Operation::Multiply,
                    2 => Operation::NOP,
                    3 => if h.rng.chance(1, 2) { Operation::A2B } else { Operation::TupleGet(h.rng.below(3)) },
                    _ => Operation::CreateTuple,
                };
                let n = if bad && h.rng.chance(1, 4) { arity + 1 } else { arity };
                for _ in 0..n {
                    let v = !bad || h.rng.chance(2, 3);
                    if let Some(d) = h.pick_node(c, Some(gid), v) { deps.push(d); }
                }
            } else {
                // Call / Iterate on another graph
                op = if h.rng.chance(4, 5) { Operation::Call } else { Operation::Iterate };
                let v = h.rng.chance(1, 2);
                let callee = if bad { h.pick_graph(c, v) } else {
                    let older: Vec<GraphH> = h.graphs.iter().filter(|x| x.c == c && x.graph.get_id() < gid && x.graph.get_output_node().is_ok()).cloned().collect();
                    // sometimes a finalized graph of the same context that is NOT older than the caller
                    // (with well-typed arguments): must be refused and leave the context unchanged
                    let younger: Vec<GraphH> = h.graphs.iter().filter(|x| x.c == c && x.graph.get_id() > gid && x.graph.get_output_node().is_ok()).cloned().collect();
                    if !younger.is_empty() && h.rng.chance(1, 3) { Some(younger[h.rng.below(younger.len() as u64) as usize].clone()) }
                    else if older.is_empty() { h.pick_graph(c, true) } else { Some(older[h.rng.below(older.len() as u64) as usize].clone()) }
                };
                if let Some(cg) = callee {
                    // arguments: try to match the callee's input types
                    let want: Vec<Type> = cg.graph.get_nodes().iter().filter_map(|n| if let Operation::Input(t) = n.get_operation() { Some(t) } else { None }).collect();
                    for t in want {
                        let cands: Vec<NodeH> = h.nodes.iter().filter(|n| n.c == c && n.node.get_graph().get_id() == gid && !h.w.orphans[c].contains(&n.node.get_global_id()) && n.node.get_type().ok().as_ref() == Some(&t)).cloned().collect();
                        if !cands.is_empty() && !(bad && h.rng.chance(1, 3)) {
                            deps.push(cands[h.rng.below(cands.len() as u64) as usize].clone());
                        } else if let Some(d) = h.pick_node(c, Some(gid), true) {
                            deps.push(d);
                        }
                    }
                    gdeps.push(cg);
                    if bad && h.rng.chance(1, 5) {
                        if let Some(x) = h.pick_graph(c, false) { gdeps.push(x); }
                    }
                }
            }
            // supplied type (add_node_with_type): mostly the right one is not known, so use a pool type
            let supplied: Option<Type> = if !h.no_supplied && h.rng.chance(1, 6) {
                Some(if h.rng.chance(1, 3) { invalid[h.rng.below(invalid.len() as u64) as usize].clone() } else { pick_t(&mut h.rng) })
            } else { None };
            let before = g.graph.get_num_nodes();
            let dn: Vec<Node> = deps.iter().map(|d| d.node.clone()).collect();
            let dg: Vec<Graph> = gdeps.iter().map(|d| d.graph.clone()).collect();
            let r = match &supplied {
                None => g.graph.add_node(dn, dg, op.clone()),
                Some(t) => g.graph.add_node_with_type(dn, dg, op.clone(), t.clone()),
            };
            let after = g.graph.get_num_nodes();
            // the oracle answers handed to the model
            let in_ty: Option<Type> = match &op { Operation::Input(t) => Some(t.clone()), Operation::Constant(t, _) => Some(t.clone()), _ => None };
            let a_in = match &in_ty {
                None => "None".to_string(),
                Some(t) => format!("(Some {})", opt(&(if t.is_valid() { size_estimate(t) } else { None }), |x| x.to_string())),
            };
            let (a_ty, a_sz);
            match &r {
                Ok(n) => {
                    let t = n.get_type().unwrap();
                    a_ty = format!("(Some {})", tags.ty(&t));
                    a_sz = opt(&size_estimate(&t), |x| x.to_string());
                    outc = format!("(OOk (RId {}))", n.get_id());
                    ok = true;
                    h.nodes.push(NodeH { node: n.clone(), c });
                    out.stat(&format!("{}addnode:Ok", stats_prefix));
                }
                Err(e) => {
                    let mut code = classify("add_node", &e.to_string());
                    if e.to_string().contains("overflow!") {
                        // checked arithmetic fails either inside type inference (13) or in
                        // try_update_total_size (16).  Inference did not run when a type was supplied,
                        // and cannot overflow when the Input/Constant type has a size estimate.
                        code = if supplied.is_some() || in_ty.as_ref().map_or(false, |t| size_estimate(t).is_some()) { 16 } else { 13 };
                    }
                    out.stat(&format!("{}addnode:Err{}", stats_prefix, code));
                    // type checker's answer as far as Rust's behaviour reveals it
                    let known_t: Option<Type> = supplied.clone().or(in_ty.clone());
                    if code == 13 {
                        a_ty = "None".to_string();
                        a_sz = "None".to_string();
                    } else {
                        a_ty = "(Some 0)".to_string();
                        a_sz = match (&known_t, code) {
                            (Some(t), _) => opt(&size_estimate(t), |x| x.to_string()),
                            (None, 14) => "None".to_string(),
                            _ => "(Some 0)".to_string(),
                        };
                    }
                    outc = format!("(OErr {})", code);
                    ok = false;
                    if after != before {
                        // a failed call left a node behind
                        h.w.orphans[c].insert((gid, before));
                        h.viol.push(("err-leaves-node-behind".into(), format!("add_node_with_type returned Err({}) but get_num_nodes went {} -> {}", e, before, after)));
                        let left = g.graph.get_nodes()[before as usize].clone();
                        h.nodes.push(NodeH { node: left, c });
                    }
                }
            }
            let sup = match &supplied { None => "None".to_string(), Some(t) => format!("(Some ({}, {}))", b(t.is_valid()), tags.ty(t)) };
            call = format!(
                "AddNode {} {} {} {} {} (mkAns {} {} {})",
                gid, tags.op(&op), lst(&deps, |d| nh(d, c)), lst(&gdeps, |d| gh(d, c)), sup, a_ty, a_sz, a_in
            );
        } else if kind < 62 {
            kname = "set_output";
            let g = want.clone().unwrap_or_else(|| h.pick_graph(c, true).unwrap());
            let n = h.pick_node(c, Some(g.graph.get_id()), !bad);
            match n {
                None => continue,
                Some(n) => {
                    let r = g.graph.set_output_node(n.node.clone());
                    let (o, k) = outcome_unit(kname, &r);
                    outc = o; ok = k;
                    call = format!("SetOutput {} {}", g.graph.get_id(), nh(&n, c));
                }
            }
        } else if kind < 68 {
            kname = "finalize_graph";
            let g = want.clone().unwrap_or_else(|| h.pick_graph(c, true).unwrap());
            let r = g.graph.finalize().map(|_| ());
            if r.is_ok() { h.finalized.insert((c, g.graph.get_id())); }
            let (o, k) = outcome_unit(kname, &r);
            outc = o; ok = k;
            call = format!("FinalizeGraph {}", g.graph.get_id());
        } else if kind < 72 {
            kname = "set_main";
            let g = want.clone().unwrap_or_else(|| h.pick_graph(c, !bad).unwrap());
            let r = ctx.set_main_graph(g.graph.clone()).map(|_| ());
            let (o, k) = outcome_unit(kname, &r);
            outc = o; ok = k;
            call = format!("SetMain {}", gh(&g, c));
        } else if kind < 74 {
            kname = "finalize_ctx";
            let r = ctx.finalize().map(|_| ());
            let (o, k) = outcome_unit(kname, &r);
            outc = o; ok = k;
            call = "FinalizeCtx".to_string();
        } else if kind < 79 {
            kname = "set_graph_name";
            let g = h.pick_graph(c, !bad).unwrap();
            let nm = h.name();
            let r = ctx.set_graph_name(g.graph.clone(), &nm).map(|_| ());
            let (o, k) = outcome_unit(kname, &r);
            outc = o; ok = k;
            call = format!("SetGraphName {} {}", gh(&g, c), coq_string(&nm));
        } else if kind < 87 {
            kname = "set_node_name";
            let n = match h.pick_node(c, None, !bad) { Some(n) => n, None => continue };
            let nm = h.name();
            let r = ctx.set_node_name(n.node.clone(), &nm).map(|_| ());
            let (o, k) = outcome_unit(kname, &r);
            outc = o; ok = k;
            call = format!("SetNodeName {} {}", nh(&n, c), coq_string(&nm));
        } else if kind < 91 {
            kname = "node_annot";
            let n = match h.pick_node(c, None, true) { Some(n) => n, None => continue };
            let a = random_node_annot(&mut h.rng);
            let r = n.node.add_annotation(a.clone()).map(|_| ());
            let (o, k) = outcome_unit(kname, &r);
            outc = o; ok = k;
            call = format!("AddNodeAnnot {} {}", nh(&n, c), node_annot_code(&a));
        } else if kind < 93 {
            kname = "graph_annot";
            let g = h.pick_graph(c, true).unwrap();
            let a = random_graph_annot(&mut h.rng);
            let r = g.graph.add_annotation(a.clone()).map(|_| ());
            let (o, k) = outcome_unit(kname, &r);
            outc = o; ok = k;
            call = format!("AddGraphAnnot {} {}", gh(&g, c), graph_annot_code(&a));
        } else if kind < 95 {
            kname = "get_graph_name";
            let g = h.pick_graph(c, !bad).unwrap();
            let r = ctx.get_graph_name(g.graph.clone());
            call = format!("GetGraphName {}", gh(&g, c));
            match r {
                Ok(s) => { outc = format!("(OOk (RName (Some {})))", coq_string(&s)); ok = true; }
                Err(e) => { outc = format!("(OErr {})", classify(kname, &e.to_string())); ok = false; }
            }
        } else if kind < 97 {
            kname = "get_node_name";
            let n = match h.pick_node(c, None, !bad) { Some(n) => n, None => continue };
            let r = ctx.get_node_name(n.node.clone());
            call = format!("GetNodeName {}", nh(&n, c));
            match r {
                Ok(s) => { outc = format!("(OOk (RName {}))", opt(&s, |x| coq_string(x))); ok = true; }
                Err(e) => { outc = format!("(OErr {})", classify(kname, &e.to_string())); ok = false; }
            }
        } else if kind < 98 {
            kname = "retrieve_graph";
            let nm = h.name();
            let r = ctx.retrieve_graph(&nm);
            call = format!("RetrieveGraph {}", coq_string(&nm));
            match r {
                Ok(g) => { outc = format!("(OOk (RId {}))", g.get_id()); ok = true; }
                Err(e) => { outc = format!("(OErr {})", classify(kname, &e.to_string())); ok = false; }
            }
        } else {
            kname = "retrieve_node";
            let g = h.pick_graph(c, !bad).unwrap();
            let nm = h.name();
            let r = ctx.retrieve_node(g.graph.clone(), &nm);
            call = format!("RetrieveNode {} {}", gh(&g, c), coq_string(&nm));
            match r {
                Ok(n) => { outc = format!("(OOk (RId {}))", n.get_id()); ok = true; }
                Err(e) => { outc = format!("(OErr {})", classify(kname, &e.to_string())); ok = false; }
            }
        }
        out.stat(&format!("{}call:{}:{}", stats_prefix, kname, if ok { "Ok" } else { "Err" }));
        if !ok {
            h.rejected += 1;
        }
        // ---- observation + native oracle ------------------------------------------------
        for k in 0..nctx {
            let o = observe_ctx(&h.w.ctxs[k], tags, &h.w.orphans[k], &POOL);
            if k == c {
                if !ok && o != h.last_obs[k] {
                    h.viol.push(("err-changes-context".into(), format!("{} returned {} but the observation of its context changed", call, outc)));
                } else {
                    out.oracle_ok();
                }
                h.calls[k].push(call.clone());
                // an unchanged observation is printed as None (the model does the same comparison)
                let shown = if o == h.last_obs[k] { "None".to_string() } else { format!("(Some {})", o.delta(&h.last_obs[k])) };
                h.steps[k].push(format!("({}, {})", outc, shown));
            } else if o != h.last_obs[k] {
                h.viol.push(("call-changes-other-context".into(), format!("{} on context {} changed context {}", call, c, k)));
            }
            h.last_obs[k] = o;
            match check_invariants(&h.w.ctxs[k], &h.w.orphans[k]) {
                Ok(()) => out.oracle_ok(),
                Err(m) => h.viol.push(("invariant-broken".into(), format!("after {}: {}", call, m))),
            }
        }
    }
}

/// A random history for other properties (C12): returns the contexts and, per context, the
/// Gallina call list that rebuilds its model state.
pub fn random_history(rng: &mut Rng, ncalls: usize, nctx: usize, closing: bool, tags: &mut Tags, out: &mut Out, stats_prefix: &str) -> (Vec<Context>, Vec<Vec<String>>) {
    let mut h = History {
        rng: rng.fork(),
        w: World { ctxs: (0..nctx).map(|_| create_context().unwrap()).collect(), orphans: vec![HashSet::new(); nctx] },
        graphs: vec![],
        nodes: vec![],
        calls: vec![vec![]; nctx],
        steps: vec![vec![]; nctx],
        last_obs: vec![],
        rejected: 0,
        viol: vec![],
        closing_at: if closing { Some(ncalls * 6 / 10) } else { None },
        no_supplied: true,
        finalized: HashSet::new(),
    };
    run_history(&mut h, ncalls, tags, out, stats_prefix);
    (h.w.ctxs.clone(), h.calls.clone())
}

pub fn run(tier: &str, seed: u64, out: &mut Out) {
    let mut rng = Rng::new(seed ^ 0xC11);
    let nhist = match tier { "thorough" => 1500, "search" => 4000, _ => 90 };
    let mut tags = Tags::new();
    for hi in 0..nhist {
        let nctx = if rng.chance(1, 3) { 2 } else { 1 };
        let quick = tier == "quick";
        let ncalls = match rng.below(40) {
            0 if !quick || hi % 50 == 7 => 200,
            1 | 2 | 3 => if quick { 50 + rng.below(40) as usize } else { 80 + rng.below(60) as usize },
            4..=16 => if quick { 20 + rng.below(30) as usize } else { 30 + rng.below(40) as usize },
            _ => 5 + rng.below(25) as usize,
        };
        let mut h = History {
            rng: rng.fork(),
            w: World { ctxs: (0..nctx).map(|_| create_context().unwrap()).collect(), orphans: vec![HashSet::new(); nctx] },
            graphs: vec![],
            nodes: vec![],
            calls: vec![vec![]; nctx],
            steps: vec![vec![]; nctx],
            last_obs: vec![],
            rejected: 0,
            viol: vec![],
            closing_at: if rng.chance(2, 5) { Some(ncalls * (3 + rng.below(5) as usize) / 10) } else { None },
            // every third history never supplies a type, so that all stored types are inferred ones
            no_supplied: hi % 3 == 0,
            finalized: HashSet::new(),
        };
        run_history(&mut h, ncalls, &mut tags, out, "");
        out.stat(&format!("contexts:{}", nctx));
        out.stat(&format!("history_len:{}", match ncalls { 0..=29 => "5-29", 30..=79 => "30-79", 80..=199 => "80-199", _ => "200" }));
        let total_nodes: u64 = h.w.ctxs.iter().map(|c| c.get_graphs().iter().map(|g| g.get_num_nodes()).sum::<u64>()).sum();
        out.stat(&format!("final_nodes:{}", match total_nodes { 0..=4 => "0-4", 5..=19 => "5-19", 20..=49 => "20-49", _ => "50+" }));
        out.stat_n("rejected_calls", h.rejected as u64);
        let input = json!({"history": hi, "contexts": nctx, "calls": ncalls, "rejected": h.rejected,
            "first_calls": h.calls[0].iter().take(8).collect::<Vec<_>>() });
        if tier != "search" {
            for c in 0..nctx {
                if h.calls[c].is_empty() {
                    continue;
                }
                out.case(
                    "history",
                    format!("(trace {} init [{}])%N", lst(&POOL, |s| coq_string(s)), h.calls[c].join("; ")),
                    format!("[{}]%N", h.steps[c].join("; ")),
                    input.clone(),
                    h.rejected > 0,
                );
            }
        }
        // reload oracle: every stored node type must be the one type inference re-derives when the
        // context is rebuilt from its serialized form (catches stale entries of the type cache)
        for c in h.w.ctxs.iter().filter(|_| h.no_supplied) {
            if let Ok(text) = serde_json::to_string(c) {
                if let Ok(c2) = serde_json::from_str::<Context>(&text) {
                    'outer: for (g1, g2) in c.get_graphs().iter().zip(c2.get_graphs().iter()) {
                        for (n1, n2) in g1.get_nodes().iter().zip(g2.get_nodes().iter()) {
                            if let (Ok(t1), Ok(t2)) = (n1.get_type(), n2.get_type()) {
                                if t1 != t2 {
                                    h.viol.push(("stored-type-differs-from-reinferred".to_string(), format!("node ({},{}) {}: stored {} but a reload infers {}", g1.get_id(), n1.get_id(), n1.get_operation(), t1, t2)));
                                    break 'outer;
                                }
                            }
                        }
                    }
                    out.oracle_ok();
                }
            }
        }
        let mut seen = HashSet::new();
        for (class, detail) in h.viol.iter() {
            if seen.insert(class.clone()) {
                out.violation(class, json!({"history": hi, "seed": seed, "contexts": nctx, "calls": h.calls}), detail.clone());
            }
        }
    }
    out.stat_n("distinct_ops", tags.ops.len() as u64);
    out.stat_n("distinct_types", tags.tys.len() as u64);
}

//! Shared generators: scalar types, boundary values, shapes, type trees.
use crate::rng::Rng;
use ciphercore_base::data_types::*;

pub const ALL_ST: [ScalarType; 11] = [
    BIT, UINT8, INT8, UINT16, INT16, UINT32, INT32, UINT64, INT64, UINT128, INT128,
];

pub fn width(st: ScalarType) -> u32 {
    st.size_in_bits() as u32
}

/// Mathematical integer in [-2^127, 2^128): either fits i128 or is a large u128.
#[derive(Clone, Copy, Debug, PartialEq)]
pub enum Int {
    I(i128),
    U(u128),
}
impl Int {
    pub fn coq(&self) -> String {
        match self {
            Int::I(x) => crate::coqfmt::z_i128(*x),
            Int::U(x) => crate::coqfmt::z_u128(*x),
        }
    }
    /// value mod 2^128 as u128 (independent of the crate under test)
    pub fn wrap128(&self) -> u128 {
        match self {
            Int::I(x) => *x as u128,
            Int::U(x) => *x,
        }
    }
}

/// Boundary-heavy element for scalar type `st` (not necessarily in range: writers reduce mod 2^w).
pub fn boundary_i128(st: ScalarType, rng: &mut Rng) -> i128 {
    let w = width(st);
    let half: i128 = if w >= 128 { i128::MAX } else { 1i128 << (w - 1) };
    let full: i128 = if w >= 127 { i128::MAX } else { 1i128 << w };
    let pool: [i128; 22] = [
        0,
        1,
        -1,
        2,
        -2,
        half,
        half.wrapping_sub(1),
        half.wrapping_add(1),
        -half,
        (-half).wrapping_sub(1),
        (-half).wrapping_add(1),
        full,
        full.wrapping_sub(1),
        full.wrapping_add(1),
        (1i128 << 64) - 1,
        1i128 << 64,
        (1i128 << 64) + 1,
        1i128 << 100,
        i128::MAX,
        i128::MIN,
        0x5555_5555_5555_5555_5555_5555_5555_5555,
        -0x5555_5555_5555_5555_5555_5555_5555_5556,
    ];
    if rng.chance(3, 5) {
        *rng.pick(&pool)
    } else {
        let r = rng.u128() as i128;
        match rng.below(4) {
            0 => r,
            1 => r >> 64,
            2 => r >> 96,
            _ => r >> 120,
        }
    }
}

/// Element inside the type's range (signed types: two's complement range).
pub fn in_range_i128(st: ScalarType, rng: &mut Rng) -> Int {
    let w = width(st);
    let raw = boundary_i128(st, rng) as u128;
    let m = if w == 128 { raw } else { raw & ((1u128 << w) - 1) };
    if st.is_signed() {
        // sign-extend from w bits
        let x = if w == 128 {
            m as i128
        } else if (m >> (w - 1)) & 1 == 1 {
            (m as i128) - (1i128 << w)
        } else {
            m as i128
        };
        Int::I(x)
    } else if m > i128::MAX as u128 {
        Int::U(m)
    } else {
        Int::I(m as i128)
    }
}

pub const SHAPES: [&[u64]; 12] = [
    &[1],
    &[2],
    &[3],
    &[5],
    &[1, 3],
    &[3, 1],
    &[2, 3],
    &[2, 1, 3],
    &[2, 2, 2],
    &[1, 1],
    &[4, 2],
    &[2, 1, 2, 2],
];

pub fn random_shape(rng: &mut Rng) -> Vec<u64> {
    rng.pick(&SHAPES).to_vec()
}

pub fn random_type(rng: &mut Rng, depth: u32) -> Type {
    let k = if depth == 0 { rng.below(2) } else { rng.below(6) };
    match k {
        0 => scalar_type(*rng.pick(&ALL_ST)),
        1 => array_type(random_shape(rng), *rng.pick(&ALL_ST)),
        2 => vector_type(rng.below(4), random_type(rng, depth - 1)),
        3 => {
            let n = rng.below(4);
            tuple_type((0..n).map(|_| random_type(rng, depth - 1)).collect())
        }
        4 => {
            let n = rng.below(4);
            named_tuple_type(
                (0..n)
                    .map(|i| (format!("f{}", i), random_type(rng, depth - 1)))
                    .collect(),
            )
        }
        _ => array_type(vec![1 + rng.below(20)], BIT),
    }
}

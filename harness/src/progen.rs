//! Typed random program generator shared by the graph-level properties.
//! Builds a graph bottom-up from a typed pool; every add_node attempt (accepted or rejected)
//! is logged so that type-inference correspondence can use the rejections.
use crate::coqfmt::*;
use crate::gen::*;
use crate::rng::Rng;
use ciphercore_base::data_types::*;
use ciphercore_base::data_values::Value;
use ciphercore_base::graphs::*;

pub fn gen_value(t: &Type, rng: &mut Rng) -> Value {
    match t {
        Type::Scalar(st) => gen_leaf(*st, 1, rng),
        Type::Array(sh, st) => gen_leaf(*st, sh.iter().product::<u64>() as usize, rng),
        Type::Vector(n, et) => Value::from_vector((0..*n).map(|_| gen_value(et, rng)).collect()),
        Type::Tuple(ts) => Value::from_vector(ts.iter().map(|t| gen_value(t, rng)).collect()),
        Type::NamedTuple(fs) => Value::from_vector(fs.iter().map(|(_, t)| gen_value(t, rng)).collect()),
    }
}
fn gen_leaf(st: ScalarType, n: usize, rng: &mut Rng) -> Value {
    if st == BIT {
        let xs: Vec<u8> = (0..n).map(|_| rng.below(2) as u8).collect();
        return Value::from_flattened_array(&xs, st).unwrap();
    }
    let xs: Vec<u128> = (0..n).map(|_| in_range_i128(st, rng).wrap128()).collect();
    Value::from_flattened_array(&xs, st).unwrap()
}

#[derive(Clone)]
pub struct Attempt {
    pub op: Operation,
    pub dep_types: Vec<Type>,
    pub result: Outcome<Type>,
}

pub struct Prog {
    pub ctx: Context,
    pub g: Graph,
    pub input_types: Vec<Type>,
    pub attempts: Vec<Attempt>,
}

#[derive(Clone)]
pub struct GenCfg {
    pub n_inputs: usize,
    pub n_ops: usize,
    pub scalar_types: Vec<ScalarType>,
    /// which operation families may be generated
    pub ops: Vec<&'static str>,
    pub small: bool,
}

pub const ALL_OPS: [&str; 36] = [
    "add", "sub", "mul", "mixed", "dot", "matmul", "gemm", "truncate", "sum", "cumsum", "permute",
    "get", "getslice", "reshape", "nop", "stack", "concat", "constant", "zeros", "ones", "a2b", "b2a",
    "tuple", "named", "vector", "tupleget", "namedget", "vectorget", "zip", "repeat", "a2v", "v2a",
    "gather", "invperm", "applyperm", "segcumsum",
];

fn arrays<'a>(pool: &'a [Node]) -> Vec<&'a Node> {
    pool.iter().filter(|n| n.get_type().map(|t| t.is_array()).unwrap_or(false)).collect()
}
fn leaves<'a>(pool: &'a [Node]) -> Vec<&'a Node> {
    pool.iter().filter(|n| n.get_type().map(|t| t.is_array() || t.is_scalar()).unwrap_or(false)).collect()
}

pub fn small_shape(rng: &mut Rng) -> Vec<u64> {
    const S: [&[u64]; 10] = [&[1], &[2], &[3], &[1, 2], &[2, 1], &[2, 3], &[3, 2], &[2, 2], &[2, 1, 2], &[1, 2, 2]];
    rng.pick(&S).to_vec()
}

impl Prog {
    fn try_add(&mut self, deps: Vec<Node>, op: Operation, pool: &mut Vec<Node>) -> Option<Node> {
        let dep_types: Vec<Type> = deps.iter().map(|d| d.get_type().unwrap()).collect();
        let g = self.g.clone();
        let op2 = op.clone();
        let r = observe(move || g.add_node(deps, vec![], op2));
        let res = match &r {
            Outcome::Ok(n) => Outcome::Ok(n.get_type().unwrap()),
            Outcome::Err => Outcome::Err,
            Outcome::Panic => Outcome::Panic,
        };
        self.attempts.push(Attempt { op, dep_types, result: res });
        if let Outcome::Ok(n) = r {
            pool.push(n.clone());
            Some(n)
        } else {
            None
        }
    }
}

/// Generates a finalized context with one main graph; the output is a tuple of (up to 4) late nodes
/// so that most of the graph is live.
pub fn gen_program(rng: &mut Rng, cfg: &GenCfg) -> Prog {
    gen_program_impl(rng, cfg, false)
}
/// Same generator, but the output is the last array/scalar node (no wrapping tuple).
pub fn gen_program_single_output(rng: &mut Rng, cfg: &GenCfg) -> Prog {
    gen_program_impl(rng, cfg, true)
}
fn gen_program_impl(rng: &mut Rng, cfg: &GenCfg, single: bool) -> Prog {
    let ctx = create_context().unwrap();
    let g = ctx.create_graph().unwrap();
    let mut p = Prog { ctx: ctx.clone(), g: g.clone(), input_types: vec![], attempts: vec![] };
    let mut pool: Vec<Node> = vec![];
    let main_st = *rng.pick(&cfg.scalar_types);
    for _ in 0..cfg.n_inputs {
        let st = if rng.chance(3, 4) { main_st } else { *rng.pick(&cfg.scalar_types) };
        let t = if rng.chance(1, 6) { scalar_type(st) } else { array_type(if cfg.small { small_shape(rng) } else { random_shape(rng) }, st) };
        let n = g.input(t.clone()).unwrap();
        p.input_types.push(t);
        pool.push(n);
    }
    let mut added = 0;
    let mut tries = 0;
    while added < cfg.n_ops && tries < cfg.n_ops * 12 {
        tries += 1;
        let opname = *rng.pick(&cfg.ops);
        let lv = leaves(&pool);
        let ar = arrays(&pool);
        let pick_leaf = |rng: &mut Rng| -> Option<Node> { if lv.is_empty() { None } else { Some((*rng.pick(&lv)).clone()) } };
        let pick_arr = |rng: &mut Rng| -> Option<Node> { if ar.is_empty() { None } else { Some((*rng.pick(&ar)).clone()) } };
        let same_st = |a: &Node, rng: &mut Rng| -> Option<Node> {
            let st = a.get_type().unwrap().get_scalar_type();
            let c: Vec<&&Node> = lv.iter().filter(|n| n.get_type().unwrap().get_scalar_type() == st).collect();
            if c.is_empty() || rng.chance(1, 12) { pick_leaf(rng) } else { Some((**rng.pick(&c)).clone()) }
        };
        let (deps, op): (Vec<Node>, Operation) = match opname {
            "add" | "sub" | "mul" => {
                let a = match pick_leaf(rng) { Some(a) => a, None => continue };
                let b = match same_st(&a, rng) { Some(b) => b, None => continue };
                (vec![a, b], match opname { "add" => Operation::Add, "sub" => Operation::Subtract, _ => Operation::Multiply })
            }
            "mixed" => {
                let a = match pick_leaf(rng) { Some(a) => a, None => continue };
                let bits: Vec<&&Node> = lv.iter().filter(|n| n.get_type().unwrap().get_scalar_type() == BIT).collect();
                let b = if bits.is_empty() { match pick_leaf(rng) { Some(b) => b, None => continue } } else { (**rng.pick(&bits)).clone() };
                (vec![a, b], Operation::MixedMultiply)
            }
            "dot" | "matmul" | "gemm" => {
                let a = match pick_leaf(rng) { Some(a) => a, None => continue };
                let b = match same_st(&a, rng) { Some(b) => b, None => continue };
                let op = match opname { "dot" => Operation::Dot, "matmul" => Operation::Matmul, _ => Operation::Gemm(rng.chance(1, 2), rng.chance(1, 2)) };
                (vec![a, b], op)
            }
            "truncate" => {
                let a = match pick_leaf(rng) { Some(a) => a, None => continue };
                // powers of two stay within the documented range k <= w-2 of the secure protocol
                let w = a.get_type().unwrap().get_scalar_type().size_in_bits();
                let kmax = if w > 2 { std::cmp::min(w - 2, 20) } else { 1 };
                let scale: u128 = match rng.below(5) { 0 => 1, 1 => 2, 2 => 3, 3 => 1u128 << (1 + rng.below(kmax)), _ => 1 + rng.below(1000) as u128 };
                (vec![a], Operation::Truncate(scale))
            }
            "sum" => {
                let a = match pick_arr(rng) { Some(a) => a, None => continue };
                let r = a.get_type().unwrap().get_shape().len() as u64;
                let mut axes: Vec<u64> = (0..r).filter(|_| rng.chance(1, 2)).collect();
                if rng.chance(1, 15) { axes.push(r + rng.below(2)); }
                if rng.chance(1, 2) { rng.shuffle(&mut axes); }
                (vec![a], Operation::Sum(axes))
            }
            "cumsum" => {
                let a = match pick_arr(rng) { Some(a) => a, None => continue };
                let r = a.get_type().unwrap().get_shape().len() as u64;
                { let extra = if rng.chance(1, 10) { 1 } else { 0 }; (vec![a], Operation::CumSum(rng.below(r + extra))) }
            }
            "permute" => {
                let a = match pick_arr(rng) { Some(a) => a, None => continue };
                let r = a.get_type().unwrap().get_shape().len() as u64;
                let mut perm: Vec<u64> = (0..r).collect();
                rng.shuffle(&mut perm);
                if rng.chance(1, 15) && r > 0 { perm[0] = r; }
                (vec![a], Operation::PermuteAxes(perm))
            }
            "get" => {
                let a = match pick_arr(rng) { Some(a) => a, None => continue };
                let sh = a.get_type().unwrap().get_shape();
                let k = 1 + rng.below(sh.len() as u64) as usize;
                let idx: Vec<u64> = (0..k).map(|i| if rng.chance(1, 15) { sh[i] } else { rng.below(sh[i]) }).collect();
                (vec![a], Operation::Get(idx))
            }
            "getslice" => {
                let a = match pick_arr(rng) { Some(a) => a, None => continue };
                let sh = a.get_type().unwrap().get_shape();
                let k = rng.below(sh.len() as u64 + 1) as usize;
                let mut sl = vec![];
                let mut used_ellipsis = false;
                for i in 0..k {
                    let d = sh[i] as i64;
                    let e = match rng.below(6) {
                        0 => SliceElement::SingleIndex(rng.range(-d, d - 1)),
                        1 => SliceElement::SubArray(None, None, Some(if rng.chance(1, 2) { -1 } else { 1 })),
                        2 => SliceElement::SubArray(Some(rng.range(-d, d - 1)), None, None),
                        3 => SliceElement::SubArray(Some(rng.range(0, d - 1)), Some(rng.range(0, d)), Some(rng.range(1, 2))),
                        4 => SliceElement::SubArray(Some(rng.range(-d, d - 1)), Some(rng.range(-d - 1, d)), Some(*rng.pick(&[-2i64, -1, 1, 2, 3]))),
                        _ => { if !used_ellipsis { used_ellipsis = true; SliceElement::Ellipsis } else { SliceElement::SubArray(None, None, None) } }
                    };
                    sl.push(e);
                }
                (vec![a], Operation::GetSlice(sl))
            }
            "reshape" => {
                let a = match pick_arr(rng) { Some(a) => a, None => continue };
                let t = a.get_type().unwrap();
                let n: u64 = t.get_shape().iter().product();
                let mut cands: Vec<Vec<u64>> = vec![vec![n]];
                for d in 1..=n { if n % d == 0 { cands.push(vec![d, n / d]); if (n / d) % 2 == 0 { cands.push(vec![d, 2, n / d / 2]); } } }
                let sh = rng.pick(&cands).clone();
                (vec![a], Operation::Reshape(array_type(sh, t.get_scalar_type())))
            }
            "nop" => { let a = match pick_leaf(rng) { Some(a) => a, None => continue }; (vec![a], Operation::NOP) }
            "stack" => {
                let a = match pick_leaf(rng) { Some(a) => a, None => continue };
                let k = 1 + rng.below(3) as usize;
                let mut deps = vec![a.clone()];
                for _ in 1..k { deps.push(match same_st(&a, rng) { Some(b) => b, None => a.clone() }); }
                let outer = if rng.chance(1, 4) && k % 2 == 0 { vec![2, (k / 2) as u64] } else { vec![k as u64] };
                (deps, Operation::Stack(outer))
            }
            "concat" => {
                let a = match pick_arr(rng) { Some(a) => a, None => continue };
                let k = 1 + rng.below(3) as usize;
                let mut deps = vec![a.clone()];
                let sh = a.get_type().unwrap().get_shape();
                for _ in 1..k {
                    let c: Vec<&&Node> = ar.iter().filter(|n| { let t = n.get_type().unwrap(); t.get_scalar_type() == a.get_type().unwrap().get_scalar_type() && t.get_shape().len() == sh.len() }).collect();
                    deps.push(if c.is_empty() { a.clone() } else { (**rng.pick(&c)).clone() });
                }
                (deps, Operation::Concatenate(rng.below(sh.len() as u64)))
            }
            "constant" => {
                let st = if rng.chance(2, 3) { main_st } else { *rng.pick(&cfg.scalar_types) };
                let t = if rng.chance(1, 3) { scalar_type(st) } else { array_type(small_shape(rng), st) };
                let v = gen_value(&t, rng);
                (vec![], Operation::Constant(t, v))
            }
            "zeros" | "ones" => {
                let st = if rng.chance(2, 3) { main_st } else { *rng.pick(&cfg.scalar_types) };
                let t = match rng.below(4) { 0 => scalar_type(st), 1 => tuple_type(vec![scalar_type(st), array_type(vec![2], BIT)]), _ => array_type(small_shape(rng), st) };
                (vec![], if opname == "zeros" { Operation::Zeros(t) } else { Operation::Ones(t) })
            }
            "a2b" => {
                let c: Vec<&&Node> = lv.iter().filter(|n| n.get_type().unwrap().get_scalar_type() != BIT).collect();
                let a = if c.is_empty() || rng.chance(1, 15) { match pick_leaf(rng) { Some(a) => a, None => continue } } else { (**rng.pick(&c)).clone() };
                (vec![a], Operation::A2B)
            }
            "b2a" => {
                let c: Vec<&&Node> = ar.iter().filter(|n| { let t = n.get_type().unwrap(); t.get_scalar_type() == BIT && [8u64, 16, 32, 64, 128].contains(t.get_shape().last().unwrap()) }).collect();
                let a = if c.is_empty() { match pick_arr(rng) { Some(a) => a, None => continue } } else { (**rng.pick(&c)).clone() };
                let w = *a.get_type().unwrap().get_shape().last().unwrap();
                let signed = rng.chance(1, 2);
                let st = match (w, signed) { (8, false) => UINT8, (8, true) => INT8, (16, false) => UINT16, (16, true) => INT16, (32, false) => UINT32, (32, true) => INT32, (64, false) => UINT64, (64, true) => INT64, (128, false) => UINT128, (128, true) => INT128, _ => *rng.pick(&cfg.scalar_types) };
                (vec![a], Operation::B2A(st))
            }
            "tuple" => {
                let k = rng.below(4) as usize;
                let deps: Vec<Node> = (0..k).map(|_| rng.pick(&pool).clone()).collect();
                (deps, Operation::CreateTuple)
            }
            "named" => {
                let k = 1 + rng.below(3) as usize;
                let deps: Vec<Node> = (0..k).map(|_| rng.pick(&pool).clone()).collect();
                let mut names: Vec<String> = (0..k).map(|i| format!("f{}", i)).collect();
                if rng.chance(1, 15) && k > 1 { names[1] = names[0].clone(); }
                (deps, Operation::CreateNamedTuple(names))
            }
            "vector" => {
                let a = rng.pick(&pool).clone();
                let t = a.get_type().unwrap();
                let c: Vec<&Node> = pool.iter().filter(|n| n.get_type().unwrap() == t).collect();
                let k = rng.below(4) as usize;
                let deps: Vec<Node> = (0..k).map(|_| (*rng.pick(&c)).clone()).collect();
                (deps, Operation::CreateVector(t))
            }
            "tupleget" => {
                let c: Vec<&Node> = pool.iter().filter(|n| n.get_type().unwrap().is_tuple()).collect();
                if c.is_empty() { continue; }
                let a = (*rng.pick(&c)).clone();
                let k = if let Type::Tuple(ts) = a.get_type().unwrap() { ts.len() as u64 } else { 0 };
                (vec![a], Operation::TupleGet(rng.below(k + 1)))
            }
            "namedget" => {
                let c: Vec<&Node> = pool.iter().filter(|n| n.get_type().unwrap().is_named_tuple()).collect();
                if c.is_empty() { continue; }
                let a = (*rng.pick(&c)).clone();
                let k = if let Type::NamedTuple(ts) = a.get_type().unwrap() { ts.len() as u64 } else { 0 };
                (vec![a], Operation::NamedTupleGet(format!("f{}", rng.below(k + 1))))
            }
            "vectorget" => {
                let c: Vec<&Node> = pool.iter().filter(|n| n.get_type().unwrap().is_vector()).collect();
                if c.is_empty() { continue; }
                let a = (*rng.pick(&c)).clone();
                let k = if let Type::Vector(k, _) = a.get_type().unwrap() { k } else { 0 };
                let idx_t = scalar_type(if rng.chance(4, 5) { UINT64 } else { *rng.pick(&cfg.scalar_types) });
                                // (indices near 2^64, which meta_operation_optimizer.rs casts to i64, are mirrored by
                // Model/Opt.v but not generated: the executable model converts indices to unary
                // naturals in znth and cannot be run on them)
                let iv: u64 = rng.below(k + 1);
                let idx = Value::from_scalar(iv, idx_t.get_scalar_type()).unwrap_or(Value::from_scalar(0, idx_t.get_scalar_type()).unwrap());
                let i = match p.try_add(vec![], Operation::Constant(idx_t, idx), &mut pool) { Some(i) => i, None => continue };
                (vec![a, i], Operation::VectorGet)
            }
            "zip" => {
                let c: Vec<&Node> = pool.iter().filter(|n| n.get_type().unwrap().is_vector()).collect();
                if c.is_empty() { continue; }
                let k = 1 + rng.below(3) as usize;
                let deps: Vec<Node> = (0..k).map(|_| (*rng.pick(&c)).clone()).collect();
                (deps, Operation::Zip)
            }
            "repeat" => { let a = rng.pick(&pool).clone(); (vec![a], Operation::Repeat(rng.below(4))) }
            "a2v" => { let a = match pick_arr(rng) { Some(a) => a, None => continue }; (vec![a], Operation::ArrayToVector) }
            "v2a" => {
                let c: Vec<&Node> = pool.iter().filter(|n| n.get_type().unwrap().is_vector()).collect();
                if c.is_empty() { continue; }
                (vec![(*rng.pick(&c)).clone()], Operation::VectorToArray)
            }
            "gather" | "applyperm" | "invperm" => {
                let a = match pick_arr(rng) { Some(a) => a, None => continue };
                let sh = a.get_type().unwrap().get_shape();
                let axis = if opname == "gather" { rng.below(sh.len() as u64) } else { 0 };
                let n = sh[axis as usize];
                let mut perm: Vec<u64> = (0..n).collect();
                rng.shuffle(&mut perm);
                if opname == "gather" { perm.truncate(1 + rng.below(n) as usize); }
                if rng.chance(1, 8) && !perm.is_empty() { let l = perm.len(); perm[0] = perm[l - 1]; }
                if rng.chance(1, 12) && !perm.is_empty() { perm[0] = n + rng.below(3); }
                let it = array_type(vec![perm.len() as u64], UINT64);
                let iv = Value::from_flattened_array(&perm, UINT64).unwrap();
                let i = match p.try_add(vec![], Operation::Constant(it, iv), &mut pool) { Some(i) => i, None => continue };
                match opname {
                    "gather" => (vec![a, i], Operation::Gather(axis)),
                    "applyperm" => (vec![a, i], Operation::ApplyPermutation(rng.chance(1, 2))),
                    _ => (vec![i], Operation::InversePermutation),
                }
            }
            "segcumsum" => {
                let a = match pick_arr(rng) { Some(a) => a, None => continue };
                let t = a.get_type().unwrap();
                let sh = t.get_shape();
                let n = sh[0];
                let bt = array_type(vec![n], BIT);
                let bv = gen_value(&bt, rng);
                let b = match p.try_add(vec![], Operation::Constant(bt, bv), &mut pool) { Some(b) => b, None => continue };
                let ft = if sh.len() == 1 { scalar_type(t.get_scalar_type()) } else { array_type(sh[1..].to_vec(), t.get_scalar_type()) };
                let fv = gen_value(&ft, rng);
                let f = match p.try_add(vec![], Operation::Constant(ft, fv), &mut pool) { Some(f) => f, None => continue };
                (vec![a, b, f], Operation::SegmentCumSum)
            }
            "random" => {
                let st = *rng.pick(&cfg.scalar_types);
                (vec![], Operation::Random(array_type(small_shape(rng), st)))
            }
            "prf" => {
                // key: a Random 128-bit key, or (1/3) a constant key
                let kt = array_type(vec![128], BIT);
                let keys: Vec<&Node> = pool.iter().filter(|n| n.get_type().unwrap() == kt).collect();
                let key = if !keys.is_empty() && rng.chance(1, 2) { (*rng.pick(&keys)).clone() } else if rng.chance(1, 3) {
                    let kv = gen_value(&kt, rng);
                    match p.try_add(vec![], Operation::Constant(kt.clone(), kv), &mut pool) { Some(k) => k, None => continue }
                } else {
                    match p.try_add(vec![], Operation::Random(kt.clone()), &mut pool) { Some(k) => k, None => continue }
                };
                let st = *rng.pick(&cfg.scalar_types);
                let iv = rng.below(3);
                if rng.chance(1, 5) { (vec![key], Operation::PermutationFromPRF(iv, 1 + rng.below(5))) } else { (vec![key], Operation::PRF(iv, array_type(small_shape(rng), st))) }
            }
            "dup" => {
                // repeat an earlier operation with the same dependencies (a duplicate sub-expression)
                let c: Vec<&Node> = pool.iter().filter(|n| !n.get_operation().is_input()).collect();
                if c.is_empty() { continue; }
                let a = (*rng.pick(&c)).clone();
                // sometimes with the operands in the opposite order (only equal for symmetric operations)
                let mut deps = a.get_node_dependencies();
                if deps.len() == 2 && rng.chance(1, 3) { deps.reverse(); }
                (deps, a.get_operation())
            }
            "annot" => {
                let a = rng.pick(&pool).clone();
                let ann = match rng.below(4) { 0 => NodeAnnotation::Private, 1 => NodeAnnotation::Send(rng.below(3), rng.below(3)), 2 => NodeAnnotation::AssociativeOperation, _ => NodeAnnotation::Send(0, 1) };
                if rng.chance(1, 2) {
                    // annotated NOP on top of the node
                    if let Some(n) = p.try_add(vec![a], Operation::NOP, &mut pool) { let _ = n.add_annotation(ann); added += 1; }
                } else if !matches!(a.get_operation(), Operation::Constant(_, _)) {
                    let _ = a.add_annotation(ann);
                }
                continue;
            }
            _ => continue,
        };
        if p.try_add(deps, op, &mut pool).is_some() {
            added += 1;
        }
    }
    // output: tuple of late nodes
    let out = if single {
        let c: Vec<&Node> = pool.iter().rev().filter(|n| { let t = n.get_type().unwrap(); t.is_array() || t.is_scalar() }).collect();
        // prefer a late node that is not an input
        match c.iter().find(|n| !n.get_operation().is_input()) { Some(n) => (**n).clone(), None => (*c[0]).clone() }
    } else if rng.chance(1, 5) && pool.len() >= 3 {
        // an output node in the middle of the graph: later nodes may read it, or are dead code
        pool[rng.below(pool.len() as u64 - 1) as usize].clone()
    } else {
        let k = std::cmp::min(pool.len(), 1 + rng.below(4) as usize);
        let outs: Vec<Node> = pool.iter().rev().take(k).cloned().collect();
        g.create_tuple(outs).unwrap()
    };
    g.set_output_node(out).unwrap();
    g.finalize().unwrap();
    ctx.set_main_graph(g.clone()).unwrap();
    ctx.finalize().unwrap();
    p
}

pub fn op_name(op: &Operation) -> String {
    format!("{}", op)
}

//! C01 — compiled protocol computes the same function as the source graph.
//! (1) end-to-end oracle: compile_context output evaluated by one evaluator vs the source graph,
//!     over programs x owner vectors x output subsets x inline modes x seeds;
//! (2) T:ring obligations: for programs of the elementwise fragment the exported compiled graph
//!     and the source graph are read over an arbitrary commutative ring (Model/RingEval.v) and
//!     their equality is proved by `ring` inside Coq on every run: for all inputs, all PRF values.
use crate::c02::*;
use crate::coqfmt::*;
use crate::export::*;
use crate::gen::*;
use crate::mpcgen::*;
use crate::out::Out;
use crate::progen::*;
use crate::rng::Rng;
use ciphercore_base::data_types::*;
use ciphercore_base::data_values::Value;
use ciphercore_base::evaluators::evaluate_simple_evaluator;
use ciphercore_base::graphs::*;
use ciphercore_base::inline::inline_ops::InlineConfig;
use ciphercore_base::mpc::mpc_compiler::IOStatus;
use serde_json::json;

pub const HEADER: &str = "From Coq Require Import Ring.\nFrom CC Require Import Base.Prelude Base.Scalar Base.Ty Base.Shape Graph.Value Graph.IR Graph.Eval Model.RingEval Model.RingEvalInst Model.MpcCompile Model.RingEvalWf.";

/// the compiled graph's input values for an owner vector: Shared inputs are presented as shares
pub fn present_inputs(input_types: &[Type], owners: &[IOStatus], plain: &[Value], rng: &mut Rng) -> Vec<Value> {
    let mut res = vec![];
    for ((t, o), x) in input_types.iter().zip(owners.iter()).zip(plain.iter()) {
        match o {
            IOStatus::Shared => {
                let s0 = gen_value(t, rng);
                let s1 = gen_value(t, rng);
                let s2 = sub2_pub(x, &s0, &s1, t);
                res.push(Value::from_vector(vec![s0, s1, s2]));
            }
            _ => res.push(x.clone()),
        }
    }
    res
}

pub fn end_to_end(p: &Prog, owners: &[IOStatus], outs: &[IOStatus], mname: &str, mode: InlineConfig, rng: &mut Rng, out: &mut Out, n_eval: usize, gen_inputs: &dyn Fn(&mut Rng) -> Vec<Value>, class_prefix: &str) -> Option<Compiled> {
    let ops_desc: Vec<String> = p.g.get_nodes().iter().map(|n| op_name(&n.get_operation())).collect();
    let desc = json!({"ops": ops_desc, "input_types": p.input_types.iter().map(|t| format!("{}", t)).collect::<Vec<_>>(), "owners": owners.iter().map(status_str).collect::<Vec<_>>(), "outputs": outs.iter().map(status_str).collect::<Vec<_>>(), "inline": mname});
    let c = match compile(p, owners, outs, mode) { Outcome::Ok(c) => c, Outcome::Err => { out.stat("compile:Err"); return None; } Outcome::Panic => { out.stat("compile:Panic"); out.violation("compiler-panics", desc, "compile_context panicked".into()); return None; } };
    out.stat("compile:Ok");
    out.stat(&format!("inline:{}", mname));
    out.stat(&format!("outputs:{}", outs.len()));
    for o in owners { out.stat(&format!("owner:{}", status_str(o))); }
    let src_out = p.g.get_output_node().unwrap();
    let src_out_t = src_out.get_type().unwrap();
    let truncating = p.g.get_nodes().iter().any(|n| matches!(n.get_operation(), Operation::Truncate(_)));
    for _ in 0..n_eval {
        let plain = gen_inputs(rng);
        let pv = eval_all(&p.g, &plain, [5u8; 16]);
        let plain_out = match pv[src_out.get_id() as usize].clone().ok() { Some(v) => v, None => { out.stat("plain:Err"); continue; } };
        let cin = present_inputs(&p.input_types, owners, &plain, rng);
        let mut seed = [0u8; 16];
        for b in seed.iter_mut() { *b = rng.next() as u8; }
        let g2 = c.g.clone();
        let r = observe(|| evaluate_simple_evaluator(g2, cin, Some(seed)));
        out.stat(&format!("compiled-eval:{}", r.tag()));
        match r {
            Outcome::Ok(v) => {
                if truncating { out.stat("truncating-skipped-exact-compare"); continue; }
                let private_out = owners.iter().any(|o| *o != IOStatus::Public);
                let got = if outs.is_empty() && (src_out_t.is_array() || src_out_t.is_scalar()) {
                    // kept shared: three shares adding up to the value
                    match v.to_vector() { Ok(sh) if sh.len() == 3 => add3_pub(&sh[0], &sh[1], &sh[2], &src_out_t), _ => if private_out { None } else { Some(v.clone()) } }
                } else if outs.is_empty() { None } else { Some(v.clone()) };
                match got {
                    Some(g) => if g != plain_out { out.violation(&format!("{}-compiled-result-differs", class_prefix), desc.clone(), "compiled graph (single evaluator) returns a value different from the source graph".into()); } else { out.oracle_ok(); },
                    None => { out.stat("shared-nonarray-output-skipped"); }
                }
            }
            Outcome::Err => { if !ops_desc.iter().any(|o| o.starts_with("Join")) { out.violation(&format!("{}-compiled-graph-fails", class_prefix), desc.clone(), "compiled graph returns an error where the source evaluates".into()); } }
            Outcome::Panic => out.violation(&format!("{}-compiled-graph-panics", class_prefix), desc.clone(), "panic while evaluating the compiled graph".into()),
        }
    }
    Some(c)
}

/// elementwise programs over one shape: add / sub / mul, at most one constant
fn ring_program(rng: &mut Rng, st: ScalarType) -> Prog {
    let ctx = create_context().unwrap();
    let g = ctx.create_graph().unwrap();
    let shape = small_shape(rng);
    let t = array_type(shape, st);
    let ni = 1 + rng.below(3) as usize;
    let mut pool: Vec<Node> = (0..ni).map(|_| g.input(t.clone()).unwrap()).collect();
    if rng.chance(1, 2) { pool.push(g.constant(t.clone(), gen_value(&t, rng)).unwrap()); }
    if rng.chance(1, 6) { pool.push(g.zeros(t.clone()).unwrap()); }
    // every operation has at least one operand that depends on an input, so that constant folding
    // never rewrites a sub-expression into a new constant (which the ring reading cannot relate)
    let mut dep: Vec<Node> = pool[..ni].to_vec();
    let n_ops = 1 + rng.below(5);
    for _ in 0..n_ops {
        let a = rng.pick(&dep).clone();
        let b = rng.pick(&pool).clone();
        let (a, b) = if rng.chance(1, 2) { (a, b) } else { (b, a) };
        let n = match rng.below(4) { 0 => a.add(b), 1 => a.subtract(b), _ => a.multiply(b) }.unwrap();
        pool.push(n.clone());
        dep.push(n);
    }
    let o = pool.last().unwrap().clone();
    g.set_output_node(o).unwrap();
    g.finalize().unwrap();
    ctx.set_main_graph(g.clone()).unwrap();
    ctx.finalize().unwrap();
    Prog { ctx, g, input_types: vec![t; ni], attempts: vec![] }
}

/// two inputs of different but broadcastable shapes, a binary operation, then a shape-sensitive
/// share-wise operation: public/private mixing with broadcasting (where promotion of a public
/// operand to shares and the planner's rules interact)
pub fn broadcast_mix_program(rng: &mut Rng, st: ScalarType, variant: usize) -> Prog {
    let ctx = create_context().unwrap();
    let g = ctx.create_graph().unwrap();
    let (m, n) = (2 + rng.below(3), 2 + rng.below(2));
    let shapes: [(Vec<u64>, Vec<u64>); 6] = [
        (vec![1, n], vec![m, n]), (vec![m, n], vec![1, n]), (vec![n], vec![m, n]),
        (vec![m, 1], vec![m, n]), (vec![m, n], vec![n]), (vec![m, 1], vec![1, n]),
    ];
    let (sa, sb) = shapes[variant % 6].clone();
    let (ta, tb) = (array_type(sa, st), array_type(sb, st));
    let a = g.input(ta.clone()).unwrap();
    let b = g.input(tb.clone()).unwrap();
    let c = match (variant / 6) % 3 { 0 => a.subtract(b), 1 => a.add(b), _ => a.multiply(b) }.unwrap();
    let o = match (variant / 18) % 5 {
        0 => c.sum(vec![0]).unwrap(),
        1 => c.sum(vec![1]).unwrap(),
        2 => c.get(vec![0]).unwrap(),
        3 => c.cum_sum(0).unwrap(),
        _ => { let t = c.get_type().unwrap(); let k: u64 = t.get_shape().iter().product(); c.reshape(array_type(vec![k], st)).unwrap() }
    };
    g.set_output_node(o).unwrap();
    g.finalize().unwrap();
    ctx.set_main_graph(g.clone()).unwrap();
    ctx.finalize().unwrap();
    Prog { ctx, g, input_types: vec![ta, tb], attempts: vec![] }
}

/// both operand orders of a non-commutative product on the same two nodes (a de-duplication or
/// canonicalisation that identifies them changes the result), and of commutative ones as control
pub fn commutator_program(rng: &mut Rng, st: ScalarType, variant: usize) -> Prog {
    let ctx = create_context().unwrap();
    let g = ctx.create_graph().unwrap();
    let n = 2 + rng.below(2);
    let (ta, tb) = match variant % 6 {
        4 => (array_type(vec![n, n], st), array_type(vec![n], st)),
        _ => (array_type(vec![n, n], st), array_type(vec![n, n], st)),
    };
    let a = g.input(ta.clone()).unwrap();
    let b = g.input(tb.clone()).unwrap();
    let o = match variant % 6 {
        0 => a.dot(b.clone()).unwrap().subtract(b.dot(a).unwrap()).unwrap(),
        1 => a.matmul(b.clone()).unwrap().subtract(b.matmul(a).unwrap()).unwrap(),
        2 => a.gemm(b.clone(), false, true).unwrap().subtract(b.gemm(a, false, true).unwrap()).unwrap(),
        3 => a.multiply(b.clone()).unwrap().add(b.multiply(a).unwrap()).unwrap(),
        4 => a.dot(b.clone()).unwrap().subtract(b.dot(a).unwrap()).unwrap(),
        _ => a.subtract(b.clone()).unwrap().multiply(b.subtract(a).unwrap()).unwrap(),
    };
    g.set_output_node(o).unwrap();
    g.finalize().unwrap();
    ctx.set_main_graph(g.clone()).unwrap();
    ctx.finalize().unwrap();
    Prog { ctx, g, input_types: vec![ta, tb], attempts: vec![] }
}

/// running product of n 2x2 matrices as an Iterate with an associative, non-commutative body and
/// a per-step output (the depth-optimised inliner turns it into a prefix-product network)
pub fn iterate_matprod_program(n: u64, st: ScalarType) -> Prog {
    let ctx = create_context().unwrap();
    let mt = array_type(vec![2, 2], st);
    let body = ctx.create_graph().unwrap();
    let s = body.input(mt.clone()).unwrap();
    let x = body.input(mt.clone()).unwrap();
    let ns = s.matmul(x).unwrap();
    body.create_tuple(vec![ns.clone(), ns]).unwrap().set_as_output().unwrap();
    body.add_annotation(GraphAnnotation::AssociativeOperation).unwrap();
    body.finalize().unwrap();
    let g = ctx.create_graph().unwrap();
    let init = g.input(mt.clone()).unwrap();
    let items_t = array_type(vec![n, 2, 2], st);
    let items = g.input(items_t.clone()).unwrap();
    let r = g.iterate(body, init, items.array_to_vector().unwrap()).unwrap();
    let outs = r.tuple_get(1).unwrap().vector_to_array().unwrap();
    let fin = r.tuple_get(0).unwrap();
    let o = outs.sum(vec![0]).unwrap().add(fin).unwrap();
    g.set_output_node(o).unwrap();
    g.finalize().unwrap();
    ctx.set_main_graph(g.clone()).unwrap();
    ctx.finalize().unwrap();
    Prog { ctx, g, input_types: vec![mt, items_t], attempts: vec![] }
}

fn ring_obligation(id: usize, p: &Prog, c: &Compiled, owners: &[IOStatus], outs: &[IOStatus]) -> String {
    // quantified ring variables and the two input lists
    let mut vars = vec![];
    let mut src_ins = vec![];
    let mut cmp_ins = vec![];
    for (j, o) in owners.iter().enumerate() {
        match o {
            IOStatus::Shared => {
                let (a, b, cc) = (format!("s{}_0", j), format!("s{}_1", j), format!("s{}_2", j));
                vars.extend([a.clone(), b.clone(), cc.clone()]);
                src_ins.push(format!("RLeaf R (radd (radd {} {}) {})", a, b, cc));
                cmp_ins.push(format!("RTup R [RLeaf R {}; RLeaf R {}; RLeaf R {}]", a, b, cc));
            }
            _ => {
                let x = format!("x{}", j);
                vars.push(x.clone());
                src_ins.push(format!("RLeaf R {}", x));
                cmp_ins.push(format!("RLeaf R {}", x));
            }
        }
    }
    // with no output parties the result is always left shared (a public result is re-shared by party 0)
    let shared_out = outs.is_empty();
    let ev = "reval R r0 radd rmul rsub atom catom one";
    format!(
        "Section Case{id}.\n  Variable R : Type.\n  Variables (r0 r1 : R) (radd rmul rsub : R -> R -> R) (ropp : R -> R).\n  Hypothesis Rth : ring_theory r0 r1 radd rmul rsub ropp eq.\n  Add Ring Rr{id} : Rth.\n  Variables (atom : Z -> R) (catom : value -> R) (one : R).\n  Goal forall ({vars} : R), exists v,\n    rout R radd ({ev} {cn} [] [{ci}]) {co} {sh} = Some v /\\\n    rout R radd ({ev} {sn} [] [{si}]) {so} false = Some v.\n  Proof. intros. eexists. split; [cbv; reflexivity | cbv; f_equal; ring]. Qed.\nEnd Case{id}.\n",
        id = id, vars = vars.join(" "), ev = ev,
        cn = nodes_coq(&c.g), ci = cmp_ins.join("; "), co = c.g.get_output_node().unwrap().get_id(), sh = if shared_out { "true" } else { "false" },
        sn = nodes_coq(&p.g), si = src_ins.join("; "), so = p.g.get_output_node().unwrap().get_id()
    )
}

/// `ring-reading`: the ring reading instantiated at arrays modulo 2^w, run on the exported compiled
/// graph with the PRF values of a real evaluation, must reproduce every node value of that evaluation
fn ring_reading_case(p: &Prog, c: &Compiled, owners: &[IOStatus], st: ScalarType, rng: &mut Rng, out: &mut Out, desc: serde_json::Value) {
    let plain: Vec<Value> = p.input_types.iter().map(|t| gen_value(t, rng)).collect();
    let cin = present_inputs(&p.input_types, owners, &plain, rng);
    let mut seed = [0u8; 16];
    for b in seed.iter_mut() { *b = rng.next() as u8; }
    let vals = eval_all(&c.g, &cin, seed);
    if !vals.iter().all(|v| matches!(v, Outcome::Ok(_))) { out.stat("ring-reading:evaluation-failed"); return; }
    let in_types: Vec<Type> = c.g.get_nodes().iter().filter(|n| matches!(n.get_operation(), Operation::Input(_))).map(|n| n.get_type().unwrap()).collect();
    let ins: Vec<String> = cin.iter().zip(in_types.iter()).map(|(v, t)| value_coq(v, t)).collect();
    let observed: Vec<String> = vals.iter().zip(c.g.get_nodes().iter()).map(|(v, n)| if let Outcome::Ok(v) = v { value_coq(v, &n.get_type().unwrap()) } else { unreachable!() }).collect();
    let n: u64 = p.input_types[0].get_shape().iter().product();
    let w = scalar_size_in_bits(st);
    let lhs = format!("reading_mismatch {} {} {} {} [{}] [{}]", w, n, tape_coq(&c.g, &vals), nodes_coq(&c.g), ins.join("; "), observed.join("; "));
    out.case("ring-reading", lhs, "(-1)".into(), desc.clone(), true);
    // T:wf-ring-graph: the hypotheses of C01_ring_reading_agrees_with_eval (Model/RingEvalWf.v) hold for
    // this exported compiled graph and this tape, with the same w, n and input list as the case above
    let (t, nodes, tape) = (ty(&p.input_types[0]), nodes_coq(&c.g), tape_coq(&c.g, &vals));
    let lhs = format!(
        "wf_ring_graph {t} {nodes} && wf_ring_tape {t} {nodes} {tape} && eqb (tape_inputs {nodes} {tape}) [{ins}] && (ring_w {t} =? {w}) && (Z.of_nat (ring_n {t}) =? {n})",
        t = t, nodes = nodes, tape = tape, ins = ins.join("; "), w = w, n = n);
    out.case("T:wf-ring-graph", lhs, "true".into(), desc, true);
}

pub fn run(tier: &str, seed: u64, out: &mut Out) {
    let mut rng = Rng::new(seed ^ 0xC01);
    let (n_ring, n_frag, n_wide, n_special) = match tier { "thorough" => (150, 250, 250, 12), "search" => (100, 500, 500, 20), _ => (24, 30, 30, 2) };
    let modes = inline_modes();
    let all_outs = output_subsets();
    let int_sts = [UINT8, INT16, UINT32, INT32, UINT64, INT64, UINT128];
    // (2) + (1) on the ring fragment
    for i in 0..n_ring {
        let st = if i % 5 == 4 { BIT } else { *rng.pick(&int_sts) };
        let p = ring_program(&mut rng, st);
        let owners = random_owners(p.input_types.len(), &mut rng);
        let outs = all_outs[i % all_outs.len()].clone();
        let (mname, mode) = modes[i % 3].clone();
        let its = p.input_types.clone();
        if let Some(c) = end_to_end(&p, &owners, &outs, mname, mode, &mut rng, out, 2, &move |r: &mut Rng| its.iter().map(|t| gen_value(t, r)).collect(), "ring") {
            let ops_desc: Vec<String> = p.g.get_nodes().iter().map(|n| op_name(&n.get_operation())).collect();
            let desc = json!({"ops": ops_desc, "st": scalar(st), "owners": owners.iter().map(status_str).collect::<Vec<_>>(), "outputs": outs.iter().map(status_str).collect::<Vec<_>>(), "inline": mname, "compiled_nodes": c.g.get_nodes().len()});
            let private = owners.iter().any(|o| *o != IOStatus::Public);
            let desc2 = desc.clone();
            out.vernac_case("T:ring", ring_obligation(i, &p, &c, &owners, &outs), desc, private);
            ring_reading_case(&p, &c, &owners, st, &mut rng, out, desc2);
        }
    }
    // (1) fragment and wider programs
    for i in 0..(n_frag + n_wide) {
        let wide = i >= n_frag;
        let st = if i % 7 == 6 { BIT } else { *rng.pick(&int_sts) };
        let ops: Vec<&'static str> = if st == BIT { vec!["add", "mul", "mul", "stack", "get", "reshape", "constant", "sum"] } else if wide { MPC_OPS.to_vec() } else { FRAGMENT_OPS.to_vec() };
        let (ni, no) = (1 + rng.below(3) as usize, 1 + rng.below(7) as usize);
        let p = gen_mpc_program(&mut rng, &ops, ni, no, &[st]);
        let owners = random_owners(ni, &mut rng);
        let outs = all_outs[i % all_outs.len()].clone();
        let (mname, mode) = modes[i % 3].clone();
        let its = p.input_types.clone();
        end_to_end(&p, &owners, &outs, mname, mode, &mut rng, out, 2, &move |r: &mut Rng| its.iter().map(|t| gen_value(t, r)).collect(), if wide { "wide" } else { "fragment" });
    }
    // (1) broadcasting with public/private mixing: all 25 owner vectors in the thorough tier
    let all_owner2 = owner_vectors(2);
    let n_mix = match tier { "thorough" => 90 * 5, "search" => 90 * 25, _ => 90 };
    for i in 0..n_mix {
        let st = *rng.pick(&int_sts);
        let p = broadcast_mix_program(&mut rng, st, i);
        // mixed vectors first: exactly one public operand
        let mixed = [vec![IOStatus::Party(0), IOStatus::Public], vec![IOStatus::Public, IOStatus::Party(1)], vec![IOStatus::Shared, IOStatus::Public], vec![IOStatus::Public, IOStatus::Shared], vec![IOStatus::Party(2), IOStatus::Party(0)]];
        let owners = if tier == "search" { all_owner2[i % 25].clone() } else { mixed[(i / 90 + i) % 5].clone() };
        let outs = all_outs[(i * 3 + 1) % all_outs.len()].clone();
        let (mname, mode) = modes[i % 3].clone();
        let its = p.input_types.clone();
        out.stat("stream:broadcast-mix");
        end_to_end(&p, &owners, &outs, mname, mode, &mut rng, out, 1, &move |r: &mut Rng| its.iter().map(|t| gen_value(t, r)).collect(), "broadcast-mix");
    }
    // (1) both operand orders of the same product
    let n_comm = match tier { "thorough" => 60, "search" => 240, _ => 12 };
    for i in 0..n_comm {
        let st = *rng.pick(&int_sts);
        let p = commutator_program(&mut rng, st, i);
        let owners = [vec![IOStatus::Party(0), IOStatus::Party(1)], vec![IOStatus::Public, IOStatus::Party(2)], vec![IOStatus::Shared, IOStatus::Party(0)], vec![IOStatus::Public, IOStatus::Public]][(i / 6) % 4].clone();
        let outs = all_outs[(i * 5 + 1) % all_outs.len()].clone();
        let (mname, mode) = modes[i % 3].clone();
        let its = p.input_types.clone();
        out.stat("stream:commutator");
        end_to_end(&p, &owners, &outs, mname, mode, &mut rng, out, 1, &move |r: &mut Rng| its.iter().map(|t| gen_value(t, r)).collect(), "commutator");
    }
    // (1) Iterate with an associative non-commutative body through every inlining mode
    let n_iter = match tier { "thorough" => 12, "search" => 36, _ => 3 };
    for i in 0..n_iter {
        let n = [16u64, 21, 3, 17, 32, 5][i % 6];
        let st = [UINT64, INT32, UINT8][(i / 3) % 3];
        let p = iterate_matprod_program(n, st);
        let owners = [vec![IOStatus::Party(0), IOStatus::Party(1)], vec![IOStatus::Public, IOStatus::Party(2)], vec![IOStatus::Shared, IOStatus::Party(0)]][(i / 2) % 3].clone();
        let outs = all_outs[(i * 7 + 2) % all_outs.len()].clone();
        // the depth-optimised default mode first: it picks the segment-tree strategy from 16 elements on
        let (mname, mode) = modes[(i + 1) % 3].clone();
        let its = p.input_types.clone();
        out.stat("stream:iterate-matprod");
        out.stat(&format!("iterate-matprod:inline:{}", mname));
        end_to_end(&p, &owners, &outs, mname, mode, &mut rng, out, 1, &move |r: &mut Rng| its.iter().map(|t| gen_value(t, r)).collect(), "iterate-matprod");
    }
    // deep model of the compiler: literal tie
    crate::c01deep::run(tier, &mut rng, out);
    // (1) joins and sort
    let jts = [JoinType::Union, JoinType::Inner, JoinType::Left, JoinType::Full];
    for i in 0..n_special {
        let jt = jts[i % 4];
        let (n0, n1) = (2 + rng.below(2), 1 + rng.below(2));
        let p = join_program(jt, n0, n1);
        let owners = match i % 3 { 0 => vec![IOStatus::Party(0), IOStatus::Party(1)], 1 => vec![IOStatus::Party(1), IOStatus::Public], _ => vec![IOStatus::Party(2), IOStatus::Party(0)] };
        let outs = vec![IOStatus::Party(((i + 2) % 3) as u64)];
        let (mname, mode) = modes[i % 3].clone();
        end_to_end(&p, &owners, &outs, mname, mode, &mut rng, out, 2, &move |r: &mut Rng| vec![table_value_pub(n0, r, 0), table_value_pub(n1, r, 1)], &format!("join-{:?}", jt));
        let (n, b) = (2 + rng.below(3), 1 + rng.below(3));
        let p = sort_program(n, b);
        let its = p.input_types.clone();
        end_to_end(&p, &[IOStatus::Party((i % 3) as u64)], &[IOStatus::Party(((i + 1) % 3) as u64)], mname, modes[i % 3].1.clone(), &mut rng, out, 2, &move |r: &mut Rng| its.iter().map(|t| gen_value(t, r)).collect(), "sort");
    }
}

//! C17 — bit-level arithmetic helpers are exact.
//! Correspondence of Model/{Adder,Mux,Clip,LongDiv}.v with ops/{adder,multiplexer,clip,
//! long_division}.rs: the instantiated custom operation is evaluated by /repo's evaluator on a
//! batch of operands, the Gallina model on the same operands; plus the native oracle (wrapping
//! add, select, clamp, floored division written here independently of /repo).
use crate::coqfmt::*;
use crate::gen::*;
use crate::out::Out;
use crate::rng::Rng;
use ciphercore_base::custom_ops::{run_instantiation_pass, CustomOperation};
use ciphercore_base::data_types::*;
use ciphercore_base::data_values::Value;
use ciphercore_base::evaluators::random_evaluate;
use ciphercore_base::graphs::util::simple_context;
use ciphercore_base::ops::adder::BinaryAdd;
use ciphercore_base::ops::clip::Clip2K;
use ciphercore_base::ops::long_division::LongDivision;
use ciphercore_base::ops::multiplexer::Mux;
use serde_json::json;
use std::panic::AssertUnwindSafe;

pub const HEADER: &str =
    "From CC Require Import Base.Prelude Base.Scalar Base.Ty Base.Shape Graph.Value Graph.IR Graph.Eval Model.Adder Model.Mux Model.Clip Model.LongDiv Model.C17Tie Model.GraphTiesAdd.";

// ------------------------------------------------------------------------------------ plumbing
fn mask(w: u32) -> u128 {
    if w >= 128 {
        u128::MAX
    } else {
        (1u128 << w) - 1
    }
}
/// two's complement reading of the w low bits
fn sval(x: u128, w: u32) -> i128 {
    let x = x & mask(w);
    if w >= 128 {
        x as i128
    } else if (x >> (w - 1)) & 1 == 1 {
        (x as i128).wrapping_sub(1i128 << w) // exact for w <= 126; for w = 127 the wrap gives x - 2^127
    } else {
        x as i128
    }
}
fn numel(shape: &[u64]) -> usize {
    shape.iter().product::<u64>() as usize
}
/// NumPy broadcasting of shapes (right-aligned); None if incompatible. Written here, not taken from /repo.
fn bshape(a: &[u64], b: &[u64]) -> Option<Vec<u64>> {
    let n = a.len().max(b.len());
    let mut r = vec![0; n];
    for i in 0..n {
        let x = if i < n - a.len() { 1 } else { a[i - (n - a.len())] };
        let y = if i < n - b.len() { 1 } else { b[i - (n - b.len())] };
        r[i] = if x == y || y == 1 {
            x
        } else if x == 1 {
            y
        } else {
            return None;
        };
    }
    Some(r)
}
/// element of `xs` (shape `shape`, right-aligned in `out_shape`) seen at flat position `idx` of `out_shape`
fn bget<T: Copy>(xs: &[T], shape: &[u64], out_shape: &[u64], idx: usize) -> T {
    let n = out_shape.len();
    let mut rem = idx;
    let mut coords = vec![0u64; n];
    for i in (0..n).rev() {
        coords[i] = (rem as u64) % out_shape[i];
        rem /= out_shape[i] as usize;
    }
    let off = n - shape.len();
    let mut flat = 0usize;
    for (j, d) in shape.iter().enumerate() {
        let c = if *d == 1 { 0 } else { coords[off + j] };
        flat = flat * (*d as usize) + c as usize;
    }
    xs[flat]
}
fn bexpand<T: Copy>(xs: &[T], shape: &[u64], out_shape: &[u64]) -> Vec<T> {
    (0..numel(out_shape)).map(|i| bget(xs, shape, out_shape, i)).collect()
}
/// integers (w low bits) -> BIT array value of shape batch ++ [w], least significant bit first
fn bits_value(xs: &[u128], w: u32) -> Value {
    let mut bits: Vec<u8> = Vec::with_capacity(xs.len() * w as usize);
    for x in xs {
        for i in 0..w {
            bits.push(((x >> i) & 1) as u8);
        }
    }
    Value::from_flattened_array(&bits, BIT).unwrap()
}
fn with_bits(batch: &[u64], w: u32) -> Vec<u64> {
    let mut s = batch.to_vec();
    s.push(w as u64);
    s
}
/// BIT array value of shape batch ++ [w] -> integers
fn value_ints(v: &Value, batch: &[u64], w: u32) -> ciphercore_base::errors::Result<Vec<u128>> {
    let bits = v.to_flattened_array_u64(array_type(with_bits(batch, w), BIT))?;
    Ok(bits
        .chunks(w as usize)
        .map(|c| c.iter().enumerate().fold(0u128, |a, (i, b)| a | ((*b as u128 & 1) << i)))
        .collect())
}
/// builds a one-operation context, instantiates the custom operation, evaluates
fn eval_op<F: Fn() -> CustomOperation>(mk: F, tys: Vec<Type>, vals: Vec<Value>) -> Outcome<Value> {
    observe(AssertUnwindSafe(move || {
        let c = simple_context(|g| {
            let ins = tys.iter().map(|t| g.input(t.clone())).collect::<ciphercore_base::errors::Result<Vec<_>>>()?;
            g.custom_op(mk(), ins)
        })?;
        let mapped = run_instantiation_pass(c)?;
        random_evaluate(mapped.get_context().get_main_graph()?, vals)
    }))
}
fn zl(xs: &[u128]) -> String {
    list_u128(xs)
}
fn blist(x: u128, w: u32) -> String {
    let v: Vec<String> = (0..w).map(|i| if (x >> i) & 1 == 1 { "true".into() } else { "false".into() }).collect();
    format!("[{}]", v.join("; "))
}
fn cb(b: bool) -> &'static str {
    if b {
        "true"
    } else {
        "false"
    }
}
fn corners(w: u32, rng: &mut Rng, extra: usize) -> Vec<u128> {
    let m = mask(w);
    let mut v = vec![
        0,
        1 & m,
        m,                                        // all ones = -1
        m.wrapping_sub(1) & m,                    // -2
        (1u128 << (w - 1)) & m,                   // min
        ((1u128 << (w - 1)).wrapping_sub(1)) & m, // max
        ((1u128 << (w - 1)) + 1) & m,             // min + 1
        0x5555_5555_5555_5555_5555_5555_5555_5555 & m,
        0xAAAA_AAAA_AAAA_AAAA_AAAA_AAAA_AAAA_AAAA & m,
        2 & m,
        3 & m,
    ];
    for _ in 0..extra {
        let r = rng.u128();
        v.push(match rng.below(4) {
            0 => r & m,
            1 => (r >> (128 - w.min(128)) / 2) & m & (m >> (w / 2)),
            2 => (1u128 << rng.below(w as u64)) & m,
            _ => m ^ ((1u128 << rng.below(w as u64)) & m),
        });
    }
    v.sort();
    v.dedup();
    v
}

// ------------------------------------------------------------------------------------ adder
/// One BinaryAdd evaluation on broadcastable batches; emits the case and the oracle verdicts.
fn adder_run(out: &mut Out, kind: &str, ob: bool, w: u32, sa: &[u64], a: &[u128], sb: &[u64], b: &[u128], rows: Option<(u128, usize)>) {
    let so = match bshape(sa, sb) {
        Some(s) => s,
        None => return,
    };
    let r = eval_op(
        move || CustomOperation::new(BinaryAdd { overflow_bit: ob }),
        vec![array_type(with_bits(sa, w), BIT), array_type(with_bits(sb, w), BIT)],
        vec![bits_value(a, w), bits_value(b, w)],
    );
    let ea = bexpand(a, sa, &so);
    let eb = bexpand(b, sb, &so);
    let so2 = so.clone();
    let parsed: Outcome<Vec<(u128, Option<u128>)>> = match &r {
        Outcome::Ok(v) => {
            let v = v.clone();
            observe(AssertUnwindSafe(move || {
                if ob {
                    let parts = v.to_vector()?;
                    let s = value_ints(&parts[0], &so2, w)?;
                    let c = value_ints(&parts[1], &so2, 1)?;
                    Ok(s.into_iter().zip(c.into_iter()).map(|(s, c)| (s, Some(c))).collect())
                } else {
                    Ok(value_ints(&v, &so2, w)?.into_iter().map(|s| (s, None)).collect())
                }
            }))
        }
        Outcome::Err => Outcome::Err,
        Outcome::Panic => Outcome::Panic,
    };
    let input = json!({"op":"BinaryAdd","overflow_bit":ob,"width":w,"shape_a":sa,"shape_b":sb,
        "a": a.iter().take(8).map(|x| x.to_string()).collect::<Vec<_>>(), "b": b.iter().take(8).map(|x| x.to_string()).collect::<Vec<_>>() });
    out.stat(&format!("adder:w{}:ob{}:{}", w, ob, parsed.tag()));
    out.stat_n("adder:operand_pairs", ea.len() as u64);
    let mut nontrivial = !w.is_power_of_two();
    if let Outcome::Ok(res) = &parsed {
        for i in 0..ea.len() {
            let (x, y) = (ea[i], eb[i]);
            // oracle: wrapping sum and true carry-out, native arithmetic
            let (s128, o128) = x.overflowing_add(y);
            let exp_s = s128 & mask(w);
            let exp_c = if w == 128 { o128 as u128 } else { (s128 >> w) & 1 };
            if exp_c == 1 {
                nontrivial = true;
            }
            if res[i].0 != exp_s {
                out.violation("adder-wrong-sum", json!({"width":w,"overflow_bit":ob,"a":x.to_string(),"b":y.to_string()}), format!("sum {} expected {}", res[i].0, exp_s));
            } else if ob && res[i].1 != Some(exp_c) {
                out.violation("adder-wrong-carry", json!({"width":w,"a":x.to_string(),"b":y.to_string()}), format!("carry {:?} expected {}", res[i].1, exp_c));
            } else {
                out.oracle_ok();
            }
        }
    } else if w.is_power_of_two() {
        out.violation("adder-fails", input.clone(), "BinaryAdd failed on a power-of-two width".into());
    }
    let rhs = res(&parsed, |v| list(v, |(s, c)| format!("({}, {})", s, match c { Some(c) => format!("Some {}", c), None => "None".into() })));
    let lhs = match rows {
        Some((a0, na)) => format!("add_rows {} {} {} {}", cb(ob), w, a0, na),
        None => format!("add_batch {} {} {} {}", cb(ob), w, zl(&ea), zl(&eb)),
    };
    out.case(kind, lhs, rhs, input, nontrivial);
}

fn adder_bits_case(out: &mut Out, ob: bool, w: u32, x: u128, y: u128) {
    // 1-D operands, model called directly on explicit bit lists
    let r = eval_op(
        move || CustomOperation::new(BinaryAdd { overflow_bit: ob }),
        vec![array_type(vec![w as u64], BIT), array_type(vec![w as u64], BIT)],
        vec![bits_value(&[x], w), bits_value(&[y], w)],
    );
    let parsed: Outcome<(u128, Option<u128>)> = match &r {
        Outcome::Ok(v) => {
            let v = v.clone();
            observe(AssertUnwindSafe(move || {
                if ob {
                    let parts = v.to_vector()?;
                    Ok((value_ints(&parts[0], &[], w)?[0], Some(value_ints(&parts[1], &[], 1)?[0])))
                } else {
                    Ok((value_ints(&v, &[], w)?[0], None))
                }
            }))
        }
        Outcome::Err => Outcome::Err,
        Outcome::Panic => Outcome::Panic,
    };
    let rhs = res(&parsed, |(s, c)| format!("({}, {})", blist(*s, w), match c { Some(c) => format!("Some {}", blist(*c, 1)), None => "None".into() }));
    let carry = x.overflowing_add(y).1 || (w < 128 && ((x + y) >> w) & 1 == 1);
    out.case("adder_bits", format!("binary_add {} {} {}", cb(ob), blist(x, w), blist(y, w)), rhs,
        json!({"op":"BinaryAdd","overflow_bit":ob,"width":w,"a":x.to_string(),"b":y.to_string()}), carry || !w.is_power_of_two());
}

fn run_adder(tier: &str, rng: &mut Rng, out: &mut Out) {
    let thorough = tier != "quick";
    for &ob in &[false, true] {
        // exhaustive operand pairs: widths 1, 2, 4 always; width 8 all rows (thorough) or sampled rows
        for &w in &[1u32, 2, 4] {
            let n = 1usize << w;
            let all: Vec<u128> = (0..n as u128).collect();
            adder_run(out, "adder_exhaustive", ob, w, &[n as u64, 1], &all, &[n as u64], &all, Some((0, n)));
            out.stat(&format!("adder:exhaustive:w{}", w));
        }
        let all8: Vec<u128> = (0..256u128).collect();
        let rows8: Vec<u128> = if thorough {
            (0..256u128).step_by(8).collect()
        } else {
            let mut v = vec![0u128, 248];
            v.push(8 * rng.below(32) as u128);
            v.sort();
            v.dedup();
            v
        };
        for a0 in rows8 {
            let a: Vec<u128> = (a0..a0 + 8).collect();
            adder_run(out, "adder_exhaustive", ob, 8, &[8, 1], &a, &[256], &all8, Some((a0, 8)));
        }
        if thorough {
            out.stat("adder:exhaustive:w8");
        }
        // every supported width: all pairs of corner operands, through broadcasting [C,1,w] x [C,w]
        for &w in &[1u32, 2, 4, 8, 16, 32, 64, 128] {
            let cs = corners(w, rng, if thorough { 12 } else { 4 });
            let c = cs.len() as u64;
            adder_run(out, "adder_corners", ob, w, &[c, 1], &cs, &[c], &cs, None);
            // 1-D and scalar-like shapes with explicit bit lists
            let reps = if thorough { 12 } else { 3 };
            for i in 0..reps {
                let x = if i == 0 { mask(w) } else { *rng.pick(&cs) };
                let y = if i == 0 { 1 & mask(w) } else { rng.u128() & mask(w) };
                adder_bits_case(out, ob, w, x, y);
            }
            // broadcasting shapes of the batch dimensions
            for _ in 0..(if thorough { 6 } else { 2 }) {
                let (sa, sb) = loop {
                    let sa = random_shape(rng);
                    let sb = if rng.chance(1, 2) { random_shape(rng) } else { sa.iter().map(|d| if rng.chance(1, 2) { 1 } else { *d }).collect() };
                    if bshape(&sa, &sb).is_some() {
                        break (sa, sb);
                    }
                };
                let a: Vec<u128> = (0..numel(&sa)).map(|_| if rng.chance(1, 2) { *rng.pick(&cs) } else { rng.u128() & mask(w) }).collect();
                let b: Vec<u128> = (0..numel(&sb)).map(|_| if rng.chance(1, 2) { *rng.pick(&cs) } else { rng.u128() & mask(w) }).collect();
                adder_run(out, "adder_broadcast", ob, w, &sa, &a, &sb, &b, None);
            }
        }
        // widths that are not powers of two are rejected
        for &w in &[3u32, 5, 6, 7, 12, 24, 100] {
            let a = vec![1u128, mask(w)];
            adder_run(out, "adder_reject", ob, w, &[2], &a, &[2], &a, None);
        }
    }
}

// ------------------------------------------------------------------------------------ mux
fn st_vals(st: ScalarType, n: usize, rng: &mut Rng) -> Vec<u128> {
    let w = width(st);
    (0..n).map(|_| (boundary_i128(st, rng) as u128) & mask(w)).collect()
}
fn mk_value(xs: &[u128], st: ScalarType) -> Value {
    Value::from_flattened_array(xs, st).unwrap()
}
fn mk_type(shape: &Option<Vec<u64>>, st: ScalarType) -> Type {
    match shape {
        Some(s) => array_type(s.clone(), st),
        None => scalar_type(st),
    }
}
fn mux_run(out: &mut Out, kind: &str, tf: ScalarType, t1: ScalarType, t0: ScalarType,
           sf: &Option<Vec<u64>>, f: &[u128], s1: &Option<Vec<u64>>, c1: &[u128], s0: &Option<Vec<u64>>, c0: &[u128]) {
    let e: Vec<u64> = vec![];
    let (shf, sh1, sh0) = (sf.clone().unwrap_or(e.clone()), s1.clone().unwrap_or(e.clone()), s0.clone().unwrap_or(e.clone()));
    let so = match bshape(&sh1, &sh0).and_then(|s| bshape(&shf, &s)) {
        Some(s) => s,
        None => return,
    };
    let r = eval_op(
        || CustomOperation::new(Mux {}),
        vec![mk_type(sf, tf), mk_type(s1, t1), mk_type(s0, t0)],
        vec![mk_value(f, tf), mk_value(c1, t1), mk_value(c0, t0)],
    );
    let w = width(t1);
    let so2 = so.clone();
    let parsed: Outcome<Vec<u128>> = match &r {
        Outcome::Ok(v) => {
            let v = v.clone();
            observe(AssertUnwindSafe(move || {
                let t = if so2.is_empty() { scalar_type(t1) } else { array_type(so2.clone(), t1) };
                let xs = if so2.is_empty() { vec![v.to_u128(t1)?] } else { v.to_flattened_array_u128(t)? };
                Ok(xs.into_iter().map(|x| x & mask(w)).collect())
            }))
        }
        Outcome::Err => Outcome::Err,
        Outcome::Panic => Outcome::Panic,
    };
    let (ef, e1, e0) = (bexpand(f, &shf, &so), bexpand(c1, &sh1, &so), bexpand(c0, &sh0, &so));
    let input = json!({"op":"Mux","flag_type":scalar(tf),"choice1_type":scalar(t1),"choice0_type":scalar(t0),
        "shape_flag":sf,"shape1":s1,"shape0":s0,
        "flag": f.iter().take(8).map(|x| x.to_string()).collect::<Vec<_>>(),
        "choice1": c1.iter().take(8).map(|x| x.to_string()).collect::<Vec<_>>(),
        "choice0": c0.iter().take(8).map(|x| x.to_string()).collect::<Vec<_>>()});
    out.stat(&format!("mux:{}:{}", scalar(t1), parsed.tag()));
    let valid = tf == BIT && t1 == t0;
    let mut seen = [false, false];
    if let Outcome::Ok(res) = &parsed {
        for i in 0..ef.len() {
            // oracle: flag 1 -> second operand, flag 0 -> third
            let exp = if ef[i] == 1 { e1[i] } else { e0[i] };
            if e1[i] != e0[i] {
                seen[ef[i] as usize & 1] = true;
            }
            if res[i] != exp {
                let class = if t1 == BIT { "mux-bit-selects-wrong-operand" } else { "mux-integer-selects-wrong-operand" };
                out.violation(class, json!({"type":scalar(t1),"flag":ef[i].to_string(),"choice1":e1[i].to_string(),"choice0":e0[i].to_string()}),
                    format!("Mux returned {} expected {}", res[i], exp));
            } else {
                out.oracle_ok();
            }
        }
        if !valid {
            out.violation("mux-accepts-bad-types", input.clone(), "Mux accepted a non-bit flag or mismatched choices".into());
        }
    } else if valid {
        out.violation("mux-fails", input.clone(), "Mux failed on valid arguments".into());
    }
    out.stat(&format!("mux:flags_seen:{}{}", seen[0] as u8, seen[1] as u8));
    let lhs = format!("mux_op {} {} {} {} {} {}", scalar(tf), scalar(t1), scalar(t0), zl(&ef), zl(&e1), zl(&e0));
    out.case(kind, lhs, res(&parsed, |v| zl(v)), input, (seen[0] && seen[1]) || !valid);
}

fn run_mux(tier: &str, rng: &mut Rng, out: &mut Out) {
    let thorough = tier != "quick";
    for &st in ALL_ST.iter() {
        let w = width(st);
        // scalar operands: flag 1 and flag 0 with distinct operands (the repaired defect 34574f8)
        for &fl in &[1u128, 0] {
            let (a, b) = if st == BIT { (1u128, 0u128) } else { (111 & mask(w), 222 & mask(w)) };
            mux_run(out, "mux_scalar", BIT, st, st, &None, &[fl], &None, &[a], &None, &[b]);
            let (a, b) = if st == BIT { (0u128, 1u128) } else { (mask(w), 1u128 << (w - 1)) };
            mux_run(out, "mux_scalar", BIT, st, st, &None, &[fl], &None, &[a], &None, &[b]);
        }
        // exhaustive on bits
        if st == BIT {
            let f = [0u128, 1];
            mux_run(out, "mux_exhaustive_bits", BIT, BIT, BIT, &Some(vec![2, 1, 1]), &f, &Some(vec![2, 1]), &f, &Some(vec![2]), &f);
        }
        // arrays with broadcasting
        for round in 0..(if thorough { 30 } else { 4 }) {
            let (sf, s1, s0) = loop {
                let base = random_shape(rng);
                let pick = |rng: &mut Rng| -> Option<Vec<u64>> {
                    match rng.below(5) {
                        0 => None,
                        1 => Some(base.clone()),
                        2 => Some(base.iter().map(|d| if rng.chance(1, 2) { 1 } else { *d }).collect()),
                        3 => Some(base[base.len() - 1..].to_vec()),
                        _ => Some(random_shape(rng)),
                    }
                };
                let (a, b, c) = (pick(rng), pick(rng), pick(rng));
                let e: Vec<u64> = vec![];
                if bshape(&b.clone().unwrap_or(e.clone()), &c.clone().unwrap_or(e.clone())).and_then(|s| bshape(&a.clone().unwrap_or(e.clone()), &s)).is_some() {
                    break (a, b, c);
                }
            };
            let nf = sf.as_ref().map(|s| numel(s)).unwrap_or(1);
            let mut f: Vec<u128> = (0..nf).map(|_| rng.below(2) as u128).collect();
            if nf >= 2 && round % 2 == 0 {
                f[0] = 1;
                f[1] = 0;
            }
            let c1 = st_vals(st, s1.as_ref().map(|s| numel(s)).unwrap_or(1), rng);
            let c0 = st_vals(st, s0.as_ref().map(|s| numel(s)).unwrap_or(1), rng);
            mux_run(out, "mux_array", BIT, st, st, &sf, &f, &s1, &c1, &s0, &c0);
        }
    }
    // rejected argument types: non-bit flag, choices of different scalar types
    for _ in 0..(if thorough { 40 } else { 8 }) {
        let tf = if rng.chance(1, 2) { BIT } else { *rng.pick(&ALL_ST) };
        let t1 = *rng.pick(&ALL_ST);
        let t0 = if tf != BIT && rng.chance(1, 2) { t1 } else { *rng.pick(&ALL_ST) };
        let sh = Some(vec![2u64]);
        mux_run(out, "mux_types", tf, t1, t0, &sh, &[1, 0], &sh, &[1, 0], &sh, &[0, 1]);
    }
}

// ------------------------------------------------------------------------------------ clip
fn clip_run(out: &mut Out, kind: &str, k: u64, w: u32, batch: &[u64], xs: &[u128]) {
    let r = eval_op(
        move || CustomOperation::new(Clip2K { k }),
        vec![array_type(with_bits(batch, w), BIT)],
        vec![bits_value(xs, w)],
    );
    let b2 = batch.to_vec();
    let parsed: Outcome<Vec<u128>> = match &r {
        Outcome::Ok(v) => {
            let v = v.clone();
            observe(AssertUnwindSafe(move || value_ints(&v, &b2, w)))
        }
        Outcome::Err => Outcome::Err,
        Outcome::Panic => Outcome::Panic,
    };
    let valid = (k as u128) + 2 <= w as u128;
    let input = json!({"op":"Clip2K","k":k,"width":w,"batch":batch,"x":xs.iter().take(8).map(|x| x.to_string()).collect::<Vec<_>>()});
    out.stat(&format!("clip:w{}:{}", w, parsed.tag()));
    let mut nontrivial = !valid;
    if let Outcome::Ok(res) = &parsed {
        for (i, x) in xs.iter().enumerate() {
            // oracle: clamp of the signed value to [0, 2^k]
            let s = sval(*x, w);
            let exp: u128 = if s < 0 { 0 } else if (s as u128) >> k != 0 { 1u128 << k } else { s as u128 };
            if exp != *x {
                nontrivial = true;
            }
            if res[i] != exp {
                out.violation("clip-wrong", json!({"k":k,"width":w,"x":x.to_string()}), format!("Clip2K returned {} expected {}", res[i], exp));
            } else {
                out.oracle_ok();
            }
        }
        if !valid {
            out.violation("clip-accepts-bad-k", input.clone(), "Clip2K accepted k > num_bits - 2".into());
        }
    } else if valid {
        out.violation("clip-fails", input.clone(), "Clip2K failed on valid arguments".into());
    }
    out.case(kind, format!("clip_batch {} {} {}", k, w, zl(xs)), res(&parsed, |v| zl(v)), input, nontrivial);
}

fn run_clip(tier: &str, rng: &mut Rng, out: &mut Out) {
    let thorough = tier != "quick";
    // exhaustive: every input of widths 2..8, every admissible k
    let maxw = if thorough { 8 } else { 6 };
    for w in 2..=maxw {
        let all: Vec<u128> = (0..(1u128 << w)).collect();
        for k in 0..=(w as u64 - 2) {
            clip_run(out, "clip_exhaustive", k, w, &[all.len() as u64], &all);
        }
        out.stat(&format!("clip:exhaustive:w{}", w));
    }
    let widths: Vec<u32> = if thorough { vec![7, 8, 9, 13, 16, 31, 32, 33, 64, 100, 127, 128] } else { vec![8, 13, 16, 32, 64, 128] };
    for &w in &widths {
        let mut ks: Vec<u64> = vec![0, 1, w as u64 - 2, w as u64 / 2];
        for _ in 0..(if thorough { 4 } else { 1 }) {
            ks.push(rng.below(w as u64 - 1));
        }
        ks.sort();
        ks.dedup();
        for k in ks {
            let mut xs = corners(w, rng, 6);
            let p = 1u128 << k;
            for d in [p, p.wrapping_sub(1), p + 1, p << 1, p | 1, (p.wrapping_neg()) & mask(w), (p.wrapping_neg().wrapping_sub(1)) & mask(w)] {
                xs.push(d & mask(w));
            }
            let batch: Vec<u64> = if rng.chance(1, 2) && xs.len() % 2 == 0 { vec![2, xs.len() as u64 / 2] } else { vec![xs.len() as u64] };
            clip_run(out, "clip_corners", k, w, &batch, &xs);
        }
        // k = num_bits - 1 and above are rejected
        clip_run(out, "clip_reject", w as u64 - 1, w, &[1], &[1]);
        clip_run(out, "clip_reject", w as u64, w, &[1], &[1]);
    }
    // 1-D input (no batch dimension)
    clip_run(out, "clip_1d", 3, 8, &[], &[0x9c]);
    clip_run(out, "clip_1d", 3, 8, &[], &[0x1c]);
    clip_run(out, "clip_1d", 3, 8, &[], &[0x05]);
}

// ------------------------------------------------------------------------------------ long division
/// floored division on mathematical integers given as (negative?, magnitude); written without `/` on
/// signed machine integers so that min / -1 needs no special case: returns (q, r) reduced mod 2^m, 2^n.
fn floored(a: i128, a_big: Option<u128>, d: i128, d_big: Option<u128>, m: u32, n: u32) -> (u128, u128) {
    // magnitudes as u128 (an unsigned 128-bit operand arrives in *_big)
    let (an, am) = match a_big { Some(x) => (false, x), None => (a < 0, a.unsigned_abs()) };
    let (dn, dm) = match d_big { Some(x) => (false, x), None => (d < 0, d.unsigned_abs()) };
    let (q0, r0) = (am / dm, am % dm);
    // floor: if signs differ and the remainder is non-zero, round the quotient away from zero
    let (qn, qm, rm) = if an != dn { if r0 == 0 { (true, q0, 0) } else { (true, q0 + 1, dm - r0) } } else { (false, q0, r0) };
    let q = if qn { qm.wrapping_neg() } else { qm } & mask(m);
    // remainder takes the divisor's sign
    let r = if dn { rm.wrapping_neg() } else { rm } & mask(n);
    (q, r)
}

fn div_run(out: &mut Out, kind: &str, sg: bool, m: u32, n: u32, sa: &[u64], a: &[u128], sb: &[u64], b: &[u128], rows: Option<(u128, usize)>) {
    let so = match bshape(sa, sb) {
        Some(s) => s,
        None => return,
    };
    let r = eval_op(
        move || CustomOperation::new(LongDivision { signed: sg }),
        vec![array_type(with_bits(sa, m), BIT), array_type(with_bits(sb, n), BIT)],
        vec![bits_value(a, m), bits_value(b, n)],
    );
    let so2 = so.clone();
    let parsed: Outcome<Vec<(u128, u128)>> = match &r {
        Outcome::Ok(v) => {
            let v = v.clone();
            observe(AssertUnwindSafe(move || {
                let parts = v.to_vector()?;
                let q = value_ints(&parts[0], &so2, m)?;
                let r = value_ints(&parts[1], &so2, n)?;
                Ok(q.into_iter().zip(r.into_iter()).collect())
            }))
        }
        Outcome::Err => Outcome::Err,
        Outcome::Panic => Outcome::Panic,
    };
    let ea = bexpand(a, sa, &so);
    let eb = bexpand(b, sb, &so);
    let input = json!({"op":"LongDivision","signed":sg,"dividend_bits":m,"divisor_bits":n,"shape_a":sa,"shape_b":sb,
        "a": a.iter().take(8).map(|x| x.to_string()).collect::<Vec<_>>(), "b": b.iter().take(8).map(|x| x.to_string()).collect::<Vec<_>>() });
    out.stat(&format!("div:{}:m{}:n{}:{}", if sg { "signed" } else { "unsigned" }, m, n, parsed.tag()));
    out.stat_n("div:operand_pairs", ea.len() as u64);
    let supported = m.is_power_of_two() && n.is_power_of_two() && m >= 2 && n >= 2;
    let mut nontrivial = !supported;
    if let Outcome::Ok(res) = &parsed {
        for i in 0..ea.len() {
            let (x, y) = (ea[i], eb[i]);
            if y == 0 {
                nontrivial = true;
                out.stat("div:zero_divisor_pairs");
                continue; // outside the property: the divisor must be non-zero
            }
            let (ax, dx) = if sg { (sval(x, m), sval(y, n)) } else { (0, 0) };
            let (q, rr) = if sg { floored(ax, None, dx, None, m, n) } else { floored(0, Some(x), 0, Some(y), m, n) };
            if sg && (ax < 0 || dx < 0) || rr != 0 {
                nontrivial = true;
            }
            if m != n {
                // dividend and divisor of different widths: the operation's documentation allows
                // them, so they are judged against floored division as well.  The known defect
                // (unsigned, dividend wider than the divisor, shifted remainder loses its top bit)
                // has its own class; anything else that differs is reported under another class.
                if res[i] != (q, rr) {
                    out.stat(&format!("div:mixed-width-differs-from-floored:{}:m{}:n{}", if sg { "signed" } else { "unsigned" }, m, n));
                    let class = if !sg && m > n { "longdiv-unsigned-wider-dividend" } else { "longdiv-mixed-width-wrong" };
                    out.violation(class, json!({"signed":sg,"dividend_bits":m,"divisor_bits":n,"a":x.to_string(),"d":y.to_string()}),
                        format!("got (q,r)=({},{}) expected floored ({},{})", res[i].0, res[i].1, q, rr));
                } else {
                    out.stat("div:mixed-width-agrees-with-floored");
                    out.oracle_ok();
                }
                continue;
            }
            let (gq, gr) = res[i];
            // oracle 1: quotient and remainder of floored division (mod 2^n)
            if (gq, gr) != (q, rr) {
                out.violation("longdiv-wrong", json!({"signed":sg,"width":m,"a":x.to_string(),"d":y.to_string()}),
                    format!("got (q,r)=({},{}) expected ({},{})", gq, gr, q, rr));
                continue;
            }
            // oracle 2: the identity q*d + r = a (mod 2^n), |r| < |d|, r has the divisor's sign
            let ident = gq.wrapping_mul(y).wrapping_add(gr) & mask(m) == x;
            let (rs, ds) = if sg { (sval(gr, n), sval(y, n)) } else { (0, 0) };
            let small = if sg { rs.unsigned_abs() < ds.unsigned_abs() && (rs == 0 || (rs < 0) == (ds < 0)) } else { gr < y };
            if !ident || !small {
                out.violation("longdiv-identity", json!({"signed":sg,"width":m,"a":x.to_string(),"d":y.to_string()}),
                    format!("q={} r={} identity={} remainder_ok={}", gq, gr, ident, small));
            } else {
                out.oracle_ok();
            }
        }
    } else if supported {
        out.violation("longdiv-fails", input.clone(), "LongDivision failed on supported widths".into());
    }
    let rhs = res(&parsed, |v| list(v, |(q, r)| format!("({}, {})", q, r)));
    let lhs = match rows {
        Some((a0, na)) => format!("div_rows {} {} {} {}", cb(sg), m, a0, na),
        None => format!("div_batch {} {} {} {} {}", cb(sg), m, n, zl(&ea), zl(&eb)),
    };
    out.case(kind, lhs, rhs, input, nontrivial);
}

fn run_div(tier: &str, rng: &mut Rng, out: &mut Out) {
    let thorough = tier != "quick";
    for &sg in &[false, true] {
        // exhaustive operand pairs (zero divisors included in the tie, excluded from the oracle)
        for &w in &[2u32, 4] {
            let n = 1usize << w;
            let all: Vec<u128> = (0..n as u128).collect();
            div_run(out, "div_exhaustive", sg, w, w, &[n as u64, 1], &all, &[n as u64], &all, Some((0, n)));
            out.stat(&format!("div:exhaustive:w{}", w));
        }
        let all8: Vec<u128> = (0..256u128).collect();
        let rows8: Vec<u128> = if thorough {
            (0..256u128).step_by(4).collect()
        } else {
            let mut v = vec![0u128, 128, 252];
            v.push(4 * rng.below(64) as u128);
            v.sort();
            v.dedup();
            v
        };
        for a0 in rows8 {
            let a: Vec<u128> = (a0..a0 + 4).collect();
            div_run(out, "div_exhaustive", sg, 8, 8, &[4, 1], &a, &[256], &all8, Some((a0, 4)));
        }
        if thorough {
            out.stat("div:exhaustive:w8");
        }
        // every supported width: corner operands, all pairs
        for &w in &[2u32, 4, 8, 16, 32, 64, 128] {
            let cs = corners(w, rng, if thorough { 8 } else { 2 });
            let cs: Vec<u128> = if !thorough && w >= 64 { cs.into_iter().take(9).collect() } else { cs };
            let c = cs.len() as u64;
            div_run(out, "div_corners", sg, w, w, &[c, 1], &cs, &[c], &cs, None);
            // random operands, divisor of random magnitude, broadcasting batch shapes
            for _ in 0..(if thorough { 5 } else { 1 }) {
                let (sa, sb) = loop {
                    let sa = random_shape(rng);
                    let sb: Vec<u64> = if rng.chance(1, 2) { vec![1] } else { sa.iter().map(|d| if rng.chance(1, 2) { 1 } else { *d }).collect() };
                    if bshape(&sa, &sb).is_some() {
                        break if rng.chance(1, 2) { (sa, sb) } else { (sb, sa) };
                    }
                };
                let a: Vec<u128> = (0..numel(&sa)).map(|_| rng.u128() & mask(w)).collect();
                let b: Vec<u128> = (0..numel(&sb)).map(|_| {
                    let sh = rng.below(w as u64) as u32;
                    let v = (rng.u128() & mask(w)) >> sh;
                    let v = if v == 0 { 1 } else { v };
                    if sg && rng.chance(1, 2) { v.wrapping_neg() & mask(w) } else { v }
                }).collect();
                div_run(out, "div_random", sg, w, w, &sa, &a, &sb, &b, None);
            }
        }
        // mixed widths (dividend and divisor of different lengths): tied to the model and judged
        for &(m, n) in &[(8u32, 4u32), (4, 8), (16, 8), (8, 16), (32, 8), (64, 16), (2, 4)] {
            let ca = corners(m, rng, 3);
            let cd = corners(n, rng, 3);
            div_run(out, "div_mixed_widths", sg, m, n, &[ca.len() as u64, 1], &ca, &[cd.len() as u64], &cd, None);
        }
        // unsupported widths are rejected
        for &(m, n) in &[(1u32, 1u32), (3, 3), (6, 6), (8, 1), (12, 12), (8, 5), (5, 8), (1, 8)] {
            div_run(out, "div_reject", sg, m, n, &[2], &[1, mask(m)], &[2], &[1, mask(n)], None);
        }
    }
}

/// T-tie: the real instantiated + inlined BinaryAdd graph, exported, evaluated inside Coq on ALL
/// operand pairs of width `w` and compared with the proved adder model (Model/GraphTiesAdd.v).
fn adder_graph_exhaustive(ob: bool, w: u32, out: &mut Out) {
    use ciphercore_base::inline::inline_ops::{inline_operations, InlineConfig, InlineMode};
    let r = (|| -> ciphercore_base::errors::Result<(ciphercore_base::graphs::Context, ciphercore_base::graphs::Graph, u64, u64, u64)> {
        let c = simple_context(|g| {
            let a = g.input(array_type(vec![w as u64], BIT))?;
            let b = g.input(array_type(vec![w as u64], BIT))?;
            g.custom_op(CustomOperation::new(BinaryAdd { overflow_bit: ob }), vec![a, b])
        })?;
        let inst = run_instantiation_pass(c)?;
        let inl = inline_operations(&inst.get_context(), InlineConfig { default_mode: InlineMode::Simple, ..Default::default() })?;
        let kc = inl.get_context();
        let mg = kc.get_main_graph()?;
        let ins: Vec<u64> = mg.get_nodes().iter().filter(|n| n.get_operation().is_input()).map(|n| n.get_id()).collect();
        let oid = mg.get_output_node()?.get_id();
        Ok((kc, mg, ins[0], ins[1], oid))
    })();
    let desc = json!({"op": "BinaryAdd", "overflow_bit": ob, "width": w});
    match r {
        Ok((_keep, mg, i0, i1, oid)) => {
            out.stat_n("T:graph_nodes", mg.get_nodes().len() as u64);
            out.case("T:graph_exhaustive", format!("graph_add_exhaustive {} {} {} {} {}%nat {}", crate::export::nodes_coq(&mg), i0, i1, oid, w, cb(ob)), "true".into(), desc, true);
        }
        Err(_) => out.stat("T:graph_rejected"),
    }
}

pub fn run(tier: &str, seed: u64, out: &mut Out) {
    for &w in if tier == "thorough" { &[1u32, 2, 4, 8][..] } else { &[1u32, 2, 4][..] } {
        for &ob in &[false, true] {
            adder_graph_exhaustive(ob, w, out);
        }
    }
    let mut rng = Rng::new(seed ^ 0xC17);
    run_mux(tier, &mut rng, out);
    run_adder(tier, &mut rng, out);
    run_clip(tier, &mut rng, out);
    run_div(tier, &mut rng, out);
}

//! ccverif: runs /repo's code on generated inputs and writes the observations, as Gallina
//! terms, for the Coq side to check (see /verif/DESIGN.md sections 1 and 3).
mod c13;
mod coqfmt;
mod gen;
mod out;
mod rng;

fn main() {
    let args: Vec<String> = std::env::args().collect();
    if args.len() < 5 {
        eprintln!("usage: ccverif <property> <tier> <seed> <outfile>");
        std::process::exit(2);
    }
    let (prop, tier, seed, outfile) = (args[1].as_str(), args[2].as_str(), args[3].parse::<u64>().unwrap_or(0), args[4].as_str());
    // panics are observations: keep them quiet
    std::panic::set_hook(Box::new(|_| {}));
    let mut out = out::Out::new(outfile);
    match prop {
        "C13" => {
            out.note("header", serde_json::json!(c13::HEADER));
            c13::run(tier, seed, &mut out)
        }
        _ => {
            eprintln!("unknown property {}", prop);
            std::process::exit(2);
        }
    }
    out.finish();
}

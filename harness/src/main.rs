//! ccverif: runs /repo's code on generated inputs and writes the observations, as Gallina
//! terms, for the Coq side to check (see /verif/DESIGN.md sections 1 and 3).
#![allow(dead_code)]
mod c01;
mod c01deep;
mod c02;
mod c03;
mod c04;
mod c05;
mod c06;
mod c07;
mod c08;
mod c09;
mod c10;
mod c11;
mod c12;
mod c13;
mod c14;
mod c15;
mod c16;
mod c17;
mod c18;
mod c19;
mod c20;
mod coqfmt;
mod export;
mod progen;
mod mpcgen;
mod exec3;
mod gen;
mod out;
mod rng;

fn main() {
    let args: Vec<String> = std::env::args().collect();
    if args.len() < 5 {
        eprintln!("usage: ccverif <property> <tier> <seed> <outfile>");
        std::process::exit(2);
    }
    let (prop, tier, seed, outfile) = (args[1].as_str(), args[2].as_str(), args[3].parse::<u64>().unwrap_or(0), args[4].as_str());
    // panics are observations: keep them quiet
    if std::env::var("VERIF_PANIC_MSG").is_err() {
        std::panic::set_hook(Box::new(|_| {}));
    }
    let mut out = out::Out::new(outfile);
    match prop {
        "C01" => { out.note("header", serde_json::json!(c01::HEADER)); c01::run(tier, seed, &mut out) }
        "C02" => { out.note("header", serde_json::json!(c02::HEADER)); c02::run(tier, seed, &mut out) }
        "C03" => { out.note("header", serde_json::json!(c03::HEADER)); c03::run(tier, seed, &mut out) }
        "C04" => { out.note("header", serde_json::json!(c04::HEADER)); c04::run(tier, seed, &mut out) }
        "C05" => { out.note("header", serde_json::json!(c05::HEADER)); c05::run(tier, seed, &mut out) }
        "C06" => { out.note("header", serde_json::json!(c06::HEADER)); c06::run(tier, seed, &mut out) }
        "C07" => { out.note("header", serde_json::json!(c07::HEADER)); c07::run(tier, seed, &mut out) }
        "C08" => { out.note("header", serde_json::json!(c08::HEADER)); c08::run(tier, seed, &mut out) }
        "C09" => { out.note("header", serde_json::json!(c09::HEADER)); c09::run(tier, seed, &mut out) }
        "C10" => { out.note("header", serde_json::json!(c10::HEADER)); c10::run(tier, seed, &mut out) }
        "C11" => { out.note("header", serde_json::json!(c11::HEADER)); c11::run(tier, seed, &mut out) }
        "C12" => { out.note("header", serde_json::json!(c12::HEADER)); c12::run(tier, seed, &mut out) }
        "C13" => { out.note("header", serde_json::json!(c13::HEADER)); c13::run(tier, seed, &mut out) }
        "C14" => { out.note("header", serde_json::json!(c14::HEADER)); c14::run(tier, seed, &mut out) }
        "C15" => { out.note("header", serde_json::json!(c15::HEADER)); c15::run(tier, seed, &mut out) }
        "C16" => { out.note("header", serde_json::json!(c16::HEADER)); c16::run(tier, seed, &mut out) }
        "C17" => { out.note("header", serde_json::json!(c17::HEADER)); c17::run(tier, seed, &mut out) }
        "C18" => { out.note("header", serde_json::json!(c18::HEADER)); c18::run(tier, seed, &mut out) }
        "C19" => { out.note("header", serde_json::json!(c19::HEADER)); c19::run(tier, seed, &mut out) }
        "C20" => { out.note("header", serde_json::json!(c20::HEADER)); c20::run(tier, seed, &mut out) }
        _ => {
            eprintln!("unknown property {}", prop);
            std::process::exit(2);
        }
    }
    out.finish();
}

//! C06 — graph optimisation preserves meaning and interface.
//! Structural tie of Model/Opt.v (the four passes and their composition) with optimize_context,
//! plus the native semantic/interface oracle on the real optimizer output.
use crate::coqfmt::*;
use crate::export::*;
use crate::gen::*;
use crate::out::Out;
use crate::progen::*;
use crate::rng::Rng;
use ciphercore_base::data_types::*;
use ciphercore_base::data_values::Value;
use ciphercore_base::evaluators::simple_evaluator::SimpleEvaluator;
use ciphercore_base::evaluators::Evaluator;
use ciphercore_base::graphs::*;
use ciphercore_base::optimizer::optimize::optimize_context;
use serde_json::json;

pub const HEADER: &str = "From CC Require Import Base.Prelude Base.Scalar Base.Ty Base.Shape Graph.Value Graph.IR Graph.Eval Model.Opt.";

pub const OPT_OPS: [&str; 43] = [
    "add", "sub", "mul", "mixed", "dot", "dot", "matmul", "sum", "get", "getslice", "reshape", "nop", "stack", "concat",
    "constant", "constant", "constant", "zeros", "ones", "a2b", "a2b", "b2a", "b2a", "tuple", "tuple", "named", "vector", "vector",
    "tupleget", "tupleget", "namedget", "namedget", "vectorget", "vectorget", "vectorget", "zip", "zip", "a2v", "a2v", "v2a",
    "dup", "dup", "annot",
];

pub fn map_coq(old: &Graph, m: &ciphercore_base::custom_ops::ContextMappings) -> String {
    let items: Vec<String> = old
        .get_nodes()
        .iter()
        .map(|n| if m.contains_node(n) { format!("Some {}", m.get_node(n).get_id()) } else { "None".into() })
        .collect();
    format!("[{}]", items.join("; "))
}

/// is this op's value taken from randomness / outside (must be replayed through the mapping)
fn randomizing(op: &Operation) -> bool {
    matches!(op, Operation::Random(_) | Operation::RandomPermutation(_) | Operation::CuckooToPermutation | Operation::DecomposeSwitchingMap(_))
}

/// Native oracle of the property on one (program, optimised program, mapping, inputs).
pub fn oracle(p_g: &Graph, new_g: &Graph, m: &ciphercore_base::custom_ops::ContextMappings, inputs: &[Value], rng: &mut Rng, out: &mut Out, desc: &serde_json::Value) {
    let mut seed = [0u8; 16];
    for b in seed.iter_mut() { *b = rng.next() as u8; }
    let old_vals = eval_all(p_g, inputs, seed);
    // reverse map new -> some old node (for replaying randomness)
    let mut rev: std::collections::HashMap<u64, u64> = std::collections::HashMap::new();
    for n in p_g.get_nodes() { if m.contains_node(&n) { rev.entry(m.get_node(&n).get_id()).or_insert(n.get_id()); } }
    // evaluate the new graph with replayed randomness
    let mut ev = SimpleEvaluator::new(Some(seed)).unwrap();
    let _ = ev.preprocess(&new_g.get_context());
    let mut new_vals: Vec<Outcome<Value>> = vec![];
    let mut input_id = 0;
    for node in new_g.get_nodes() {
        let mut deps = vec![]; let mut ok = true;
        for d in node.get_node_dependencies() { match &new_vals[d.get_id() as usize] { Outcome::Ok(v) => deps.push(v.clone()), _ => ok = false } }
        if !ok { new_vals.push(Outcome::Err); continue; }
        let op = node.get_operation();
        let r = if op.is_input() { let v = inputs[input_id].clone(); input_id += 1; Outcome::Ok(v) }
        else if randomizing(&op) { match rev.get(&node.get_id()) { Some(o) => old_vals[*o as usize].clone(), None => { out.violation("random-node-without-preimage", desc.clone(), format!("new node {} draws randomness but no old node maps to it", node.get_id())); Outcome::Err } } }
        else { let n2 = node.clone(); observe(|| ev.evaluate_node(n2, deps)) };
        new_vals.push(r);
    }
    // 1. mapped nodes compute the same value
    for n in p_g.get_nodes() {
        if !m.contains_node(&n) { continue; }
        let j = m.get_node(&n).get_id() as usize;
        match (&old_vals[n.get_id() as usize], &new_vals[j]) {
            (Outcome::Ok(a), Outcome::Ok(b)) => { if a != b { out.violation("mapped-node-value-differs", desc.clone(), format!("old node {} ({}) -> new node {}: values differ", n.get_id(), n.get_operation(), j)); return; } else { out.oracle_ok(); } }
            (Outcome::Ok(_), other) => { out.violation("optimised-graph-fails", desc.clone(), format!("old node {} evaluates, new node {} gives {}", n.get_id(), j, other.tag())); return; }
            _ => {}
        }
    }
    // 2. inputs kept in order with type and name
    let ins_old: Vec<(Type, Option<String>)> = p_g.get_nodes().iter().filter(|n| n.get_operation().is_input()).map(|n| (n.get_type().unwrap(), n.get_name().unwrap())).collect();
    let ins_new: Vec<(Type, Option<String>)> = new_g.get_nodes().iter().filter(|n| n.get_operation().is_input()).map(|n| (n.get_type().unwrap(), n.get_name().unwrap())).collect();
    if ins_old != ins_new { out.violation("inputs-changed", desc.clone(), format!("{:?} vs {:?}", ins_old.len(), ins_new.len())); } else { out.oracle_ok(); }
    // 3. Send markers of everything the (optimised) output still depends on are kept, on the image
    let outn = new_g.get_output_node().unwrap();
    let mut live = std::collections::HashSet::new(); live.insert(outn.get_id());
    for n in new_g.get_nodes().iter().rev() { if live.contains(&n.get_id()) { for d in n.get_node_dependencies() { live.insert(d.get_id()); } } }
    for n in p_g.get_nodes() {
        if !m.contains_node(&n) { continue; }
        let nn = m.get_node(&n);
        if !live.contains(&nn.get_id()) { continue; }
        for a in n.get_annotations().unwrap() {
            if let NodeAnnotation::Send(_, _) = a {
                if !nn.get_annotations().unwrap().contains(&a) { out.violation("send-marker-lost", desc.clone(), format!("old node {} has {:?}, its live image {} does not", n.get_id(), a, nn.get_id())); } else { out.oracle_ok(); }
            }
        }
    }
    // 4. recorded types are the ones type inference re-derives: reload and compare
    let ctx = new_g.get_context();
    match serde_json::to_string(&ctx) {
        Ok(s) => match observe(|| serde_json::from_str::<Context>(&s).map_err(|e| ciphercore_base::errors::Error::from(anyhow_like(e)))) {
            Outcome::Ok(c2) => {
                let g2 = c2.get_main_graph().unwrap();
                for (a, b) in new_g.get_nodes().iter().zip(g2.get_nodes().iter()) {
                    if a.get_type().unwrap() != b.get_type().unwrap() { out.violation("reloaded-type-differs", desc.clone(), format!("node {}: stored {} vs re-inferred {}", a.get_id(), a.get_type().unwrap(), b.get_type().unwrap())); break; }
                }
                out.oracle_ok();
            }
            _ => out.violation("optimised-context-does-not-reload", desc.clone(), "serde round trip of the optimised context fails".into()),
        },
        Err(_) => out.violation("optimised-context-does-not-serialize", desc.clone(), "to_string failed".into()),
    }
}
fn anyhow_like(e: serde_json::Error) -> std::io::Error { std::io::Error::new(std::io::ErrorKind::Other, e.to_string()) }

pub fn run(tier: &str, seed: u64, out: &mut Out) {
    let mut rng = Rng::new(seed ^ 0xC06);
    let n = match tier { "thorough" => 1500, "search" => 3000, _ => 220 };
    for i in 0..n {
        let st = *rng.pick(&ALL_ST);
        let with_random = i % 4 == 3;
        let mut ops = OPT_OPS.to_vec();
        if with_random { ops.extend_from_slice(&["random", "prf", "prf", "dup"]); }
        let cfg = GenCfg { n_inputs: 1 + rng.below(3) as usize, n_ops: 4 + rng.below(14) as usize, scalar_types: vec![st, st, UINT64, BIT], ops, small: true };
        let p = gen_program(&mut rng, &cfg);
        run_one(&p, i, &mut rng, out);
    }
    // network-send markers directly on getter / conversion nodes that the meta-operation pass
    // resolves through a proxy (the marker must survive on the node the original is mapped to)
    let n_dir = match tier { "thorough" => 60, "search" => 200, _ => 12 };
    for i in 0..n_dir {
        let p = getter_marker_program(&mut rng, i);
        out.stat("stream:marker-on-getter");
        run_one(&p, 100000 + i, &mut rng, out);
    }
}

/// x, y inputs; a getter or conversion of a freshly built container, annotated Send, feeds the output
fn getter_marker_program(rng: &mut Rng, variant: usize) -> Prog {
    use ciphercore_base::graphs::{create_context, NodeAnnotation};
    let ctx = create_context().unwrap();
    let g = ctx.create_graph().unwrap();
    let st = *rng.pick(&[UINT8, INT32, UINT64, INT64]);
    let t = array_type(vec![1 + rng.below(3)], st);
    let x = g.input(t.clone()).unwrap();
    let y = g.input(t.clone()).unwrap();
    let s = x.add(y.clone()).unwrap();
    let marked = match variant % 5 {
        0 => g.create_tuple(vec![s.clone(), y.clone()]).unwrap().tuple_get(0).unwrap(),
        1 => { let i1 = g.constant(scalar_type(UINT64), Value::from_scalar(1u64, UINT64).unwrap()).unwrap(); g.create_vector(t.clone(), vec![y.clone(), s.clone()]).unwrap().vector_get(i1).unwrap() }
        2 => g.create_named_tuple(vec![("a".to_owned(), y.clone()), ("b".to_owned(), s.clone())]).unwrap().named_tuple_get("b".to_owned()).unwrap(),
        3 => s.a2b().unwrap().b2a(st).unwrap(),
        _ => { let i0 = g.constant(scalar_type(UINT64), Value::from_scalar(0u64, UINT64).unwrap()).unwrap(); g.create_vector(t.clone(), vec![s.clone(), y.clone()]).unwrap().vector_get(i0).unwrap() }
    };
    let (a, b) = (rng.below(3), rng.below(3));
    marked.add_annotation(NodeAnnotation::Send(a, (a + 1 + b % 2) % 3)).unwrap();
    let o = marked.multiply(x).unwrap();
    g.set_output_node(o).unwrap();
    g.finalize().unwrap();
    ctx.set_main_graph(g.clone()).unwrap();
    ctx.finalize().unwrap();
    Prog { ctx, g, input_types: vec![t.clone(), t], attempts: vec![] }
}

fn run_one(p: &Prog, i: usize, rng: &mut Rng, out: &mut Out) {
    {
        let ops_desc: Vec<String> = p.g.get_nodes().iter().map(|n| op_name(&n.get_operation())).collect();
        for o in ops_desc.iter() { out.stat(&format!("op:{}", o)); }
        let desc = json!({"ops": ops_desc, "input_types": p.input_types.iter().map(|t| format!("{}", t)).collect::<Vec<_>>(), "index": i});
        let ctx = p.ctx.clone();
        let r = observe(|| optimize_context(&ctx, SimpleEvaluator::new(None)?));
        out.stat(&format!("optimize:{}", r.tag()));
        let lhs = format!("optimize_graph {} {}", nodes_coq(&p.g), match p.g.get_output_node() { Ok(n) => format!("(Some {})", n.get_id()), Err(_) => "None".into() });
        let rhs = match &r {
            Outcome::Ok(mc) => {
                let ng = mc.get_context().get_main_graph().unwrap();
                let removed = p.g.get_nodes().len() as i64 - ng.get_nodes().len() as i64;
                out.stat(if removed > 0 { "rewritten:yes" } else { "rewritten:no" });
                format!("(Ok (mkPassOut {} {} {}))", nodes_coq(&ng), map_coq(&p.g, &mc.mappings), match ng.get_output_node() { Ok(n) => format!("(Some {})", n.get_id()), Err(_) => "None".into() })
            }
            Outcome::Err => "Err".into(),
            Outcome::Panic => "Panic".into(),
        };
        let nontrivial = match &r { Outcome::Ok(mc) => mc.get_context().get_main_graph().unwrap().get_nodes().len() != p.g.get_nodes().len(), _ => true };
        out.case("optimize_graph", lhs, rhs, desc.clone(), nontrivial);
        match &r {
            Outcome::Ok(mc) => {
                let ng = mc.get_context().get_main_graph().unwrap();
                for _ in 0..2 {
                    let inputs: Vec<Value> = p.input_types.iter().map(|t| gen_value(t, rng)).collect();
                    oracle(&p.g, &ng, &mc.mappings, &inputs, rng, out, &desc);
                }
            }
            Outcome::Panic => out.violation("optimizer-panics", desc.clone(), "optimize_context panicked on a well-typed inlined context".into()),
            Outcome::Err => {
                // an Err is legitimate only if evaluation of the original also fails for the folded constants
                let inputs: Vec<Value> = p.input_types.iter().map(|t| gen_value(t, rng)).collect();
                let vals = eval_all(&p.g, &inputs, [7u8; 16]);
                if vals.iter().all(|v| matches!(v, Outcome::Ok(_))) { out.violation("optimizer-rejects-evaluable-graph", desc.clone(), "optimize_context returned Err but the graph evaluates".into()); } else { out.oracle_ok(); }
            }
        }
    }
}

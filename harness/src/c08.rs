//! C08 — custom-operation instantiation is total and meaning-preserving.
//! (1) catalogue injectivity: every CustomOperationBody of the crate over a parameter grid,
//!     op1 != op2 => get_name(op1) != get_name(op2)                       (native oracle, exhaustive)
//! (2) pass correspondence: run_instantiation_pass on generated contexts vs Model/Instantiate.v
//!     instantiated on the catalogue table exported for the case            (Coq cases)
//! (3) semantics: the instantiated context evaluated as a whole vs every step evaluated on
//!     its own (one-operation contexts) on the same argument values         (native oracle)
use crate::coqfmt::*;
use crate::out::Out;
use crate::rng::Rng;
use ciphercore_base::custom_ops::{run_instantiation_pass, CustomOperation};
use ciphercore_base::data_types::*;
use ciphercore_base::data_values::Value;
use ciphercore_base::evaluators::random_evaluate;
use ciphercore_base::graphs::{create_context, Context, Graph, Node, Operation};
use serde_json::{json, Value as J};
use std::collections::BTreeMap;

pub const HEADER: &str = "From CC Require Import Base.Prelude Base.Scalar Base.Ty Model.Instantiate.";

// ------------------------------------------------------------------------------ catalogue
/// One grid: the typetag name of a CustomOperationBody and, per field, the values to sweep.
/// Operations are built through their serde form, which reaches the crate-private ones too.
struct GridSpec {
    ty: &'static str,
    fields: Vec<(&'static str, Vec<J>)>,
    public: bool,
}

fn grid(ty: &'static str, public: bool, fields: Vec<(&'static str, Vec<J>)>) -> GridSpec {
    GridSpec { ty, fields, public }
}

fn bools() -> Vec<J> {
    vec![json!(false), json!(true)]
}

fn catalogue_specs() -> Vec<GridSpec> {
    let fp = || {
        let mut v = vec![];
        for fb in [0u64, 10, 15, 16] {
            for dbg in [false, true] {
                v.push(json!({"fractional_bits": fb, "debug": dbg}));
            }
        }
        v
    };
    let iters = || vec![json!(1), json!(2), json!(5)];
    let caps = || vec![json!(10), json!(15), json!(20)];
    let ids = || vec![json!(0), json!(1), json!(2)];
    let mut v = vec![
        grid("Not", true, vec![]),
        grid("Or", true, vec![]),
        grid("Mux", true, vec![]),
        grid("Equal", true, vec![]),
        grid("NotEqual", true, vec![]),
    ];
    for t in ["GreaterThan", "LessThan", "LessThanEqualTo", "GreaterThanEqualTo", "Min", "Max"] {
        v.push(grid(t, true, vec![("signed_comparison", bools())]));
    }
    v.push(grid("BinaryAdd", true, vec![("overflow_bit", bools())]));
    v.push(grid("BinaryAddTransposed", false, vec![("overflow_bit", bools())]));
    v.push(grid("Clip2K", true, vec![("k", vec![json!(0), json!(1), json!(2), json!(10), json!(63)])]));
    v.push(grid("LongDivision", true, vec![("signed", bools())]));
    v.push(grid("SortByIntegerKey", true, vec![("key", vec![json!("a"), json!("b"), json!("key"), json!("")])]));
    for t in ["NewtonInversion", "InverseSqrt", "GoldschmidtDivision"] {
        v.push(grid(t, true, vec![("iterations", iters()), ("denominator_cap_2k", caps())]));
    }
    v.push(grid("TaylorExponent", true, vec![("taylor_terms", vec![json!(3), json!(5)]), ("fixed_precision_points", vec![json!(4), json!(10), json!(15)])]));
    v.push(grid("ApproxExponent", true, vec![("precision", vec![json!(4), json!(10), json!(15)])]));
    for t in ["ApproxSigmoid", "ApproxGelu", "ApproxGeluDerivative"] {
        v.push(grid(t, true, vec![("precision", vec![json!(10), json!(15)]), ("approximation_log_buckets", vec![json!(4), json!(5)])]));
    }
    v.push(grid("FixedMultiply", true, vec![("config", fp())]));
    v.push(grid("AucScore", true, vec![("fp", fp())]));
    v.push(grid("LowMC", true, vec![("s_boxes_per_round", vec![json!(10), json!(20)]), ("rounds", vec![json!(5), json!(20)]), ("block_size", vec![json!("SIZE80"), json!("SIZE128")])]));
    // crate-private operations of the MPC compiler
    for t in ["AddMPC", "SubtractMPC", "MultiplyMPC", "DotMPC", "MatmulMPC", "MixedMultiplyMPC", "A2BMPC", "SimpleHash"] {
        v.push(grid(t, false, vec![]));
    }
    v.push(grid("GemmMPC", false, vec![("transpose_a", bools()), ("transpose_b", bools())]));
    v.push(grid("B2AMPC", false, vec![("st", vec![json!("bit"), json!("u8"), json!("i8"), json!("i32"), json!("u64"), json!("i64"), json!("u128")])]));
    // TruncateMPC { scale: u128 } is not in the grid: typetag cannot deserialize a u128 field
    // ("u128 is not supported"), and the struct is private, so it cannot be built from here.
    v.push(grid("TruncateMPC2K", false, vec![("k", vec![json!(0), json!(1), json!(10), json!(40)])]));
    v.push(grid("ApplyPermutationMPC", false, vec![("inverse_permutation", bools()), ("reveal_output", bools())]));
    v.push(grid("RadixSortMPC", false, vec![("key", vec![json!("a"), json!("b"), json!("a, bits_group_size=2")]), ("bits_chunk_size", vec![json!(1), json!(2), json!(3)])]));
    for t in ["PermutationMPC", "DuplicationMPC", "SwitchingMPC"] {
        v.push(grid(t, false, vec![("sender_id", ids()), ("programmer_id", ids())]));
    }
    v.push(grid("ObliviousTransfer", false, vec![("sender_id", ids()), ("receiver_id", ids())]));
    v.push(grid("JoinMPC", false, vec![
        ("join_t", vec![json!("Inner"), json!("Left"), json!("Union"), json!("Full")]),
        ("headers", vec![json!([["a", "a"]]), json!([["a", "b"]]), json!([["a", "a"], ["b", "b"]]), json!([["a\", \"a", "b"]])]),
        ("has_column_masks", bools()),
    ]));
    v
}

fn expand(spec: &GridSpec) -> Vec<J> {
    let mut acc: Vec<serde_json::Map<String, J>> = vec![{
        let mut m = serde_json::Map::new();
        m.insert("type".into(), json!(spec.ty));
        m
    }];
    for (f, vals) in &spec.fields {
        let mut next = vec![];
        for m in &acc {
            for v in vals {
                let mut m2 = m.clone();
                m2.insert((*f).into(), v.clone());
                next.push(m2);
            }
        }
        acc = next;
    }
    acc.into_iter().map(|m| json!({ "body": J::Object(m) })).collect()
}

/// Names of the fields (one level of nesting) on which two serde forms of one type differ.
fn differing_fields(a: &J, b: &J) -> Vec<String> {
    let mut r = vec![];
    if let (Some(ma), Some(mb)) = (a["body"].as_object(), b["body"].as_object()) {
        for (k, va) in ma {
            let vb = mb.get(k).cloned().unwrap_or(J::Null);
            if *va != vb {
                if let (Some(oa), Some(ob)) = (va.as_object(), vb.as_object()) {
                    for (k2, v2) in oa {
                        if Some(v2) != ob.get(k2) {
                            r.push(format!("{}.{}", k, k2));
                        }
                    }
                } else {
                    r.push(k.clone());
                }
            }
        }
    }
    r
}

fn catalogue(out: &mut Out) -> Vec<(J, CustomOperation, bool)> {
    let mut ops: Vec<(J, CustomOperation, bool)> = vec![];
    for spec in catalogue_specs() {
        for j in expand(&spec) {
            // from_str, not from_value: serde_json::Value does not carry u128 fields
            match serde_json::from_str::<CustomOperation>(&j.to_string()) {
                Ok(op) => {
                    out.stat(&format!("catalogue:{}", spec.ty));
                    ops.push((j, op, spec.public));
                }
                Err(e) => {
                    // the grid no longer matches the struct: a broken tie, not a silent skip
                    out.violation("catalogue-grid-does-not-deserialize", json!({"op": j}), format!("{}", e));
                }
            }
        }
    }
    ops
}

fn check_catalogue(out: &mut Out) {
    let ops = catalogue(out);
    out.stat_n("catalogue_ops", ops.len() as u64);
    out.stat("catalogue-not-swept:TruncateMPC(u128 field, typetag cannot deserialize)");
    let mut reported: BTreeMap<String, u64> = BTreeMap::new();
    for i in 0..ops.len() {
        let ni = ops[i].1.get_name();
        if ni.contains("::<") {
            out.violation("name-contains-separator", json!({"op": ops[i].0}), format!("get_name = {:?} contains the separator of Instantiation::get_name", ni));
        }
        // serde form round-trips and agrees with PartialEq (the key of the instantiation cache)
        let back = serde_json::to_value(&ops[i].1).unwrap_or(J::Null);
        if back != ops[i].0 {
            out.violation("serde-form-changed", json!({"op": ops[i].0, "back": back}), "serde form of the operation does not round-trip".into());
        }
        for j in (i + 1)..ops.len() {
            let eq = ops[i].1 == ops[j].1;
            let jeq = ops[i].0 == ops[j].0;
            if eq != jeq {
                out.violation("eq-vs-serde", json!({"op1": ops[i].0, "op2": ops[j].0}), format!("PartialEq says {}, serde forms equal {}", eq, jeq));
                continue;
            }
            if eq {
                continue;
            }
            let nj = ops[j].1.get_name();
            if ni == nj {
                let t1 = ops[i].0["body"]["type"].as_str().unwrap_or("?").to_string();
                let t2 = ops[j].0["body"]["type"].as_str().unwrap_or("?").to_string();
                let class = if t1 == t2 {
                    format!("name-collision-{}-{}", t1, differing_fields(&ops[i].0, &ops[j].0).join("+"))
                } else {
                    format!("name-collision-{}-{}", t1, t2)
                };
                let n = reported.entry(class.clone()).or_insert(0);
                *n += 1;
                if *n == 1 {
                    out.violation(&class, json!({"op1": ops[i].0, "op2": ops[j].0, "public": ops[i].2 && ops[j].2}),
                        format!("different operations, same get_name {:?}", ni));
                }
            } else {
                out.oracle_ok();
            }
        }
    }
    for (c, n) in reported {
        out.stat_n(&format!("collision-pairs:{}", c), n);
    }
}

// ------------------------------------------------------------------------------ type printing
/// Type printing is the other half of Instantiation::get_name: distinct argument-type lists
/// must print differently.  Swept over a pool (pairwise, exhaustive on the pool).
fn check_type_printing(out: &mut Out, rng: &mut Rng, n: usize) {
    let mut pool: Vec<Vec<Type>> = vec![];
    let base = [
        scalar_type(BIT), scalar_type(INT32), array_type(vec![1], BIT), array_type(vec![1, 1], BIT),
        array_type(vec![11], BIT), array_type(vec![1, 1], INT32), array_type(vec![2, 3], UINT64),
        tuple_type(vec![]), tuple_type(vec![scalar_type(BIT)]), tuple_type(vec![scalar_type(BIT), scalar_type(BIT)]),
        tuple_type(vec![tuple_type(vec![scalar_type(BIT)]), scalar_type(BIT)]),
        tuple_type(vec![scalar_type(BIT), tuple_type(vec![scalar_type(BIT)])]),
        vector_type(2, scalar_type(BIT)), vector_type(2, tuple_type(vec![scalar_type(BIT)])),
        named_tuple_type(vec![("a".into(), scalar_type(BIT))]),
        named_tuple_type(vec![("a".into(), scalar_type(BIT)), ("b".into(), scalar_type(BIT))]),
        named_tuple_type(vec![("b".into(), scalar_type(BIT)), ("a".into(), scalar_type(BIT))]),
    ];
    for t in base.iter() {
        pool.push(vec![t.clone()]);
        pool.push(vec![t.clone(), t.clone()]);
    }
    pool.push(vec![]);
    pool.push(vec![scalar_type(BIT), scalar_type(BIT), scalar_type(BIT)]);
    while pool.len() < n {
        let k = 1 + rng.below(3) as usize;
        pool.push((0..k).map(|_| crate::gen::random_type(rng, 2)).collect());
    }
    let show = |ts: &Vec<Type>| ts.iter().map(|t| format!("{t}")).collect::<Vec<_>>().join(", ");
    let strs: Vec<String> = pool.iter().map(show).collect();
    for i in 0..pool.len() {
        // model of the printer, on every list of the pool
        out.case("ty_str", format!("map ty_str {}", list(&pool[i], |t| ty(t))),
            list(&pool[i], |t| coq_string(&format!("{t}"))), json!({"types": strs[i]}), pool[i].iter().any(|t| !t.is_scalar()));
        for j in (i + 1)..pool.len() {
            if pool[i] != pool[j] {
                if strs[i] == strs[j] && pool[i].iter().map(no_empty_named).collect::<Vec<_>>() == pool[j].iter().map(no_empty_named).collect::<Vec<_>>() {
                    // known ambiguity of Display for Type, outside the property's quantifier: no
                    // library operation takes an empty tuple (see "assumes" in tools/props/C08.json
                    // and C08_type_printing_not_injective in Props/C08.v); counted, not hidden
                    out.stat("type-printing:ambiguous-pair:empty-tuple-vs-empty-named-tuple");
                } else if strs[i] == strs[j] {
                    out.violation("type-printing-collision", json!({"types1": format!("{:?}", pool[i]), "types2": format!("{:?}", pool[j])}), format!("both print as {:?}", strs[i]));
                } else {
                    out.oracle_ok();
                }
            }
        }
    }
    out.stat_n("type_lists_compared", pool.len() as u64);
}

/// The type with every empty named tuple replaced by the empty tuple (both print as "()").
fn no_empty_named(t: &Type) -> Type {
    match t {
        Type::Scalar(_) | Type::Array(_, _) => t.clone(),
        Type::Vector(n, t1) => vector_type(*n, no_empty_named(t1)),
        Type::Tuple(ts) => tuple_type(ts.iter().map(|x| no_empty_named(x)).collect()),
        Type::NamedTuple(fs) if fs.is_empty() => tuple_type(vec![]),
        Type::NamedTuple(fs) => named_tuple_type(fs.iter().map(|(n, x)| (n.clone(), no_empty_named(x))).collect()),
    }
}

/// The two printer ambiguities the model predicts (Props/C08.v), confirmed on the real code.
fn confirm_printer_ambiguities(out: &mut Out) {
    let a = named_tuple_type(vec![("a\\\": i32, \\\"b".into(), scalar_type(INT32))]);
    let b = named_tuple_type(vec![("a".into(), scalar_type(INT32)), ("b".into(), scalar_type(INT32))]);
    out.stat(&format!("type-printing:quote-in-field-name-collides:{}", a != b && format!("{a}") == format!("{b}")));
    let (c, d) = (tuple_type(vec![]), named_tuple_type(vec![]));
    out.stat(&format!("type-printing:empty-tuple-collides:{}", c != d && format!("{c}") == format!("{d}")));
    out.case("ty_str", format!("map ty_str {}", list(&[a.clone(), b.clone(), c.clone(), d.clone()], |t| ty(t))),
        list(&[a, b, c, d], |t| coq_string(&format!("{t}"))), json!({"types": "printer ambiguities"}), true);
}

// ------------------------------------------------------------------------------ export
fn fnv(s: &str) -> u64 {
    let mut h: u64 = 0xcbf29ce484222325;
    for b in s.bytes() {
        h ^= b as u64;
        h = h.wrapping_mul(0x100000001b3);
    }
    h >> 16 // 48 bits are plenty and keep the terms short
}

struct Exporter {
    ops: Vec<CustomOperation>,
}
impl Exporter {
    fn opid(&mut self, op: &CustomOperation) -> usize {
        if let Some(i) = self.ops.iter().position(|o| o == op) {
            return i;
        }
        self.ops.push(op.clone());
        self.ops.len() - 1
    }
    fn node(&mut self, n: &Node) -> String {
        let deps = list(&n.get_node_dependencies(), |d| format!("{}%N", d.get_id()));
        let t = ty(&n.get_type().expect("typed node"));
        match n.get_operation() {
            Operation::Input(_) => format!("nI {}", t),
            Operation::Call => {
                let g = n.get_graph_dependencies()[0].get_id();
                format!("nC {}%N {} {}", g, deps, t)
            }
            Operation::Custom(op) => format!("nX {}%N {} {}", self.opid(&op), deps, t),
            op => {
                let gdeps = list(&n.get_graph_dependencies(), |g| format!("{}%N", g.get_id()));
                let h = fnv(&serde_json::to_string(&op).unwrap_or_else(|_| format!("{:?}", op)));
                format!("nP {}%N {} {} {}", h, deps, gdeps, t)
            }
        }
    }
    fn graph_body(&mut self, g: &Graph) -> String {
        let nodes: Vec<String> = g.get_nodes().iter().map(|n| self.node(n)).collect();
        format!("[{}] {}%N", nodes.join("; "), g.get_output_node().expect("output").get_id())
    }
    fn context(&mut self, c: &Context) -> String {
        let gs: Vec<String> = c.get_graphs().iter().map(|g| format!("G {}", self.graph_body(g))).collect();
        format!("(C [{}] {}%N)", gs.join("; "), c.get_main_graph().expect("main").get_id())
    }
}

fn custom_keys(c: &Context) -> Vec<(CustomOperation, Vec<Type>)> {
    let mut r = vec![];
    for g in c.get_graphs() {
        for n in g.get_nodes() {
            if let Operation::Custom(op) = n.get_operation() {
                let tys = n.get_node_dependencies().iter().map(|d| d.get_type().unwrap()).collect();
                r.push((op, tys));
            }
        }
    }
    r
}

fn inst_name(op: &CustomOperation, tys: &[Type]) -> String {
    format!("__{}::<{}>", op.get_name(), tys.iter().map(|t| format!("{t}")).collect::<Vec<_>>().join(", "))
}

/// Catalogue table of a case: every instantiation reachable from the context (a plain
/// closure, no order), its body as exported term, and the number of graphs of the body.
struct Table {
    entries: Vec<String>,
    sizes: BTreeMap<String, u64>,
    nkeys: usize,
    nested: usize,
    nodes: usize,
}

fn export_table(ex: &mut Exporter, c: &Context) -> Table {
    let mut keys: Vec<(CustomOperation, Vec<Type>)> = vec![];
    let mut work = custom_keys(c);
    let mut t = Table { entries: vec![], sizes: BTreeMap::new(), nkeys: 0, nested: 0, nodes: 0 };
    let top = work.len();
    let mut seen_top = 0usize;
    while !work.is_empty() {
        let k = work.remove(0);
        seen_top += 1;
        if keys.iter().any(|k2| k2.0 == k.0 && k2.1 == k.1) {
            continue;
        }
        keys.push(k.clone());
        if seen_top > top {
            t.nested += 1;
        }
        let fake = create_context().unwrap();
        let id = ex.opid(&k.0);
        let keystr = format!("({}%N, {})", id, list(&k.1, |x| ty(x)));
        let (op, tys) = (k.0.clone(), k.1.clone());
        let f2 = fake.clone();
        match observe(std::panic::AssertUnwindSafe(move || op.instantiate(f2, tys))) {
            Outcome::Ok(g) => {
                g.set_as_main().unwrap();
                t.sizes.insert(inst_name(&k.0, &k.1), fake.get_graphs().len() as u64);
                t.nodes += fake.get_graphs().iter().map(|g| g.get_nodes().len()).sum::<usize>();
                let body = ex.context(&fake);
                t.entries.push(format!("({}, Ok {})", keystr, body));
                work.extend(custom_keys(&fake));
            }
            Outcome::Err => t.entries.push(format!("({}, Err)", keystr)),
            Outcome::Panic => t.entries.push(format!("({}, Panic)", keystr)),
        }
    }
    t.nkeys = keys.len();
    t
}

// ------------------------------------------------------------------------------ plans
#[derive(Clone)]
enum Step {
    Input(Type),
    Custom(CustomOperation, Vec<usize>),
    Prim(Operation, Vec<usize>),
    Call(usize, Vec<usize>),
}
#[derive(Clone)]
struct PGraph {
    steps: Vec<Step>,
    types: Vec<Type>,
    /// main graph: output = tuple of all non-input steps; callee: output = last step
    main: bool,
}

fn cop(j: J) -> CustomOperation {
    serde_json::from_value::<CustomOperation>(json!({ "body": j })).expect("operation of the plan pool")
}

fn is_bits(t: &Type) -> bool {
    t.is_array() && t.get_scalar_type() == BIT
}
fn is_i64(t: &Type) -> bool {
    t.is_array() && t.get_scalar_type() == INT64
}

/// Picks a custom operation and arguments among the steps so far; None if nothing fits.
fn pick_custom(pg: &PGraph, rng: &mut Rng, heavy: bool) -> Option<(CustomOperation, Vec<usize>)> {
    let bits: Vec<usize> = (0..pg.types.len()).filter(|&i| is_bits(&pg.types[i])).collect();
    let i64s: Vec<usize> = (0..pg.types.len()).filter(|&i| is_i64(&pg.types[i])).collect();
    let named: Vec<usize> = (0..pg.types.len()).filter(|&i| pg.types[i].is_named_tuple()).collect();
    let b = rng.chance(1, 2);
    let same_as = |i: usize, pool: &Vec<usize>, rng: &mut Rng| -> usize {
        let c: Vec<usize> = pool.iter().cloned().filter(|&j| pg.types[j] == pg.types[i]).collect();
        *rng.pick(&c)
    };
    for _ in 0..8 {
        let choice = rng.below(if heavy { 16 } else { 11 });
        match choice {
            0 if !bits.is_empty() => return Some((cop(json!({"type":"Not"})), vec![*rng.pick(&bits)])),
            1 if !bits.is_empty() => {
                let i = *rng.pick(&bits);
                return Some((cop(json!({"type":"Or"})), vec![i, same_as(i, &bits, rng)]));
            }
            2 | 3 if !bits.is_empty() => {
                let i = *rng.pick(&bits);
                let t = *rng.pick(&["GreaterThan", "LessThan", "LessThanEqualTo", "GreaterThanEqualTo"]);
                return Some((cop(json!({"type": t, "signed_comparison": b})), vec![i, same_as(i, &bits, rng)]));
            }
            4 if !bits.is_empty() => {
                let i = *rng.pick(&bits);
                let t = *rng.pick(&["Equal", "NotEqual"]);
                return Some((cop(json!({"type": t})), vec![i, same_as(i, &bits, rng)]));
            }
            5 | 6 if !bits.is_empty() => {
                let i = *rng.pick(&bits);
                let t = *rng.pick(&["Min", "Max"]);
                return Some((cop(json!({"type": t, "signed_comparison": b})), vec![i, same_as(i, &bits, rng)]));
            }
            7 if !bits.is_empty() => {
                let i = *rng.pick(&bits);
                return Some((cop(json!({"type":"BinaryAdd", "overflow_bit": false})), vec![i, same_as(i, &bits, rng)]));
            }
            8 if !bits.is_empty() => {
                // Mux(flag, x, y): flag = any bit array broadcastable to x; use x itself as flag
                let i = *rng.pick(&bits);
                return Some((cop(json!({"type":"Mux"})), vec![i, same_as(i, &bits, rng), same_as(i, &bits, rng)]));
            }
            9 if !bits.is_empty() => {
                let i = *rng.pick(&bits);
                return Some((cop(json!({"type":"Clip2K", "k": 1 + rng.below(2)})), vec![i]));
            }
            10 if !i64s.is_empty() => {
                let i = *rng.pick(&i64s);
                let fb = *rng.pick(&[10u64, 15]);
                return Some((cop(json!({"type":"FixedMultiply", "config": {"fractional_bits": fb, "debug": false}})), vec![i, same_as(i, &i64s, rng)]));
            }
            11 if !i64s.is_empty() => {
                let i = *rng.pick(&i64s);
                let p = *rng.pick(&[10u64, 15]);
                let t = *rng.pick(&["ApproxSigmoid", "ApproxGelu", "ApproxGeluDerivative"]);
                return Some((cop(json!({"type": t, "precision": p, "approximation_log_buckets": 4})), vec![i]));
            }
            12 if !i64s.is_empty() => {
                let i = *rng.pick(&i64s);
                return Some((cop(json!({"type":"ApproxExponent", "precision": *rng.pick(&[10u64, 15])})), vec![i]));
            }
            13 if !i64s.is_empty() => {
                let i = *rng.pick(&i64s);
                let t = *rng.pick(&["NewtonInversion", "InverseSqrt"]);
                return Some((cop(json!({"type": t, "iterations": 1 + rng.below(2), "denominator_cap_2k": 10})), vec![i]));
            }
            14 if !named.is_empty() => {
                let i = *rng.pick(&named);
                let key = rng.pick(&["a", "b"]).to_string();
                return Some((cop(json!({"type":"SortByIntegerKey", "key": key})), vec![i]));
            }
            15 if !i64s.is_empty() => {
                let i = *rng.pick(&i64s);
                return Some((cop(json!({"type":"LongDivision", "signed": b})), vec![i, same_as(i, &i64s, rng)]));
            }
            _ => {}
        }
    }
    None
}

const INPUT_BITS: [&[u64]; 5] = [&[4], &[2, 4], &[8], &[3, 8], &[1]];

fn gen_plan(rng: &mut Rng, heavy: bool) -> Vec<PGraph> {
    let ngraphs = 1 + rng.below(3) as usize;
    let mut plan: Vec<PGraph> = vec![];
    for gi in 0..ngraphs {
        let main = gi == ngraphs - 1;
        let mut pg = PGraph { steps: vec![], types: vec![], main };
        // inputs: a few bit arrays (repeated shapes so that instantiations repeat), sometimes integers
        let nin = 2 + rng.below(3) as usize;
        let shape_a = rng.pick(&INPUT_BITS).to_vec();
        // a later graph often repeats the inputs of an older one, so that it can call it
        let copy_from: Vec<Type> = if gi > 0 && rng.chance(2, 3) {
            plan[rng.below(gi as u64) as usize].steps.iter().filter_map(|s| if let Step::Input(t) = s { Some(t.clone()) } else { None }).collect()
        } else {
            vec![]
        };
        for t in copy_from {
            pg.steps.push(Step::Input(t.clone()));
            pg.types.push(t);
        }
        for k in 0..nin {
            let t = if heavy && rng.chance(1, 3) {
                array_type(vec![2], INT64)
            } else if heavy && rng.chance(1, 6) {
                named_tuple_type(vec![("a".into(), array_type(vec![3], UINT8)), ("b".into(), array_type(vec![3], INT16))])
            } else if rng.chance(1, 5) {
                array_type(vec![2], *rng.pick(&[UINT8, INT16, INT64]))
            } else if k < 2 || rng.chance(1, 2) {
                array_type(shape_a.clone(), BIT)
            } else {
                array_type(rng.pick(&INPUT_BITS).to_vec(), BIT)
            };
            pg.steps.push(Step::Input(t.clone()));
            pg.types.push(t);
        }
        let nsteps = 2 + rng.below(if main { 7 } else { 4 }) as usize;
        for _ in 0..nsteps {
            // build the candidate on the real API to learn its type; keep it only if it type-checks
            let cand: Option<Step> = match rng.below(10) {
                0 => {
                    let ints: Vec<usize> = (0..pg.types.len()).filter(|&i| pg.types[i].is_array() && pg.types[i].get_scalar_type() != BIT).collect();
                    if ints.is_empty() { None } else { Some(Step::Prim(Operation::A2B, vec![*rng.pick(&ints)])) }
                }
                1 => {
                    let bits: Vec<usize> = (0..pg.types.len()).filter(|&i| is_bits(&pg.types[i])).collect();
                    if bits.is_empty() { None } else {
                        let i = *rng.pick(&bits);
                        let c: Vec<usize> = bits.iter().cloned().filter(|&j| pg.types[j] == pg.types[i]).collect();
                        let op = if rng.chance(1, 2) { Operation::Add } else { Operation::Multiply };
                        Some(Step::Prim(op, vec![i, *rng.pick(&c)]))
                    }
                }
                2 | 3 if gi > 0 => {
                    // call an older graph with arguments of its input types, if available
                    let callee = rng.below(gi as u64) as usize;
                    let want: Vec<Type> = plan[callee].steps.iter().filter_map(|s| if let Step::Input(t) = s { Some(t.clone()) } else { None }).collect();
                    let mut args = vec![];
                    for w in &want {
                        let c: Vec<usize> = (0..pg.types.len()).filter(|&j| pg.types[j] == *w).collect();
                        if c.is_empty() { break; }
                        args.push(*rng.pick(&c));
                    }
                    if args.len() == want.len() { Some(Step::Call(callee, args)) } else { None }
                }
                _ => pick_custom(&pg, rng, heavy).map(|(op, a)| Step::Custom(op, a)),
            };
            if let Some(s) = cand {
                if let Some(t) = step_type(&plan, &pg, &s) {
                    pg.steps.push(s);
                    pg.types.push(t);
                }
            }
        }
        if !pg.steps.iter().any(|s| !matches!(s, Step::Input(_))) {
            // make sure every graph computes something
            pg.steps.push(Step::Prim(Operation::Add, vec![0, 0]));
            pg.types.push(pg.types[0].clone());
        }
        plan.push(pg);
    }
    plan
}

/// Type of a candidate step = type of a one-step graph built on the real API (None if rejected).
fn step_type(plan: &[PGraph], pg: &PGraph, s: &Step) -> Option<Type> {
    let args = match s {
        Step::Input(t) => return Some(t.clone()),
        Step::Custom(_, a) | Step::Prim(_, a) | Step::Call(_, a) => a.clone(),
    };
    let tys: Vec<Type> = args.iter().map(|&i| pg.types[i].clone()).collect();
    // the context must stay alive while its nodes are read (nodes hold weak pointers)
    let (c, _g, n) = single_step_context(plan, s, &tys)?;
    let t = n.get_type().ok();
    drop(c);
    t
}

/// A context computing one step on fresh inputs of the given types.
fn single_step_context(plan: &[PGraph], s: &Step, tys: &[Type]) -> Option<(Context, Graph, Node)> {
    let c = create_context().ok()?;
    let callee = if let Step::Call(k, _) = s { Some(build_graphs(&c, &plan[..=*k])?.pop()?) } else { None };
    let g = c.create_graph().ok()?;
    let ins: Vec<Node> = tys.iter().map(|t| g.input(t.clone())).collect::<Result<_, _>>().ok()?;
    let n = match s {
        Step::Input(_) => return None,
        Step::Custom(op, _) => g.custom_op(op.clone(), ins).ok()?,
        Step::Prim(op, _) => g.add_node(ins, vec![], op.clone()).ok()?,
        Step::Call(_, _) => g.call(callee?, ins).ok()?,
    };
    n.set_as_output().ok()?;
    g.finalize().ok()?;
    g.set_as_main().ok()?;
    c.finalize().ok()?;
    Some((c, g, n))
}

/// Builds the graphs of a plan into `c` (not finalized as a context); returns them in order.
fn build_graphs(c: &Context, plan: &[PGraph]) -> Option<Vec<Graph>> {
    let mut gs: Vec<Graph> = vec![];
    for pg in plan {
        let g = c.create_graph().ok()?;
        let mut nodes: Vec<Node> = vec![];
        for s in &pg.steps {
            let a = |ix: &Vec<usize>| ix.iter().map(|&i| nodes[i].clone()).collect::<Vec<Node>>();
            let n = match s {
                Step::Input(t) => g.input(t.clone()).ok()?,
                Step::Custom(op, ix) => g.custom_op(op.clone(), a(ix)).ok()?,
                Step::Prim(op, ix) => g.add_node(a(ix), vec![], op.clone()).ok()?,
                Step::Call(k, ix) => g.call(gs[*k].clone(), a(ix)).ok()?,
            };
            nodes.push(n);
        }
        let outn = if pg.main {
            let obs: Vec<Node> = (0..nodes.len()).filter(|&i| !matches!(pg.steps[i], Step::Input(_))).map(|i| nodes[i].clone()).collect();
            g.create_tuple(obs).ok()?
        } else {
            nodes.last()?.clone()
        };
        outn.set_as_output().ok()?;
        g.finalize().ok()?;
        gs.push(g);
    }
    Some(gs)
}

fn build_context(plan: &[PGraph]) -> Option<Context> {
    let c = create_context().ok()?;
    let gs = build_graphs(&c, plan)?;
    gs.last()?.set_as_main().ok()?;
    c.finalize().ok()?;
    Some(c)
}

// ------------------------------------------------------------------------------ values
fn rand_value(t: &Type, rng: &mut Rng) -> Value {
    match t {
        Type::Scalar(st) => Value::from_scalar(rand_elem(*st, rng), *st).unwrap(),
        Type::Array(sh, st) => {
            let n: u64 = sh.iter().product();
            let xs: Vec<i128> = (0..n).map(|_| rand_elem(*st, rng)).collect();
            Value::from_flattened_array(&xs, *st).unwrap()
        }
        Type::Vector(n, t1) => Value::from_vector((0..*n).map(|_| rand_value(t1, rng)).collect()),
        Type::Tuple(ts) => Value::from_vector(ts.iter().map(|t1| rand_value(t1, rng)).collect()),
        Type::NamedTuple(fs) => Value::from_vector(fs.iter().map(|(_, t1)| rand_value(t1, rng)).collect()),
    }
}
fn rand_elem(st: ScalarType, rng: &mut Rng) -> i128 {
    if st == BIT {
        return rng.below(2) as i128;
    }
    let w = st.size_in_bits() as u32;
    let span = std::cmp::min(w - 1, 20);
    let x = rng.below(1u64 << span) as i128;
    if st.is_signed() && rng.chance(1, 3) { -x } else { x }
}

/// Step-by-step evaluation of a plan graph: every custom / primitive / call step is evaluated
/// on its own context (instantiated on its own) on the values of its arguments.
fn eval_plan_graph(plan: &[PGraph], gi: usize, inputs: &[Value]) -> Result<Vec<Value>, String> {
    let pg = &plan[gi];
    let mut vals: Vec<Value> = vec![];
    let mut next_in = 0usize;
    for (si, s) in pg.steps.iter().enumerate() {
        let v = match s {
            Step::Input(_) => {
                next_in += 1;
                inputs[next_in - 1].clone()
            }
            Step::Call(k, ix) => {
                let a: Vec<Value> = ix.iter().map(|&i| vals[i].clone()).collect();
                let r = eval_plan_graph(plan, *k, &a)?;
                r.last().cloned().ok_or("empty callee")?
            }
            Step::Custom(_, ix) | Step::Prim(_, ix) => {
                let tys: Vec<Type> = ix.iter().map(|&i| pg.types[i].clone()).collect();
                let a: Vec<Value> = ix.iter().map(|&i| vals[i].clone()).collect();
                let (c, _, _) = single_step_context(plan, s, &tys).ok_or(format!("step {} does not build alone", si))?;
                let m = run_instantiation_pass(c).map_err(|e| format!("step {} alone: pass failed: {}", si, e))?;
                random_evaluate(m.get_context().get_main_graph().unwrap(), a).map_err(|e| format!("step {} alone: evaluation failed: {}", si, e))?
            }
        };
        vals.push(v);
    }
    Ok(vals)
}

fn step_name(s: &Step) -> String {
    match s {
        Step::Input(_) => "Input".into(),
        Step::Custom(op, _) => op.get_name(),
        Step::Prim(op, _) => format!("{:?}", op),
        Step::Call(k, _) => format!("Call(g{})", k),
    }
}

// ------------------------------------------------------------------------------ one case
/// `fail_class`: violation class to report if the pass fails (witness plans of a catalogue
/// collision report under the class of that collision).
fn run_case(plan: &[PGraph], label: &str, fail_class: Option<&str>, rng: &mut Rng, out: &mut Out) {
    let c = match build_context(plan) {
        Some(c) => c,
        None => {
            out.stat("plan:not-built");
            return;
        }
    };
    let mut ex = Exporter { ops: vec![] };
    let src = ex.context(&c);
    let table = export_table(&mut ex, &c);
    let ncustom = custom_keys(&c).len();
    let names_tbl = list(&ex.ops.iter().enumerate().collect::<Vec<_>>(), |(i, op)| format!("({}%N, {})", i, coq_string(&op.get_name())));
    let tbl = format!("[{}]", table.entries.join("; "));
    let input = json!({
        "label": label,
        "graphs": plan.iter().map(|pg| pg.steps.iter().map(step_name).collect::<Vec<_>>()).collect::<Vec<_>>(),
        "custom_nodes": ncustom, "instantiations": table.nkeys, "nested_instantiations": table.nested,
    });
    out.stat(&format!("custom_nodes:{}", std::cmp::min(ncustom, 8)));
    out.stat(&format!("instantiations:{}", std::cmp::min(table.nkeys, 12)));
    out.stat(&format!("graphs:{}", plan.len()));
    out.stat_n("catalogue_nodes_exported", table.nodes as u64);
    for s in plan.iter().flat_map(|pg| pg.steps.iter()) {
        if !matches!(s, Step::Input(_)) {
            out.stat(&format!("step:{}", step_name(s).split('(').next().unwrap_or("")));
        }
    }
    let c2 = c.clone();
    let r = observe(std::panic::AssertUnwindSafe(move || run_instantiation_pass(c2)));
    out.stat(&format!("pass:{}", r.tag()));
    let nontrivial = table.nested > 0 && (ncustom > table.nkeys - table.nested || plan.len() > 1);
    // ---- (2) structure
    let mut names: Vec<String> = vec![];
    let rhs = match &r {
        Outcome::Ok(m) => {
            let rc = m.get_context();
            let mut ex2 = Exporter { ops: ex.ops.clone() };
            let mut sizes = vec![];
            let mut gs = vec![];
            let mut ok = true;
            for g in rc.get_graphs() {
                let nm = g.get_name().ok();
                if let Some(n) = &nm {
                    names.push(n.clone());
                    match table.sizes.get(n) {
                        Some(sz) => sizes.push(format!("({}, {}%N)", coq_string(n), sz)),
                        None => {
                            ok = false;
                            out.violation("unknown-graph-name", input.clone(), format!("graph named {:?} is no instantiation reachable from the context", n));
                        }
                    }
                }
                gs.push(format!("R {} {}", match &nm { Some(n) => format!("(Some {})", coq_string(n)), None => "None".into() }, ex2.graph_body(&g)));
                if ex2.ops.len() != ex.ops.len() {
                    ok = false;
                    out.violation("custom-node-left", input.clone(), "a custom node remains after the pass".into());
                }
            }
            if !ok {
                return;
            }
            format!("rust_obs [{}] [{}] {}%N", sizes.join("; "), gs.join("; "), rc.get_main_graph().unwrap().get_id())
        }
        Outcome::Err => "Err".to_string(),
        Outcome::Panic => "Panic".to_string(),
    };
    out.case("pass", format!("pass_obs {} {} {}", tbl, names_tbl, src), rhs, input.clone(), nontrivial);
    if let Outcome::Ok(m) = &r {
        names.sort();
        out.case("pass_names", format!("pass_names {} {} {}", tbl, names_tbl, src), format!("Ok {}", list(&names, |n| coq_string(n))), input.clone(), nontrivial);
        out.case("T:keys_injective", format!("keys_inj_check {} {} {}", tbl, names_tbl, src), "Ok true".into(), input.clone(), nontrivial);
        // oracle: no two graphs of the result share a name; one named graph per instantiation
        let mut d = names.clone();
        d.dedup();
        if d.len() != names.len() || names.len() != table.nkeys {
            out.violation("instantiation-graphs-mismatch", input.clone(), format!("{} named graphs for {} instantiations", names.len(), table.nkeys));
        } else {
            out.oracle_ok();
        }
        // ---- (3) semantics
        let main = plan.len() - 1;
        let inputs: Vec<Value> = plan[main].steps.iter().filter_map(|s| if let Step::Input(t) = s { Some(rand_value(t, rng)) } else { None }).collect();
        let whole = random_evaluate(m.get_context().get_main_graph().unwrap(), inputs.clone());
        let steps = eval_plan_graph(plan, main, &inputs);
        match (whole, steps) {
            (Ok(w), Ok(vs)) => {
                let obs: Vec<Value> = (0..vs.len()).filter(|&i| !matches!(plan[main].steps[i], Step::Input(_))).map(|i| vs[i].clone()).collect();
                let idx: Vec<usize> = (0..vs.len()).filter(|&i| !matches!(plan[main].steps[i], Step::Input(_))).collect();
                let wv = w.to_vector().unwrap_or_default();
                if wv.len() != obs.len() {
                    out.violation("sem-arity", input.clone(), format!("{} values for {} steps", wv.len(), obs.len()));
                }
                for (k, (a, b)) in wv.iter().zip(obs.iter()).enumerate() {
                    if bvalue(a) != bvalue(b) {
                        out.violation(&format!("sem-mismatch-{}", step_name(&plan[main].steps[idx[k]]).split('(').next().unwrap_or("")), input.clone(),
                            format!("step {}: instantiated context gives {}, the step on its own gives {}", idx[k], bvalue(a), bvalue(b)));
                        break;
                    } else {
                        out.oracle_ok();
                    }
                }
            }
            (Err(_), Err(_)) => out.stat("sem:both-fail"),
            (Ok(_), Err(e)) => out.violation("sem-step-fails-alone", input.clone(), e),
            (Err(e), Ok(_)) => out.violation("sem-whole-fails", input.clone(), format!("{}", e)),
        }
    } else {
        // oracle: a context whose nodes type-check must instantiate
        out.violation(fail_class.unwrap_or("pass-fails-on-typed-context"), input.clone(), "run_instantiation_pass failed on a context whose nodes type-check".into());
    }
}

fn mk_plan(steps: Vec<Step>) -> Vec<PGraph> {
    let plan0: Vec<PGraph> = vec![];
    let mut pg = PGraph { steps: vec![], types: vec![], main: true };
    for s in steps {
        let t = step_type(&plan0, &pg, &s).expect("fixed plan type-checks");
        pg.steps.push(s);
        pg.types.push(t);
    }
    vec![pg]
}

/// For every colliding pair of the catalogue whose two operations accept one i64 array (or two):
/// a context using both on the same argument types.  If the names collide the pass fails on it.
fn witness_plans() -> Vec<(String, String, Vec<PGraph>)> {
    let x = array_type(vec![2], INT64);
    let mut v = vec![];
    for t in ["ApproxSigmoid", "ApproxGelu", "ApproxGeluDerivative"] {
        v.push((format!("witness-{}", t), format!("name-collision-{}-approximation_log_buckets", t), mk_plan(vec![
            Step::Input(x.clone()),
            Step::Custom(cop(json!({"type": t, "precision": 10, "approximation_log_buckets": 4})), vec![0]),
            Step::Custom(cop(json!({"type": t, "precision": 10, "approximation_log_buckets": 5})), vec![0]),
        ])));
    }
    v.push(("witness-FixedMultiply".into(), "name-collision-FixedMultiply-config.debug".into(), mk_plan(vec![
        Step::Input(x.clone()), Step::Input(x.clone()),
        Step::Custom(cop(json!({"type":"FixedMultiply", "config": {"fractional_bits": 10, "debug": false}})), vec![0, 1]),
        Step::Custom(cop(json!({"type":"FixedMultiply", "config": {"fractional_bits": 10, "debug": true}})), vec![0, 1]),
    ])));
    v
}

/// Hand-made plans: the shapes the generator must not miss.
fn fixed_plans() -> Vec<(String, Vec<PGraph>)> {
    let b = |sh: &[u64]| array_type(sh.to_vec(), BIT);
    let mk = mk_plan;
    let gt = |s: bool| cop(json!({"type":"GreaterThan","signed_comparison": s}));
    let mn = |s: bool| cop(json!({"type":"Min","signed_comparison": s}));
    let sort = |k: &str| cop(json!({"type":"SortByIntegerKey","key": k}));
    let nt = named_tuple_type(vec![("a".into(), array_type(vec![3], UINT8)), ("b".into(), array_type(vec![3], INT16))]);
    vec![
        // both signedness of one comparison on one type; Min (uses GreaterThan + Mux) sharing them
        ("signedness".into(), mk(vec![Step::Input(b(&[2, 8])), Step::Input(b(&[2, 8])),
            Step::Custom(gt(false), vec![0, 1]), Step::Custom(gt(true), vec![0, 1]),
            Step::Custom(mn(false), vec![0, 1]), Step::Custom(mn(true), vec![0, 1]), Step::Custom(mn(true), vec![1, 0])])),
        // a composite operation first, then one of its own nested dependencies (itself composite)
        // used directly on the same argument types: discovered under the first, still to be explored
        ("dep-after-user-min".into(), mk(vec![Step::Input(b(&[2, 8])), Step::Input(b(&[2, 8])),
            Step::Custom(mn(false), vec![0, 1]), Step::Custom(gt(false), vec![0, 1])])),
        ("dep-after-user-min-signed".into(), mk(vec![Step::Input(b(&[3, 5])), Step::Input(b(&[3, 5])),
            Step::Custom(mn(true), vec![0, 1]), Step::Custom(gt(true), vec![0, 1])])),
        ("dep-after-user-max".into(), mk(vec![Step::Input(b(&[2, 8])), Step::Input(b(&[2, 8])),
            Step::Custom(cop(json!({"type":"Max","signed_comparison": false})), vec![0, 1]), Step::Custom(gt(false), vec![0, 1])])),
        ("dep-after-user-geq".into(), mk(vec![Step::Input(b(&[2, 8])), Step::Input(b(&[2, 8])),
            Step::Custom(cop(json!({"type":"GreaterThanEqualTo","signed_comparison": false})), vec![0, 1]),
            Step::Custom(cop(json!({"type":"LessThan","signed_comparison": false})), vec![0, 1]),
            Step::Custom(cop(json!({"type":"NotEqual"})), vec![0, 1]), Step::Custom(cop(json!({"type":"Equal"})), vec![0, 1])])),
        // the repaired defect: two sort keys on one named-tuple type
        ("sort-keys".into(), mk(vec![Step::Input(nt.clone()), Step::Custom(sort("a"), vec![0]), Step::Custom(sort("b"), vec![0])])),
        // Or -> Not at two types, Not also used directly
        ("or-not".into(), mk(vec![Step::Input(b(&[1, 7])), Step::Input(b(&[3, 7])),
            Step::Custom(cop(json!({"type":"Or"})), vec![0, 1]), Step::Custom(cop(json!({"type":"Not"})), vec![1]),
            Step::Custom(cop(json!({"type":"Not"})), vec![0])])),
        // clip parameters
        ("clip-k".into(), mk(vec![Step::Input(b(&[2, 8])), Step::Custom(cop(json!({"type":"Clip2K","k":1})), vec![0]),
            Step::Custom(cop(json!({"type":"Clip2K","k":2})), vec![0]), Step::Custom(cop(json!({"type":"Clip2K","k":1})), vec![2])])),
    ]
}

pub fn run(tier: &str, seed: u64, out: &mut Out) {
    let mut rng = Rng::new(seed ^ 0xC08);
    if std::env::var("VERIF_C08_DEBUG").is_ok() {
        std::panic::set_hook(Box::new(|i| eprintln!("{}", i)));
    }
    // (1) exhaustive on the grid, every run
    check_catalogue(out);
    check_type_printing(out, &mut rng, if tier == "quick" { 60 } else { 160 });
    confirm_printer_ambiguities(out);
    if tier == "search" {
        return;
    }
    // (2)+(3)
    for (label, plan) in fixed_plans() {
        run_case(&plan, &label, None, &mut rng, out);
    }
    for (label, class, plan) in witness_plans() {
        run_case(&plan, &label, Some(&class), &mut rng, out);
    }
    let (light, heavy) = match tier {
        "thorough" => (220, 40),
        _ => (22, 4),
    };
    for i in 0..light {
        let plan = gen_plan(&mut rng, false);
        run_case(&plan, &format!("gen{}", i), None, &mut rng, out);
    }
    for i in 0..heavy {
        let plan = gen_plan(&mut rng, true);
        run_case(&plan, &format!("heavy{}", i), None, &mut rng, out);
    }
}

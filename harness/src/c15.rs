//! C15 — PRF and PRNG are deterministic, in-domain and unbiased.
//! Correspondence of Model/Prf.v with random.rs and the evaluator's PRF / PermutationFromPRF /
//! Random / RandomPermutation arms.  AES-128 blocks are computed here with the `aes` crate
//! directly (never through random.rs) and shipped as the finite table that instantiates the
//! model's Section variable `aes` in each case.  Native oracle: purity across evaluator instances,
//! call orders and repetitions, valid encodings (check_type, flushed bits), permutation validity,
//! range of bounded draws, replay from a seed.
use crate::coqfmt::*;
use crate::gen::*;
use crate::out::Out;
use crate::rng::Rng;
use aes::cipher::{generic_array::GenericArray, BlockEncrypt, KeyInit};
use aes::Aes128;
use ciphercore_base::data_types::*;
use ciphercore_base::data_values::Value;
use ciphercore_base::evaluators::simple_evaluator::SimpleEvaluator;
use ciphercore_base::evaluators::Evaluator;
use ciphercore_base::graphs::{create_context, Node, Operation};
use ciphercore_base::random::PRNG;
use serde_json::json;
use std::collections::{BTreeMap, BTreeSet};
use std::panic::AssertUnwindSafe;

pub const HEADER: &str =
    "From CC Require Import Base.Prelude Base.Scalar Base.Ty Model.Bytes Model.Prf.";

const FUEL: u32 = 64;

// ------------------------------------------------------------------------------------ AES table
/// AES-128 of one block, both read as little-endian 128-bit numbers (the `aes` crate, directly).
fn aes_block(key: &[u8; 16], ctr: u128) -> u128 {
    let c = Aes128::new(GenericArray::from_slice(key));
    let mut b = GenericArray::clone_from_slice(&ctr.to_le_bytes());
    c.encrypt_block(&mut b);
    let mut o = [0u8; 16];
    o.copy_from_slice(b.as_slice());
    u128::from_le_bytes(o)
}

/// Number of blocks a session started with `initial` buffer bytes has produced once `bytes` bytes
/// are available (whole batches: 16-byte multiples doubling up to 512).
fn blocks_for(bytes: u64, initial: u64) -> u64 {
    let mut size = (initial + 15) / 16 * 16;
    if size == 0 {
        return 0;
    }
    let mut have = 0u64;
    while have < bytes {
        have += size;
        if size < 512 {
            size = u64::min(512, size * 2);
        }
    }
    have / 16
}

/// One table entry: (key, first counter, consecutive blocks).
fn table_entry(key: &[u8; 16], iv: u64, nblocks: u64) -> String {
    let base = (iv as u128) << 64;
    let outs: Vec<String> = (0..nblocks as u128).map(|j| aes_block(key, base.wrapping_add(j)).to_string()).collect();
    format!("({}, {}, [{}])", u128::from_le_bytes(*key), base, outs.join("; "))
}
fn table(entries: &[String]) -> String {
    format!("(mk_aes [{}])", entries.join("; "))
}

// ------------------------------------------------------------------------------------ helpers
fn key_coq(k: &[u8]) -> String {
    list_u8(k)
}
fn total_bytes(v: &Value) -> u64 {
    v.access(|b| Ok(b.len() as u64), |vs| Ok(vs.iter().map(total_bytes).sum())).unwrap()
}
/// Independent statement of "valid encoding with unused bits zero": byte length ceil(bits/8) at
/// every leaf, the bits above the type's size in the last byte are zero, vectors have the right
/// arity.
fn in_domain(v: &Value, t: &Type) -> bool {
    match t {
        Type::Scalar(_) | Type::Array(_, _) => {
            let bits: u64 = match t {
                Type::Scalar(st) => st.size_in_bits(),
                Type::Array(sh, st) => sh.iter().product::<u64>() * st.size_in_bits(),
                _ => unreachable!(),
            };
            v.access(
                |b| {
                    let nbytes = (bits + 7) / 8;
                    let mut ok = b.len() as u64 == nbytes;
                    if ok && bits % 8 != 0 {
                        ok = (b[b.len() - 1] as u32) >> (bits % 8) == 0;
                    }
                    Ok(ok)
                },
                |_| Ok(false),
            )
            .unwrap()
        }
        Type::Vector(n, t1) => v
            .access(|_| Ok(false), |vs| Ok(vs.len() as u64 == *n && vs.iter().all(|c| in_domain(c, t1))))
            .unwrap(),
        Type::Tuple(ts) => v
            .access(|_| Ok(false), |vs| Ok(vs.len() == ts.len() && vs.iter().zip(ts.iter()).all(|(c, t)| in_domain(c, t))))
            .unwrap(),
        Type::NamedTuple(fs) => v
            .access(|_| Ok(false), |vs| Ok(vs.len() == fs.len() && vs.iter().zip(fs.iter()).all(|(c, (_, t))| in_domain(c, t))))
            .unwrap(),
    }
}
fn is_perm(v: &Value, n: u64) -> bool {
    match v.to_flattened_array_u64(array_type(vec![n], UINT64)) {
        Ok(mut a) => {
            a.sort_unstable();
            a.len() as u64 == n && a.iter().enumerate().all(|(i, x)| *x == i as u64)
        }
        Err(_) => false,
    }
}
fn has_ragged_leaf(t: &Type) -> bool {
    match t {
        Type::Scalar(st) => st.size_in_bits() % 8 != 0,
        Type::Array(sh, st) => (sh.iter().product::<u64>() * st.size_in_bits()) % 8 != 0,
        Type::Vector(n, t1) => *n > 0 && has_ragged_leaf(t1),
        Type::Tuple(ts) => ts.iter().any(|t| has_ragged_leaf(t)),
        Type::NamedTuple(fs) => fs.iter().any(|(_, t)| has_ragged_leaf(t)),
    }
}
fn is_nested(t: &Type) -> bool {
    !matches!(t, Type::Scalar(_) | Type::Array(_, _))
}

#[derive(Clone, Debug, PartialEq, Eq, PartialOrd, Ord)]
enum Call {
    Prf(Vec<u8>, u64, String, usize), // key value bytes, iv, coq type, index into the type pool
    Perm(Vec<u8>, u64, u64),
}

/// PRF types: generic random trees plus the classes named in the property (ragged bit arrays,
/// sizes around the 64 / 192 / 448 / 960-byte buffer refills, nested).
fn prf_type(rng: &mut Rng, big: bool) -> Type {
    match rng.below(if big { 12 } else { 9 }) {
        0 => array_type(vec![1 + rng.below(70)], BIT),
        1 => array_type(vec![1 + rng.below(5), 1 + rng.below(9)], BIT),
        2 => scalar_type(*rng.pick(&ALL_ST)),
        3 => array_type(vec![*rng.pick(&[63u64, 64, 65, 66, 80])], UINT8),
        4 => array_type(vec![*rng.pick(&[3u64, 8, 9, 24, 25])], *rng.pick(&[UINT64, INT32, UINT128, INT16])),
        5 => tuple_type(vec![
            array_type(vec![1 + rng.below(20)], BIT),
            array_type(vec![*rng.pick(&[7u64, 8, 9])], UINT64),
            scalar_type(BIT),
            vector_type(1 + rng.below(3), array_type(vec![3, 3], BIT)),
        ]),
        6 | 7 => random_type(rng, 2),
        8 if rng.chance(1, 2) => vector_type(2 + rng.below(3), array_type(vec![1 + rng.below(3)], *rng.pick(&[UINT64, INT64, UINT128]))),
        8 => vector_type(1 + rng.below(5), tuple_type(vec![scalar_type(BIT), array_type(vec![1 + rng.below(12)], *rng.pick(&ALL_ST))])),
        9 => array_type(vec![*rng.pick(&[191u64, 192, 193, 200])], UINT8),
        10 => array_type(vec![*rng.pick(&[56u64, 57, 70])], UINT64),
        _ => array_type(vec![*rng.pick(&[120u64, 121, 150])], UINT64),
    }
}
fn pick_iv(rng: &mut Rng) -> u64 {
    match rng.below(6) {
        0 => 0,
        1 => 1,
        2 => u64::MAX,
        3 => 1u64 << 63,
        4 => rng.below(1000),
        _ => rng.next(),
    }
}
fn random_key(rng: &mut Rng) -> [u8; 16] {
    let mut k = [0u8; 16];
    match rng.below(5) {
        0 => {}
        1 => k = [0xff; 16],
        _ => {
            for b in k.iter_mut() {
                *b = rng.next() as u8;
            }
        }
    }
    k
}
fn key16(k: &[u8]) -> Option<[u8; 16]> {
    if k.len() < 16 {
        return None;
    }
    let mut a = [0u8; 16];
    a.copy_from_slice(&k[..16]);
    Some(a)
}

/// Bytes a permutation of n consumes without any rejection (need_bytes per draw), computed from
/// the documented rule "one byte more than the modulus needs".
fn perm_bytes_no_reject(n: u64) -> u64 {
    (2..=n).map(|m| ((64 - (m - 1).leading_zeros() as u64) + 7) / 8 + 1).sum()
}

struct Nodes {
    _ctx: ciphercore_base::graphs::Context,
    g: ciphercore_base::graphs::Graph,
    key: Node,
}
impl Nodes {
    fn new() -> Self {
        let c = create_context().unwrap();
        let g = c.create_graph().unwrap();
        let key = g.input(array_type(vec![128], BIT)).unwrap();
        Nodes { _ctx: c, g, key }
    }
}

fn eval(ev: &mut SimpleEvaluator, node: &Node, deps: Vec<Value>) -> Outcome<Value> {
    let node = node.clone();
    observe(AssertUnwindSafe(move || ev.evaluate_node(node, deps)))
}

// ------------------------------------------------------------------------------------ PRF part
fn prf_round(rng: &mut Rng, out: &mut Out, big: bool, emit_cases: bool) {
    let nodes = Nodes::new();
    // pools
    let keys: Vec<[u8; 16]> = (0..2 + rng.below(2)).map(|_| random_key(rng)).collect();
    let ivs: Vec<u64> = (0..3).map(|_| pick_iv(rng)).collect();
    let mut types: Vec<Type> = (0..4).map(|_| prf_type(rng, big)).collect();
    let perm_ns: Vec<u64> = (0..3)
        .map(|_| if big { *rng.pick(&[255u64, 256, 257, 258, 300, 600]) } else { *rng.pick(&[1u64, 2, 3, 4, 5, 8, 17, 64, 100]) })
        .collect();
    // output types that coincide with a permutation's result type or with each other in shape and
    // byte size (a cache keyed more coarsely than (key, counter, kind of call, type) shows up here)
    let n0 = perm_ns[0];
    let base = types.len();
    types.push(array_type(vec![n0], UINT64));
    types.push(array_type(vec![n0], INT64));
    types.push(array_type(vec![2 * n0], UINT32));
    types.push(tuple_type(vec![array_type(vec![n0], UINT64)]));
    // node per distinct call (type inference may reject a type: skip it)
    let mut calls: Vec<Call> = vec![];
    if rng.chance(2, 3) {
        let k = keys[0].to_vec();
        let iv = ivs[0];
        calls.push(Call::Perm(k.clone(), iv, n0));
        for ti in base..base + 4 {
            if rng.chance(2, 3) { calls.push(Call::Prf(k.clone(), iv, ty(&types[ti]), ti)); }
        }
        out.stat("prf:directed-type-coincidence");
    }
    let ncalls = 10 + rng.below(16);
    for _ in 0..ncalls {
        let k = rng.pick(&keys).to_vec();
        let iv = *rng.pick(&ivs);
        if rng.chance(1, 4) {
            calls.push(Call::Perm(k, iv, *rng.pick(&perm_ns)));
        } else {
            let ti = rng.below(types.len() as u64) as usize;
            calls.push(Call::Prf(k, iv, ty(&types[ti]), ti));
        }
    }
    // a few malformed keys (evaluate_node does not type-check its arguments): longer than 16
    // bytes (cache keyed by the whole vector, AES by the first 16), shorter (panic)
    if rng.chance(1, 3) {
        let mut k = rng.pick(&keys).to_vec();
        k.extend_from_slice(&[1, 2, 3]);
        calls.push(Call::Prf(k, ivs[0], ty(&types[0]), 0));
    }
    if rng.chance(1, 6) {
        calls.push(Call::Prf(rng.pick(&keys)[..(rng.below(16) as usize)].to_vec(), ivs[0], ty(&types[0]), 0));
    }
    // repeated calls and shuffled order across instances
    let mut hist: Vec<(usize, Call)> = vec![];
    let ninst = 2 + rng.below(3) as usize;
    for c in calls.iter() {
        let reps = 1 + rng.below(3);
        for _ in 0..reps {
            hist.push((rng.below(ninst as u64) as usize, c.clone()));
        }
    }
    rng.shuffle(&mut hist);
    let mut evs: Vec<SimpleEvaluator> = (0..ninst).map(|_| SimpleEvaluator::new(None).unwrap()).collect();
    let mut node_of: BTreeMap<Call, Option<Node>> = BTreeMap::new();
    let mut results: Vec<Outcome<Value>> = vec![];
    let mut kept: Vec<(usize, Call)> = vec![];
    for (i, c) in hist.iter() {
        let node = node_of
            .entry(c.clone())
            .or_insert_with(|| match c {
                Call::Prf(_, iv, _, ti) => nodes.g.add_node(vec![nodes.key.clone()], vec![], Operation::PRF(*iv, types[*ti].clone())).ok(),
                Call::Perm(_, iv, n) => nodes.g.add_node(vec![nodes.key.clone()], vec![], Operation::PermutationFromPRF(*iv, *n)).ok(),
            })
            .clone();
        let node = match node {
            Some(n) => n,
            None => {
                out.stat("prf:type-rejected-by-add_node");
                continue;
            }
        };
        let kv = match c {
            Call::Prf(k, ..) | Call::Perm(k, ..) => Value::from_bytes(k.clone()),
        };
        let r = eval(&mut evs[*i], &node, vec![kv]);
        out.stat(&format!("prf-call:{}", r.tag()));
        results.push(r);
        kept.push((*i, c.clone()));
    }
    // ---- native oracle: purity, domain, permutation validity, distinct counters differ
    let mut first: BTreeMap<(Vec<u8>, u64, String), Outcome<Value>> = BTreeMap::new();
    for ((_, c), r) in kept.iter().zip(results.iter()) {
        let (k, iv, what) = match c {
            Call::Prf(k, iv, tc, _) => (k, *iv, tc.clone()),
            Call::Perm(k, iv, n) => (k, *iv, format!("perm {}", n)),
        };
        let input = json!({"key": k, "iv": iv, "what": what});
        if k.len() < 16 {
            if !matches!(r, Outcome::Panic) {
                out.violation("short-key-not-rejected", input, format!("{:?}", r.tag()));
            }
            continue;
        }
        // purity is in terms of the 16 key bytes AES sees
        let pk = (k[..16].to_vec(), iv, what.clone());
        match first.get(&pk) {
            None => {
                first.insert(pk, r.clone());
            }
            Some(r0) => {
                if r0 != r {
                    out.violation("prf-impure", input.clone(), "same (key, iv, type) gave two different values across instances / orders / repetitions".into());
                } else {
                    out.oracle_ok();
                }
            }
        }
        if let Outcome::Ok(v) = r {
            match c {
                Call::Prf(_, _, _, ti) => {
                    let t = &types[*ti];
                    let chk = v.check_type(t.clone()).unwrap_or(false);
                    if !chk || !in_domain(v, t) {
                        out.violation("prf-out-of-domain", input.clone(), format!("value {} is not a valid encoding of {}", bvalue(v), t));
                    } else {
                        out.oracle_ok();
                    }
                }
                Call::Perm(_, _, n) => {
                    if !is_perm(v, *n) {
                        out.violation("prf-perm-invalid", input.clone(), format!("not a permutation of 0..{}", n));
                    } else {
                        out.oracle_ok();
                    }
                }
            }
        } else if matches!(r, Outcome::Panic) {
            out.violation("prf-panics", input.clone(), "PRF evaluation panicked on a 16-byte key".into());
        }
    }
    // different (key, iv), same type, at least 16 random output bytes: values differ
    // (permutations excluded: n! may be small)
    let firsts: Vec<(&(Vec<u8>, u64, String), &Outcome<Value>)> = first.iter().collect();
    for a in 0..firsts.len() {
        for b in a + 1..firsts.len() {
            let ((k1, iv1, w1), r1) = firsts[a];
            let ((k2, iv2, w2), r2) = firsts[b];
            if w1 == w2 && !w1.starts_with("perm ") && (k1, iv1) != (k2, iv2) {
                if let (Outcome::Ok(v1), Outcome::Ok(v2)) = (r1, r2) {
                    if total_bytes(v1) >= 16 {
                        if v1 == v2 {
                            out.violation("prf-collision", json!({"key1": k1, "iv1": iv1, "key2": k2, "iv2": iv2, "what": w1}), "distinct (key, iv) gave the same value".into());
                        } else {
                            out.oracle_ok();
                        }
                    }
                }
            }
        }
    }
    if !emit_cases {
        return;
    }
    // ---- correspondence: one case per distinct call ...
    let mut seen: BTreeSet<Call> = BTreeSet::new();
    for ((_, c), r) in kept.iter().zip(results.iter()) {
        if !seen.insert(c.clone()) {
            continue;
        }
        match c {
            Call::Prf(k, iv, tc, ti) => {
                let t = &types[*ti];
                let nbytes = if let Outcome::Ok(v) = r { total_bytes(v) } else { 0 };
                let Some(k16) = key16(k) else { continue };
                let tab = table(&[table_entry(&k16, *iv, blocks_for(nbytes, 64))]);
                let nontrivial = has_ragged_leaf(t) || nbytes > 64 || is_nested(t);
                out.stat(&format!("prf-bytes:{}", match nbytes { 0 => "0", 1..=16 => "1-16", 17..=64 => "17-64", 65..=192 => "65-192", 193..=448 => "193-448", 449..=960 => "449-960", _ => ">960" }));
                out.stat(&format!("prf-type:{}", match t { Type::Scalar(_) => "scalar", Type::Array(_, BIT) => "bit-array", Type::Array(_, _) => "array", Type::Vector(_, _) => "vector", Type::Tuple(_) => "tuple", Type::NamedTuple(_) => "named" }));
                out.case(
                    "prf_output_value",
                    format!("prf_output_value {} (prf_new {}) {} {}", tab, key_coq(&k16), iv, tc),
                    res(r, |v| bvalue(v)),
                    json!({"key": k, "iv": iv, "type": format!("{}", t), "bytes": nbytes}),
                    nontrivial,
                );
            }
            Call::Perm(k, iv, n) => {
                let Some(k16) = key16(k) else { continue };
                let est = perm_bytes_no_reject(*n) + 64;
                let tab = table(&[table_entry(&k16, *iv, blocks_for(est, u64::min(512, *n)))]);
                out.stat(&format!("perm-n:{}", match n { 1 => "1", 2..=16 => "2-16", 17..=256 => "17-256", _ => ">256" }));
                out.case(
                    "prf_output_permutation",
                    format!("prf_output_permutation {} {} (prf_new {}) {} {}", tab, FUEL, key_coq(&k16), iv, n),
                    res(r, |v| bvalue(v)),
                    json!({"key": k, "iv": iv, "n": n}),
                    *n > 1,
                );
            }
        }
    }
    // ... and the whole interleaved history through the cache model (small rounds only)
    if !big {
        let mut entries: BTreeMap<(Vec<u8>, u64), (u64, u64)> = BTreeMap::new(); // (key16, iv) -> (bytes, initial)
        for ((_, c), r) in kept.iter().zip(results.iter()) {
            let (k, iv, need, initial) = match c {
                Call::Prf(k, iv, _, _) => (k, *iv, if let Outcome::Ok(v) = r { total_bytes(v) } else { 0 }, 64),
                Call::Perm(k, iv, n) => (k, *iv, perm_bytes_no_reject(*n) + 64, u64::min(512, *n)),
            };
            if k.len() < 16 {
                continue;
            }
            let nb = blocks_for(need, initial);
            let e = entries.entry((k[..16].to_vec(), iv)).or_insert((0, 0));
            e.0 = u64::max(e.0, nb);
        }
        let ents: Vec<String> = entries.iter().map(|((k, iv), (nb, _))| table_entry(&key16(k).unwrap(), *iv, *nb)).collect();
        let h: Vec<String> = kept
            .iter()
            .map(|(i, c)| match c {
                Call::Prf(k, iv, tc, _) => format!("({}%nat, CallPRF (BBytes {}) {} {})", i, key_coq(k), iv, tc),
                Call::Perm(k, iv, n) => format!("({}%nat, CallPerm (BBytes {}) {} {})", i, key_coq(k), iv, n),
            })
            .collect();
        let rhs = list(&results, |r| res(r, |v| bvalue(v)));
        out.stat(&format!("history-len:{}", match kept.len() { 0..=15 => "<=15", 16..=30 => "16-30", _ => ">30" }));
        out.stat(&format!("history-instances:{}", ninst));
        out.case(
            "run_history",
            format!("run_history {} {} [{}] []", table(&ents), FUEL, h.join("; ")),
            rhs,
            json!({"instances": ninst, "calls": kept.len(), "keys": keys.len()}),
            kept.len() > 1,
        );
    }
}

// ------------------------------------------------------------------------------------ PRNG part
#[derive(Clone, Debug)]
enum Op {
    Bytes(u64),
    Value(Type),
    InRange(Option<u64>),
    Shuffle(u64),
}
impl Op {
    fn coq(&self) -> String {
        match self {
            Op::Bytes(n) => format!("OpBytes {}", n),
            Op::Value(t) => format!("OpValue {}", ty(t)),
            Op::InRange(None) => "OpInRange None".into(),
            Op::InRange(Some(m)) => format!("OpInRange (Some {})", m),
            Op::Shuffle(n) => format!("OpShuffle {}", n),
        }
    }
}
#[derive(Clone, Debug, PartialEq)]
enum Obs {
    Bytes(Vec<u8>),
    Value(Value),
    Num(u64),
}
fn obs_coq(o: &Obs) -> String {
    match o {
        Obs::Bytes(b) => format!("OutBytes {}", list_u8(b)),
        Obs::Value(v) => format!("OutValue {}", bvalue(v)),
        Obs::Num(x) => format!("OutNum {}", x),
    }
}

/// The moduli classes of the property: powers of two, 2^k +- 1, near 2^32, near 2^63 / 2^64
/// (rejection probability close to 1/2), small.
fn pick_modulus(rng: &mut Rng) -> u64 {
    match rng.below(9) {
        0 => 1u64 << rng.below(64),
        1 => (1u64 << (1 + rng.below(63))) + 1,
        2 => (1u64 << (1 + rng.below(63))) - 1,
        3 => (1u64 << 32) - 1 - rng.below(3),
        4 => (1u64 << 32) + rng.below(3),
        5 => (1u64 << 63) + 1 + rng.below(1000),
        6 => u64::MAX - rng.below(3),
        7 => 1 + rng.below(300),
        _ => 1 + rng.next() % (u64::MAX - 1),
    }
}
fn modulus_class(m: u64) -> &'static str {
    if m.is_power_of_two() {
        "2^k"
    } else if (m - 1).is_power_of_two() {
        "2^k+1"
    } else if m == u64::MAX || (m + 1).is_power_of_two() {
        "2^k-1"
    } else if m > (1u64 << 63) {
        ">2^63"
    } else if m < 1000 {
        "small"
    } else {
        "other"
    }
}

fn run_prng_ops(seed: [u8; 16], ops: &[Op]) -> Vec<Outcome<Obs>> {
    let mut g = PRNG::new(Some(seed)).unwrap();
    let mut res = vec![];
    for op in ops {
        let gm = AssertUnwindSafe(&mut g);
        let op2 = op.clone();
        let r = observe(move || {
            let g = gm;
            let AssertUnwindSafe(g) = g;
            match op2 {
                Op::Bytes(n) => g.get_random_bytes(n as usize).map(Obs::Bytes),
                Op::Value(t) => g.get_random_value(t).map(Obs::Value),
                Op::InRange(m) => g.get_random_in_range(m).map(Obs::Num),
                Op::Shuffle(_) => unreachable!(),
            }
        });
        let stop = !matches!(r, Outcome::Ok(_));
        res.push(r);
        if stop {
            break;
        }
    }
    res
}
fn run_evaluator_ops(seed: [u8; 16], ops: &[Op]) -> Vec<Outcome<Obs>> {
    let c = create_context().unwrap();
    let g = c.create_graph().unwrap();
    let mut ev = SimpleEvaluator::new(Some(seed)).unwrap();
    let mut res = vec![];
    for op in ops {
        let node = match op {
            Op::Value(t) => g.random(t.clone()),
            Op::Shuffle(n) => g.random_permutation(*n),
            _ => unreachable!(),
        };
        let node = match node {
            Ok(n) => n,
            Err(_) => break,
        };
        let r = match eval(&mut ev, &node, vec![]) {
            Outcome::Ok(v) => Outcome::Ok(Obs::Value(v)),
            Outcome::Err => Outcome::Err,
            Outcome::Panic => Outcome::Panic,
        };
        let stop = !matches!(r, Outcome::Ok(_));
        res.push(r);
        if stop {
            break;
        }
    }
    res
}
/// Upper estimate of the bytes a sequence consumes (bounded draws: 8 bytes, expected < 2 rounds).
fn ops_bytes(ops: &[Op], obs: &[Outcome<Obs>]) -> u64 {
    let mut total = 0u64;
    for (op, o) in ops.iter().zip(obs.iter()) {
        total += match (op, o) {
            (Op::Bytes(n), _) => *n,
            (Op::Value(_), Outcome::Ok(Obs::Value(v))) => total_bytes(v),
            (Op::InRange(_), _) => 16,
            (Op::Shuffle(n), _) => 16 * n,
            _ => 0,
        };
    }
    total
}

fn prng_round(rng: &mut Rng, out: &mut Out, big: bool, emit_cases: bool) {
    let seed = random_key(rng);
    let via_evaluator = rng.chance(1, 3);
    let nops = 2 + rng.below(6);
    let mut ops: Vec<Op> = vec![];
    for _ in 0..nops {
        if via_evaluator {
            if rng.chance(1, 3) {
                ops.push(Op::Shuffle(if big { *rng.pick(&[33u64, 64, 100]) } else { 1 + rng.below(12) }));
            } else {
                ops.push(Op::Value(prf_type(rng, false)));
            }
        } else {
            match rng.below(5) {
                0 => ops.push(Op::Bytes(if big { *rng.pick(&[500u64, 511, 512, 513, 1025]) } else { rng.below(40) })),
                1 => ops.push(Op::Value(prf_type(rng, big))),
                2 => ops.push(Op::InRange(if rng.chance(1, 8) { None } else { Some(pick_modulus(rng)) })),
                3 => {
                    // several draws with one modulus
                    let m = pick_modulus(rng);
                    for _ in 0..3 {
                        ops.push(Op::InRange(Some(m)));
                    }
                }
                _ => ops.push(Op::Bytes(1 + rng.below(9))),
            }
        }
    }
    let run = |ops: &[Op]| if via_evaluator { run_evaluator_ops(seed, ops) } else { run_prng_ops(seed, ops) };
    let obs = run(&ops);
    // ---- oracle: replay, range, domain, permutation validity
    let obs2 = run(&ops);
    let input = json!({"seed": seed.to_vec(), "ops": ops.iter().map(|o| o.coq()).collect::<Vec<_>>(), "via": if via_evaluator {"SimpleEvaluator"} else {"PRNG"}});
    if obs != obs2 {
        out.violation("prng-replay", input.clone(), "two generators created from the same seed gave different sequences".into());
    } else {
        out.oracle_ok();
    }
    for (op, o) in ops.iter().zip(obs.iter()) {
        match (op, o) {
            (Op::InRange(Some(m)), Outcome::Ok(Obs::Num(x))) => {
                out.stat(&format!("modulus:{}", modulus_class(*m)));
                if x >= m {
                    out.violation("in-range-out-of-range", input.clone(), format!("{} >= {}", x, m));
                } else {
                    out.oracle_ok();
                }
            }
            (Op::Value(t), Outcome::Ok(Obs::Value(v))) => {
                if !v.check_type(t.clone()).unwrap_or(false) || !in_domain(v, t) {
                    out.violation("prng-out-of-domain", input.clone(), format!("value {} is not a valid encoding of {}", bvalue(v), t));
                } else if crate::c14::repeats_across_vector(v, t) {
                    // every leaf is drawn from fresh stream bytes: a vector of >= 2 elements of >= 64 bits
                    // holding one value everywhere has probability <= 2^-64
                    out.violation("prng-vector-elements-identical", input.clone(), format!("value {} of type {} repeats one element", bvalue(v), t));
                } else {
                    out.oracle_ok();
                }
            }
            (Op::Shuffle(n), Outcome::Ok(Obs::Value(v))) => {
                if !is_perm(v, *n) {
                    out.violation("random-permutation-invalid", input.clone(), format!("not a permutation of 0..{}", n));
                } else {
                    out.oracle_ok();
                }
            }
            (Op::Bytes(n), Outcome::Ok(Obs::Bytes(b))) => {
                if b.len() as u64 != *n {
                    out.violation("prng-bytes-length", input.clone(), format!("{} bytes for a request of {}", b.len(), n));
                } else {
                    out.oracle_ok();
                }
            }
            (_, Outcome::Panic) => out.violation("prng-panics", input.clone(), format!("{} panicked", op.coq())),
            _ => {}
        }
        out.stat(&format!("prng-op:{}:{}", match op { Op::Bytes(_) => "bytes", Op::Value(_) => "value", Op::InRange(_) => "in_range", Op::Shuffle(_) => "shuffle" }, o.tag()));
    }
    if !emit_cases {
        return;
    }
    let used = &ops[..obs.len()];
    let need = ops_bytes(used, &obs) + 512;
    let tab = table(&[table_entry(&seed, 0, blocks_for(need, 512))]);
    let crosses = ops_bytes(used, &obs) > 512;
    out.case(
        if via_evaluator { "evaluator_random" } else { "prng_observe" },
        format!("prng_observe {} {} {} [{}]", tab, FUEL, key_coq(&seed), used.iter().map(|o| o.coq()).collect::<Vec<_>>().join("; ")),
        list(&obs, |o| res(o, |x| format!("({})", obs_coq(x)))),
        input,
        crosses || used.iter().any(|o| matches!(o, Op::InRange(Some(_)) | Op::Shuffle(_))) || used.iter().any(|o| matches!(o, Op::Value(t) if has_ragged_leaf(t))),
    );
}

pub fn run(tier: &str, seed: u64, out: &mut Out) {
    let mut rng = Rng::new(seed ^ 0xC15);
    let (rounds, big_rounds, prng_rounds, emit) = match tier {
        "thorough" => (120, 36, 600, true),
        "search" => (600, 60, 3000, false),
        _ => (14, 5, 60, true),
    };
    for _ in 0..rounds {
        prf_round(&mut rng, out, false, emit);
    }
    for _ in 0..big_rounds {
        prf_round(&mut rng, out, true, emit);
    }
    for i in 0..prng_rounds {
        prng_round(&mut rng, out, i % 6 == 5, emit);
    }
}

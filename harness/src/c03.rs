//! C03 — not built yet.
use crate::out::Out;
pub const HEADER: &str = "From CC Require Import Base.Prelude.";
pub fn run(_tier: &str, _seed: u64, _out: &mut Out) {}

//! C03 — a party's view reveals nothing beyond its own inputs and outputs.
//! Oracle (search): exact enumeration of the three-party execution of small bit-typed compiled
//! graphs over ALL values of the idealised PRF masks: for every observer and every two input
//! vectors that agree on the observer's inputs (and on its output, if it receives one) the
//! histograms of the observer's view must be identical.
use crate::c02::*;
use crate::coqfmt::*;
use crate::exec3::*;
use crate::export::*;
use crate::mpcgen::*;
use crate::out::Out;
use crate::progen::*;
use crate::rng::Rng;
use ciphercore_base::data_types::*;
use ciphercore_base::data_values::Value;
use ciphercore_base::graphs::*;
use ciphercore_base::mpc::mpc_compiler::IOStatus;
use serde_json::json;
use std::collections::{HashMap, HashSet};

pub const HEADER: &str = "From CC Require Import Base.Prelude Base.Scalar Base.Ty Base.Shape Graph.Value Graph.IR Model.Knows Model.MaskCheck.";

/// bit programs over scalars: x AND y, (x AND y) XOR z, x XOR y, (x XOR y) AND z ...
fn bit_program(kind: usize) -> Prog {
    if kind >= 8 { return vector_bit_program(kind); }
    let ctx = create_context().unwrap();
    let g = ctx.create_graph().unwrap();
    let t = scalar_type(BIT);
    let n_in = if kind == 0 || kind == 2 { 2 } else { 3 };
    let ins: Vec<Node> = (0..n_in).map(|_| g.input(t.clone()).unwrap()).collect();
    let o = match kind {
        0 => ins[0].multiply(ins[1].clone()).unwrap(),
        1 => ins[0].multiply(ins[1].clone()).unwrap().add(ins[2].clone()).unwrap(),
        2 => ins[0].add(ins[1].clone()).unwrap(),
        3 => ins[0].add(ins[1].clone()).unwrap().multiply(ins[2].clone()).unwrap(),
        // a product next to an ordinary sharing inside a multi-input local operation (the planner
        // has to reshare the product before the tuple is revealed)
        4 => g.create_tuple(vec![ins[0].multiply(ins[1].clone()).unwrap(), ins[2].clone()]).unwrap(),
        5 => g.create_tuple(vec![ins[2].clone(), ins[0].multiply(ins[1].clone()).unwrap()]).unwrap(),
        6 => g.create_vector(t.clone(), vec![ins[0].multiply(ins[1].clone()).unwrap(), ins[2].clone()]).unwrap(),
        _ => g.create_tuple(vec![ins[0].multiply(ins[1].clone()).unwrap(), ins[0].add(ins[2].clone()).unwrap()]).unwrap(),
    };
    g.set_output_node(o).unwrap();
    g.finalize().unwrap();
    ctx.set_main_graph(g.clone()).unwrap();
    ctx.finalize().unwrap();
    Prog { ctx, g, input_types: vec![t; n_in], attempts: vec![] }
}

/// programs with a vector-typed private input (every element of a shared vector needs its own
/// masks): 8: x[0]*y + x[1];  9: x[0] + x[1]   (x : Vector(2, bit), y : bit)
fn vector_bit_program(kind: usize) -> Prog {
    let ctx = create_context().unwrap();
    let g = ctx.create_graph().unwrap();
    let t = scalar_type(BIT);
    let vt = vector_type(2, t.clone());
    let x = g.input(vt.clone()).unwrap();
    let i0 = g.constant(scalar_type(UINT64), Value::from_scalar(0u64, UINT64).unwrap()).unwrap();
    let i1 = g.constant(scalar_type(UINT64), Value::from_scalar(1u64, UINT64).unwrap()).unwrap();
    let (x0, x1) = (x.vector_get(i0).unwrap(), x.vector_get(i1).unwrap());
    let (o, its) = if kind == 8 {
        let y = g.input(t.clone()).unwrap();
        (x0.multiply(y).unwrap().add(x1).unwrap(), vec![vt, t])
    } else {
        (x0.add(x1).unwrap(), vec![vt])
    };
    g.set_output_node(o).unwrap();
    g.finalize().unwrap();
    ctx.set_main_graph(g.clone()).unwrap();
    ctx.finalize().unwrap();
    Prog { ctx, g, input_types: its, attempts: vec![] }
}

fn bits_of_type(t: &Type) -> usize { match t { Type::Vector(n, _) => *n as usize, _ => 1 } }

fn bitval(b: u8) -> Value { Value::from_scalar(b, BIT).unwrap() }

/// Key values that the protocol gives a party: for a PRF whose key is delivered by a `Send(s, r)`
/// node, the values parties s and r hold there; for a key that is never sent, every party's own.
/// The other evaluations of PRF nodes are the "junk" computations a party performs on keys it
/// drew itself where the protocol expects it to have received nothing: they consume no enumerated
/// cell (see `junk`), are left out of the view, and `enumerate_views` checks that no delivered
/// value and no legitimate PRF value depends on them.
fn legit_keys(c: &Compiled, ins: &[[PV; 3]], seeds: [[u8; 16]; 3]) -> HashSet<Vec<u8>> {
    let r = exec3(&c.g, ins, seeds);
    let mut res = HashSet::new();
    for n in c.g.get_nodes() {
        if let Operation::PRF(_, _) = n.get_operation() {
            let kd = n.get_node_dependencies()[0].clone();
            let sends = sends_of(&kd);
            let holders: Vec<usize> = if sends.is_empty() { vec![0, 1, 2] } else { sends.iter().flat_map(|(s, r)| vec![*s as usize, *r as usize]).collect() };
            for h in holders {
                if let Some(v) = r.vals[h][kd.get_id() as usize].extract() {
                    if let Ok(b) = v.access_bytes(|b| Ok(b.to_vec())) { res.insert(b); }
                }
            }
        }
    }
    res
}

fn junk(mode: u8, k: &[u8], iv: u64, n: u64) -> Vec<u8> {
    (0..n).map(|i| match mode { 0 => 0u8, 1 => 1u8, _ => { let h = k.iter().fold(iv.wrapping_mul(0x9E3779B97F4A7C15) ^ i, |a, b| (a ^ (*b as u64)).wrapping_mul(0x100000001B3)); ((h >> 17) & 1) as u8 } }).collect()
}

const SEEDS: [[u8; 16]; 3] = [[1u8; 16], [2u8; 16], [3u8; 16]];

fn party_inputs_bits(input_types: &[Type], owners: &[IOStatus], xs: &[u8]) -> Vec<[PV; 3]> {
    // party inputs: real where owned / public, 0 (junk) otherwise; no Shared owners here
    let mut pos = 0usize;
    let mut res = vec![];
    for (t, o) in input_types.iter().zip(owners.iter()) {
        let k = bits_of_type(t);
        let mk = |bits: &[u8]| -> Value { if let Type::Vector(_, _) = t { Value::from_vector(bits.iter().map(|b| bitval(*b)).collect()) } else { bitval(bits[0]) } };
        let real = mk(&xs[pos..pos + k]);
        let junk = mk(&vec![0u8; k]);
        pos += k;
        res.push(match o {
            IOStatus::Public => [PV::Val(real.clone()), PV::Val(real.clone()), PV::Val(real)],
            IOStatus::Party(q) => { let mut a = [PV::Val(junk.clone()), PV::Val(junk.clone()), PV::Val(junk)]; a[*q as usize] = PV::Val(real); a }
            IOStatus::Shared => unreachable!(),
        });
    }
    res
}

/// One exact run: tape = assignment of bits to the PRF cells of legitimately held keys, in order
/// of first use.  Returns every party's view, its output (if revealed) and, for the junk check,
/// everything delivered to anyone.
fn run_views(c: &Compiled, input_types: &[Type], owners: &[IOStatus], revealed: bool, legit: &HashSet<Vec<u8>>, junk_mode: u8, xs: &[u8], tape: u64, ncells: &mut usize) -> ([Vec<u8>; 3], [Option<Vec<u8>>; 3], Vec<u8>) {
    let ins = party_inputs_bits(input_types, owners, xs);
    let mut table: HashMap<(Vec<u8>, u64), Value> = HashMap::new();
    let mut next = 0usize;
    let mut ideal = |k: &[u8], iv: u64, t: &Type| -> Value {
        let n: u64 = t.get_dimensions().iter().product();
        if !legit.contains(k) { return Value::from_flattened_array(&junk(junk_mode, k, iv, n), BIT).unwrap(); }
        let key = (k.to_vec(), iv);
        if let Some(v) = table.get(&key) { return v.clone(); }
        let mut bits = vec![];
        for _ in 0..n { bits.push(((tape >> next) & 1) as u8); next += 1; }
        let v = Value::from_flattened_array(&bits, BIT).unwrap();
        table.insert(key, v.clone());
        v
    };
    // fixed, distinct seeds: the keys only serve as identities of the idealised PRF
    let r = exec3_with(&c.g, &ins, SEEDS, Some(&mut ideal));
    *ncells = std::cmp::max(*ncells, next);
    // the observer's view: what it receives, plus every PRF value it computes on a key it holds
    let mut view: [Vec<u8>; 3] = [vec![], vec![], vec![]];
    let mut all_deliveries: Vec<u8> = vec![];
    let bits_of = |pv: &PV, t: &Type| -> Vec<u8> { match pv.extract() { Some(v) => flatten_bits(&v, t), None => vec![8] } };
    let nodes = c.g.get_nodes();
    for (nid, _s, rcv, pv) in r.deliveries.iter() {
        let t = nodes[*nid as usize].get_type().unwrap();
        let is_key = t.is_array() && t.get_shape() == vec![128];
        if !is_key { all_deliveries.extend(bits_of(pv, &t)); all_deliveries.push(7); }
        if (*rcv as usize) < 3 { view[*rcv as usize].extend(bits_of(pv, &t)); view[*rcv as usize].push(7); }
    }
    for n in nodes.iter() {
        if let Operation::PRF(_, t) = n.get_operation() {
            let kd = n.get_node_dependencies()[0].get_id() as usize;
            for q in 0..3usize {
                let holds = r.vals[q][kd].extract().and_then(|v| v.access_bytes(|b| Ok(b.to_vec())).ok()).map(|b| legit.contains(&b)).unwrap_or(false);
                if holds {
                    let b = bits_of(&r.vals[q][n.get_id() as usize], &t);
                    view[q].extend(b.clone());
                    all_deliveries.extend(b);
                }
            }
        }
    }
    let oid = c.g.get_output_node().unwrap().get_id() as usize;
    // a shared output is a tuple of shares (no party receives an output value then)
    let out_t = c.g.get_output_node().unwrap().get_type().unwrap();
    let outv: [Option<Vec<u8>>; 3] = [0usize, 1, 2].map(|q| if revealed { r.vals[q][oid].extract().map(|v| flatten_bits(&v, &out_t)) } else { None });
    (view, outv, all_deliveries)
}

/// all bits of a value of a bit-typed (possibly composite) type, in order
fn flatten_bits(v: &Value, t: &Type) -> Vec<u8> {
    match t {
        Type::Scalar(_) => vec![v.to_u8(BIT).unwrap_or(9)],
        Type::Array(_, _) => v.to_flattened_array_u8(t.clone()).unwrap_or(vec![9]),
        Type::Tuple(ts) => match v.to_vector() { Ok(vs) if vs.len() == ts.len() => vs.iter().zip(ts.iter()).flat_map(|(x, tt)| flatten_bits(x, tt)).collect(), _ => vec![9] },
        Type::Vector(n, tt) => match v.to_vector() { Ok(vs) if vs.len() as u64 == *n => vs.iter().flat_map(|x| flatten_bits(x, tt)).collect(), _ => vec![9] },
        Type::NamedTuple(ts) => match v.to_vector() { Ok(vs) if vs.len() == ts.len() => vs.iter().zip(ts.iter()).flat_map(|(x, (_, tt))| flatten_bits(x, tt)).collect(), _ => vec![9] },
    }
}

pub fn enumerate_views(kind: usize, owners: &[IOStatus], outs: &[IOStatus], out: &mut Out, max_cells: usize) {
    let p = bit_program(kind);
    let (mname, mode) = inline_modes()[0].clone();
    let desc0 = json!({"program": kind, "owners": owners.iter().map(status_str).collect::<Vec<_>>(), "outputs": outs.iter().map(status_str).collect::<Vec<_>>(), "inline": mname});
    let c = match compile(&p, owners, outs, mode) { Outcome::Ok(c) => c, _ => { out.stat("compile:notOk"); return; } };
    if std::env::var("C03_DUMP").is_ok() { eprintln!("enumeration program {} owners {:?} outs {:?}", kind, owners.iter().map(status_str).collect::<Vec<_>>(), outs.iter().map(status_str).collect::<Vec<_>>()); dump_graph(&c.g); }
    let its = p.input_types.clone();
    let in_bits: Vec<usize> = its.iter().map(bits_of_type).collect();
    let n_in: usize = in_bits.iter().sum();
    // which input a bit position belongs to
    let owner_of_bit: Vec<usize> = in_bits.iter().enumerate().flat_map(|(j, k)| vec![j; *k]).collect();
    let revealed = !outs.is_empty();
    let legit = legit_keys(&c, &party_inputs_bits(&its, owners, &vec![0u8; n_in]), SEEDS);
    // dry run to count the cells
    let mut ncells = 0usize;
    run_views(&c, &its, owners, revealed, &legit, 0, &vec![0u8; n_in], 0, &mut ncells);
    out.stat(&format!("cells:{}", ncells));
    // junk check: nothing that is delivered, and no PRF value on a held key, depends on the values
    // of PRF evaluations on keys the evaluating party does not legitimately hold
    {
        let mut nc = 0usize;
        let mask = if ncells >= 64 { u64::MAX } else { (1u64 << ncells) - 1 };
        for probe in 0..6u64 {
            let tape = probe.wrapping_mul(0x9E3779B97F4A7C15) & mask;
            let xs: Vec<u8> = (0..n_in).map(|j| ((probe >> j) & 1) as u8).collect();
            let a = run_views(&c, &its, owners, revealed, &legit, 0, &xs, tape, &mut nc).2;
            let b = run_views(&c, &its, owners, revealed, &legit, 1, &xs, tape, &mut nc).2;
            let d = run_views(&c, &its, owners, revealed, &legit, 2, &xs, tape, &mut nc).2;
            if a != b || a != d { out.stat("enumeration-skipped-junk-prf-value-is-delivered"); return; }
        }
    }
    if ncells > max_cells { out.stat("enumeration-skipped-too-many-cells"); return; }
    let ntapes = 1u64 << ncells;
    out.stat_n("exact_executions", ntapes * (1u64 << n_in));
    // histograms[observer][inputs] : view -> count (one execution gives all three views)
    let mut all_hists: [Vec<HashMap<Vec<u8>, u64>>; 3] = [vec![], vec![], vec![]];
    let mut all_outsv: [Vec<Option<Vec<u8>>>; 3] = [vec![], vec![], vec![]];
    for xm in 0..(1u32 << n_in) {
        let xs: Vec<u8> = (0..n_in).map(|j| ((xm >> j) & 1) as u8).collect();
        let mut h: [HashMap<Vec<u8>, u64>; 3] = [HashMap::new(), HashMap::new(), HashMap::new()];
        let mut ov: [Option<Vec<u8>>; 3] = [None, None, None];
        for tape in 0..ntapes {
            let mut nc = 0;
            let (v, o, _) = run_views(&c, &its, owners, revealed, &legit, 0, &xs, tape, &mut nc);
            for q in 0..3 { *h[q].entry(v[q].clone()).or_insert(0) += 1; }
            ov = o;
        }
        for q in 0..3 { all_hists[q].push(std::mem::take(&mut h[q])); all_outsv[q].push(ov[q].clone()); }
    }
    for observer in 0..3usize {
        let hists = &all_hists[observer];
        let outsv = &all_outsv[observer];
        let is_out = outs.contains(&IOStatus::Party(observer as u64));
        for a in 0..(1usize << n_in) {
            for b in (a + 1)..(1usize << n_in) {
                // same inputs of the observer (owned or public)
                let same_in = (0..n_in).all(|j| match &owners[owner_of_bit[j]] { IOStatus::Party(q) if *q as usize == observer => (a >> j) & 1 == (b >> j) & 1, IOStatus::Public => (a >> j) & 1 == (b >> j) & 1, _ => true });
                if !same_in { continue; }
                if is_out && outsv[a] != outsv[b] { continue; }
                if hists[a] != hists[b] {
                    let desc = json!({"config": desc0, "observer": observer, "inputs_a": a, "inputs_b": b, "cells": ncells});
                    out.violation("view-distribution-depends-on-other-inputs", desc, format!("observer {}: exact view histograms differ for input vectors {:b} and {:b} over all {} tapes", observer, a, b, ntapes));
                } else { out.oracle_ok(); }
            }
        }
    }
}

/// elementwise programs over one shape: add / sub / mul, at most one constant (same generator
/// as c01.rs ring_program, re-implemented here: the fragment read by Model/RingEval.v)
fn ring_program(rng: &mut Rng, st: ScalarType) -> Prog {
    let ctx = create_context().unwrap();
    let g = ctx.create_graph().unwrap();
    let shape = small_shape(rng);
    let t = array_type(shape, st);
    let ni = 1 + rng.below(3) as usize;
    let mut pool: Vec<Node> = (0..ni).map(|_| g.input(t.clone()).unwrap()).collect();
    if rng.chance(1, 2) { pool.push(g.constant(t.clone(), gen_value(&t, rng)).unwrap()); }
    if rng.chance(1, 6) { pool.push(g.zeros(t.clone()).unwrap()); }
    let mut dep: Vec<Node> = pool[..ni].to_vec();
    let n_ops = 1 + rng.below(5);
    for _ in 0..n_ops {
        let a = rng.pick(&dep).clone();
        let b = rng.pick(&pool).clone();
        let (a, b) = if rng.chance(1, 2) { (a, b) } else { (b, a) };
        let n = match rng.below(4) { 0 => a.add(b), 1 => a.subtract(b), _ => a.multiply(b) }.unwrap();
        pool.push(n.clone());
        dep.push(n);
    }
    let o = pool.last().unwrap().clone();
    g.set_output_node(o).unwrap();
    g.finalize().unwrap();
    ctx.set_main_graph(g.clone()).unwrap();
    ctx.finalize().unwrap();
    Prog { ctx, g, input_types: vec![t; ni], attempts: vec![] }
}

/// programs `create_tuple(e1, .., ek)` (k = 1..3) over elementwise e_i of one shape: add / sub / mul
/// over the inputs and at most one constant, as in `ring_program`; a component may be an input or
/// a constant itself, and components may share subterms.  `fixed` = the program of the seeded
/// planner defect: create_tuple(a*b, c).
fn tuple_program(rng: &mut Rng, st: ScalarType, fixed: bool) -> Prog {
    let ctx = create_context().unwrap();
    let g = ctx.create_graph().unwrap();
    let shape = small_shape(rng);
    let t = array_type(shape, st);
    let ni = if fixed { 3 } else { 1 + rng.below(3) as usize };
    let mut pool: Vec<Node> = (0..ni).map(|_| g.input(t.clone()).unwrap()).collect();
    let comps: Vec<Node> = if fixed {
        vec![pool[0].multiply(pool[1].clone()).unwrap(), pool[2].clone()]
    } else {
        if rng.chance(1, 3) { pool.push(g.constant(t.clone(), gen_value(&t, rng)).unwrap()); }
        let mut dep: Vec<Node> = pool[..ni].to_vec();
        let n_ops = 1 + rng.below(4);
        for _ in 0..n_ops {
            let a = rng.pick(&dep).clone();
            let b = rng.pick(&pool).clone();
            let (a, b) = if rng.chance(1, 2) { (a, b) } else { (b, a) };
            let n = match rng.below(4) { 0 => a.add(b), 1 => a.subtract(b), _ => a.multiply(b) }.unwrap();
            pool.push(n.clone());
            dep.push(n);
        }
        let k = 1 + rng.below(3) as usize;
        // the last operation is always a component, the others are drawn from everything built
        let mut cs: Vec<Node> = (1..k).map(|_| rng.pick(&pool).clone()).collect();
        let pos = rng.below(k as u64) as usize;
        cs.insert(pos, pool.last().unwrap().clone());
        cs
    };
    let o = g.create_tuple(comps).unwrap();
    g.set_output_node(o).unwrap();
    g.finalize().unwrap();
    ctx.set_main_graph(g.clone()).unwrap();
    ctx.finalize().unwrap();
    Prog { ctx, g, input_types: vec![t; ni], attempts: vec![] }
}

fn owners_no_shared(n: usize, rng: &mut Rng) -> Vec<IOStatus> {
    (0..n).map(|_| match rng.below(5) { 0 => IOStatus::Party(0), 1 => IOStatus::Party(1), 2 => IOStatus::Party(2), 3 => IOStatus::Public, _ => IOStatus::Party(rng.below(3)) }).collect()
}

fn dump_graph(g: &Graph) {
    for n in g.get_nodes() {
        let deps: Vec<u64> = n.get_node_dependencies().iter().map(|d| d.get_id()).collect();
        let an: Vec<String> = n.get_annotations().unwrap_or_default().iter().map(annot_coq).collect();
        eprintln!("  {:3} {:<14} {:?} {}", n.get_id(), op_name(&n.get_operation()), deps, an.join(" "));
    }
    eprintln!("  out = {}", g.get_output_node().unwrap().get_id());
}

/// T:maskcheck — the static mask analysis (Model/MaskCheck.v, proved sound in
/// Proofs/MaskCheckProofs.v) run inside Coq on the real compiler output, for each observer.
fn maskcheck_cases(tier: &str, seed: u64, out: &mut Out) {
    let mut rng = Rng::new(seed ^ 0xC03);
    let n_prog = match tier { "thorough" => 160, "search" => 60, _ => 16 };
    let modes = inline_modes();
    let all_outs = output_subsets();
    let int_sts = [UINT8, INT16, UINT32, INT32, UINT64, INT64, UINT128];
    let dump = std::env::var("C03_DUMP").is_ok();
    for i in 0..n_prog {
        let st = if i % 5 == 4 { BIT } else { *rng.pick(&int_sts) };
        let p = ring_program(&mut rng, st);
        let owners = owners_no_shared(p.input_types.len(), &mut rng);
        let outs = all_outs[i % all_outs.len()].clone();
        let (mname, mode) = modes[i % 3].clone();
        let c = match compile(&p, &owners, &outs, mode) { Outcome::Ok(c) => c, _ => { out.stat("maskcheck-compile:notOk"); continue; } };
        out.stat("maskcheck-compile:Ok");
        out.stat(&format!("maskcheck-outputs:{}", outs.len()));
        let ops_desc: Vec<String> = p.g.get_nodes().iter().map(|n| op_name(&n.get_operation())).collect();
        let private = owners.iter().any(|o| *o != IOStatus::Public);
        let nodes = nodes_coq(&c.g);
        let cfg = cfg_coq(&owners, &outs, &c.g);
        let oid = c.g.get_output_node().unwrap().get_id();
        if dump { eprintln!("program {} ops {:?} owners {:?} outs {:?} inline {}", i, ops_desc, owners.iter().map(status_str).collect::<Vec<_>>(), outs.iter().map(status_str).collect::<Vec<_>>(), mname); dump_graph(&c.g); }
        for observer in 0..3u64 {
            let n_deliv = c.g.get_nodes().iter().filter(|n| sends_of(n).iter().any(|(s, r)| *r == observer && *s != observer)).count();
            out.stat(&format!("maskcheck-deliveries-to-observer:{}", std::cmp::min(n_deliv, 12)));
            let desc = json!({"ops": ops_desc, "st": scalar(st), "owners": owners.iter().map(status_str).collect::<Vec<_>>(), "outputs": outs.iter().map(status_str).collect::<Vec<_>>(), "inline": mname, "observer": observer, "compiled_nodes": c.g.get_nodes().len(), "deliveries": n_deliv});
            out.case("T:maskcheck", format!("isSome (maskcheck {} {} {} {})", cfg, observer, nodes, oid), "true".into(), desc.clone(), private && n_deliv > 0);
            // the view used by the theorem contains everything C02's knowledge analysis gives the observer
            out.case("T:viewcover", format!("viewcover {} {} {}", cfg, observer, nodes), "true".into(), desc, private && n_deliv > 0);
        }
        // mutants of the exported graph (the property's own examples): the checker must reject
        let gnodes = c.g.get_nodes();
        let node_strs: Vec<String> = gnodes.iter().map(node_coq).collect();
        let mut input_no = 0usize;
        for n in gnodes.iter() {
            if !matches!(n.get_operation(), Operation::Input(_)) { continue; }
            let j = input_no;
            input_no += 1;
            let q = match owners.get(j) { Some(IOStatus::Party(q)) => *q, _ => continue };
            let iid = n.get_id();
            // share_q = Add [alpha_q, input] with alpha_q = Subtract [PRF, PRF], then NOP + Send(q, q-1)
            let add = gnodes.iter().find(|m| matches!(m.get_operation(), Operation::Add) && m.get_node_dependencies().len() == 2 && m.get_node_dependencies()[1].get_id() == iid && matches!(m.get_node_dependencies()[0].get_operation(), Operation::Subtract));
            let add = match add { Some(a) => a.clone(), None => { out.stat("mutant:share-pattern-not-found"); continue; } };
            let alpha = add.get_node_dependencies()[0].clone();
            let nop = gnodes.iter().find(|m| matches!(m.get_operation(), Operation::NOP) && m.get_node_dependencies()[0].get_id() == add.get_id() && sends_of(m).contains(&(q, (q + 2) % 3)));
            let nop = match nop { Some(a) => a.clone(), None => { out.stat("mutant:share-pattern-not-found"); continue; } };
            let t = alpha.get_type().unwrap();
            // (A) the zero-sharing mask of the owner's share replaced by zeros: party q-1 receives x itself
            let obs_a = (q + 2) % 3;
            if !outs.contains(&IOStatus::Party(obs_a)) {
                let mut ns = node_strs.clone();
                ns[alpha.get_id() as usize] = format!("(mkNode (OZeros {}) [] [] [] {})", ty(&t), ty(&t));
                let desc = json!({"mutant": "mask-replaced-by-zeros", "ops": ops_desc, "owners": owners.iter().map(status_str).collect::<Vec<_>>(), "outputs": outs.iter().map(status_str).collect::<Vec<_>>(), "input": j, "mutated_node": alpha.get_id(), "observer": obs_a});
                out.case("T:maskcheck-mutant", format!("isSome (maskcheck {} {} [{}] {})", cfg, obs_a, ns.join("; "), oid), "false".into(), desc, true);
            }
            // (B) the owner's share sent to one extra party: party q+1 then holds all three shares
            let obs_b = (q + 1) % 3;
            if !outs.contains(&IOStatus::Party(obs_b)) {
                let mut ns = node_strs.clone();
                let mut an: Vec<String> = nop.get_annotations().unwrap_or_default().iter().map(annot_coq).collect();
                an.push(format!("(ASend {} {})", q, obs_b));
                let deps: Vec<u64> = nop.get_node_dependencies().iter().map(|d| d.get_id()).collect();
                ns[nop.get_id() as usize] = format!("(mkNode ONOP {} [] [{}] {})", list_u64(&deps), an.join("; "), ty(&nop.get_type().unwrap()));
                let desc = json!({"mutant": "share-sent-to-extra-party", "ops": ops_desc, "owners": owners.iter().map(status_str).collect::<Vec<_>>(), "outputs": outs.iter().map(status_str).collect::<Vec<_>>(), "input": j, "mutated_node": nop.get_id(), "observer": obs_b});
                out.case("T:maskcheck-mutant", format!("isSome (maskcheck {} {} [{}] {})", cfg, obs_b, ns.join("; "), oid), "false".into(), desc, true);
            }
        }
    }
}

/// `(mkNode op deps [] annots ty)` of node n with its dependencies replaced
fn node_coq_with_deps(n: &Node, deps: &[u64]) -> String {
    let an: Vec<String> = n.get_annotations().unwrap_or_default().iter().map(annot_coq).collect();
    format!("(mkNode {} {} [] [{}] {})", op_coq(&n.get_operation()), list_u64(deps), an.join("; "), ty(&n.get_type().unwrap()))
}

/// T:maskcheck / T:viewcover / T:maskcheck-mutant on compiled programs `create_tuple(e1, .., ek)`:
/// the reshared shares are tuples sent as one message, the revealed output is a tuple of Add-trees
/// over TupleGet's of the delivered share tuples.
fn tuple_cases(tier: &str, seed: u64, out: &mut Out) {
    let mut rng = Rng::new(seed ^ 0xC03 ^ 0x7091E);
    let modes = inline_modes();
    let all_outs = output_subsets();
    // every (output list, inline mode) pair, `rounds` programs each
    let rounds = match tier { "thorough" => 4, "search" => 2, _ => 1 };
    let int_sts = [UINT8, INT16, UINT32, INT32, UINT64, INT64, UINT128];
    let dump = std::env::var("C03_DUMP").is_ok();
    let n_cfg = all_outs.len() * modes.len();
    for i in 0..(rounds * n_cfg) {
        let st = if i % 5 == 4 { BIT } else { *rng.pick(&int_sts) };
        // every fourth program is the one of the seeded planner defect: create_tuple(a*b, c)
        let fixed = i % 4 == 0;
        let p = tuple_program(&mut rng, st, fixed);
        let owners = owners_no_shared(p.input_types.len(), &mut rng);
        let outs = all_outs[i % all_outs.len()].clone();
        let (mname, mode) = modes[(i / all_outs.len()) % modes.len()].clone();
        let c = match compile(&p, &owners, &outs, mode) { Outcome::Ok(c) => c, _ => { out.stat("tuple-compile:notOk"); continue; } };
        out.stat("tuple-compile:Ok");
        out.stat(&format!("tuple-outputs:{}", outs.len()));
        let ops_desc: Vec<String> = p.g.get_nodes().iter().map(|n| op_name(&n.get_operation())).collect();
        let arity = p.g.get_output_node().unwrap().get_node_dependencies().len();
        out.stat(&format!("tuple-arity:{}", arity));
        let private = owners.iter().any(|o| *o != IOStatus::Public);
        let nodes = nodes_coq(&c.g);
        let cfg = cfg_coq(&owners, &outs, &c.g);
        let oid = c.g.get_output_node().unwrap().get_id();
        let gnodes = c.g.get_nodes();
        if dump { eprintln!("tuple program {} ops {:?} owners {:?} outs {:?} inline {}", i, ops_desc, owners.iter().map(status_str).collect::<Vec<_>>(), outs.iter().map(status_str).collect::<Vec<_>>(), mname); dump_graph(&c.g); }
        let is_tuple = |n: &Node| matches!(n.get_type().unwrap(), Type::Tuple(_));
        for observer in 0..3u64 {
            let n_deliv = gnodes.iter().filter(|n| sends_of(n).iter().any(|(s, r)| *r == observer && *s != observer)).count();
            let n_tdeliv = gnodes.iter().filter(|n| is_tuple(n) && sends_of(n).iter().any(|(s, r)| *r == observer && *s != observer)).count();
            out.stat(&format!("tuple-deliveries-to-observer:{}", std::cmp::min(n_deliv, 12)));
            out.stat(&format!("tuple-valued-deliveries-to-observer:{}", std::cmp::min(n_tdeliv, 6)));
            let desc = json!({"stream": "tuple", "ops": ops_desc, "st": scalar(st), "owners": owners.iter().map(status_str).collect::<Vec<_>>(), "outputs": outs.iter().map(status_str).collect::<Vec<_>>(), "inline": mname, "observer": observer, "compiled_nodes": gnodes.len(), "deliveries": n_deliv, "tuple_deliveries": n_tdeliv});
            out.case("T:maskcheck", format!("isSome (maskcheck {} {} {} {})", cfg, observer, nodes, oid), "true".into(), desc.clone(), private && n_deliv > 0);
            out.case("T:viewcover", format!("viewcover {} {} {}", cfg, observer, nodes), "true".into(), desc, private && n_deliv > 0);
        }
        // mutants: a delivered tuple share = NOP+Send(s, r) of CreateTuple [.., Add [x, alpha], ..] where
        // alpha = Subtract [PRF, PRF] is the resharing mask and x = Add [Multiply, Multiply] the bare
        // 3-out-of-3 product share of party s
        let node_strs: Vec<String> = gnodes.iter().map(node_coq).collect();
        let dep_ids = |n: &Node| -> Vec<u64> { n.get_node_dependencies().iter().map(|d| d.get_id()).collect() };
        let is_op = |n: &Node, o: &str| op_name(&n.get_operation()) == o;
        // (sender, receiver, NOP, CreateTuple, component, masked component node, bare share x)
        let mut sites: Vec<(u64, u64, Node, Node, usize, Node, Node)> = vec![];
        for n in gnodes.iter() {
            if !is_op(n, "NOP") || sends_of(n).len() != 1 { continue; }
            let ct = n.get_node_dependencies()[0].clone();
            if !is_op(&ct, "CreateTuple") { continue; }
            let (s_, r_) = sends_of(n)[0];
            for (j, cj) in ct.get_node_dependencies().iter().enumerate() {
                if !is_op(cj, "Add") { continue; }
                let d = cj.get_node_dependencies();
                if d.len() != 2 || !is_op(&d[1], "Subtract") || !d[1].get_node_dependencies().iter().all(|q| is_op(q, "PRF")) { continue; }
                let x = d[0].clone();
                if !is_op(&x, "Add") || !x.get_node_dependencies().iter().all(|q| is_op(q, "Multiply")) { continue; }
                sites.push((s_, r_, n.clone(), ct.clone(), j, cj.clone(), x));
            }
        }
        out.stat(&format!("tuple-mutant-sites:{}", std::cmp::min(sites.len(), 9)));
        if sites.is_empty() { continue; }
        let owners_s: Vec<String> = owners.iter().map(status_str).collect();
        let outs_s: Vec<String> = outs.iter().map(status_str).collect();
        // (T1) one component of one delivered tuple is the bare product share
        {
            let (s_, r_, nop, ct, j, _cj, x) = rng.pick(&sites).clone();
            let mut deps = dep_ids(&ct);
            deps[j] = x.get_id();
            let mut ns = node_strs.clone();
            ns[ct.get_id() as usize] = node_coq_with_deps(&ct, &deps);
            let desc = json!({"mutant": "tuple-component-unmasked", "ops": ops_desc, "owners": owners_s, "outputs": outs_s, "sender": s_, "observer": r_, "delivered_node": nop.get_id(), "tuple_node": ct.get_id(), "component": j, "bare_share": x.get_id(), "observer_is_output_party": outs.contains(&IOStatus::Party(r_))});
            out.stat(&format!("tuple-mutant-observer-is-output-party:{}", outs.contains(&IOStatus::Party(r_))));
            out.case("T:maskcheck-mutant", format!("isSome (maskcheck {} {} [{}] {})", cfg, r_, ns.join("; "), oid), "false".into(), desc, true);
        }
        // (T2) "the planner forgot to reshare": the same component of all three share tuples is the bare
        // product share; every receiver must be refused
        {
            let j0 = rng.pick(&sites).4;
            let same: Vec<_> = sites.iter().filter(|t| t.4 == j0).cloned().collect();
            if same.iter().map(|t| t.0).collect::<HashSet<u64>>().len() == 3 {
                let mut ns = node_strs.clone();
                for (_, _, _, ct, j, _, x) in same.iter() {
                    let mut deps = dep_ids(ct);
                    deps[*j] = x.get_id();
                    ns[ct.get_id() as usize] = node_coq_with_deps(ct, &deps);
                }
                let observers: Vec<u64> = if tier == "quick" { vec![rng.below(3)] } else { vec![0, 1, 2] };
                for obs in observers {
                    let desc = json!({"mutant": "tuple-component-never-reshared", "ops": ops_desc, "owners": owners_s, "outputs": outs_s, "component": j0, "observer": obs, "observer_is_output_party": outs.contains(&IOStatus::Party(obs))});
                    out.case("T:maskcheck-mutant", format!("isSome (maskcheck {} {} [{}] {})", cfg, obs, ns.join("; "), oid), "false".into(), desc, true);
                }
            } else { out.stat("tuple-mutant:not-all-three-senders"); }
        }
        // (T3) a reshared tuple share is sent to one extra party, which then holds two of the three
        // reshared shares of every component (observers that are not output parties)
        {
            let (s_, _r, nop, _ct, _j, _cj, _x) = rng.pick(&sites).clone();
            let obs = (s_ + 1) % 3;
            if !outs.contains(&IOStatus::Party(obs)) {
                let mut ns = node_strs.clone();
                let mut an: Vec<String> = nop.get_annotations().unwrap_or_default().iter().map(annot_coq).collect();
                an.push(format!("(ASend {} {})", s_, obs));
                ns[nop.get_id() as usize] = format!("(mkNode ONOP {} [] [{}] {})", list_u64(&dep_ids(&nop)), an.join("; "), ty(&nop.get_type().unwrap()));
                let desc = json!({"mutant": "tuple-share-sent-to-extra-party", "ops": ops_desc, "owners": owners_s, "outputs": outs_s, "mutated_node": nop.get_id(), "observer": obs});
                out.case("T:maskcheck-mutant", format!("isSome (maskcheck {} {} [{}] {})", cfg, obs, ns.join("; "), oid), "false".into(), desc, true);
            }
        }
    }
}

pub fn run(tier: &str, seed: u64, out: &mut Out) {
    maskcheck_cases(tier, seed, out);
    tuple_cases(tier, seed, out);
    let cfgs: Vec<(usize, Vec<IOStatus>, Vec<IOStatus>)> = vec![
        (2, vec![IOStatus::Party(0), IOStatus::Party(1)], vec![IOStatus::Party(2)]),
        (4, vec![IOStatus::Party(0), IOStatus::Party(1), IOStatus::Public], vec![IOStatus::Party(2)]),
        (9, vec![IOStatus::Party(1)], vec![IOStatus::Party(2)]),
        // several output parties, the revealing one not party 0: the third party must learn nothing
        (2, vec![IOStatus::Party(0), IOStatus::Party(1)], vec![IOStatus::Party(1), IOStatus::Party(2)]),
        (2, vec![IOStatus::Party(0), IOStatus::Party(1)], vec![IOStatus::Party(0)]),
        (0, vec![IOStatus::Party(0), IOStatus::Party(1)], vec![IOStatus::Party(2)]),
        (0, vec![IOStatus::Party(1), IOStatus::Party(2)], vec![IOStatus::Party(1)]),
        (0, vec![IOStatus::Party(0), IOStatus::Public], vec![IOStatus::Party(1), IOStatus::Party(2)]),
        (1, vec![IOStatus::Party(0), IOStatus::Party(1), IOStatus::Party(2)], vec![IOStatus::Party(0)]),
        (3, vec![IOStatus::Party(0), IOStatus::Party(1), IOStatus::Party(2)], vec![]),
        (8, vec![IOStatus::Party(1), IOStatus::Party(2)], vec![IOStatus::Party(2)]),
        (4, vec![IOStatus::Party(0), IOStatus::Party(1), IOStatus::Party(2)], vec![IOStatus::Party(2)]),
        (0, vec![IOStatus::Party(0), IOStatus::Party(1)], vec![IOStatus::Party(2), IOStatus::Party(1)]),
        (5, vec![IOStatus::Party(1), IOStatus::Party(2), IOStatus::Party(0)], vec![IOStatus::Party(0)]),
        (6, vec![IOStatus::Party(0), IOStatus::Party(1), IOStatus::Party(2)], vec![IOStatus::Party(1)]),
        (7, vec![IOStatus::Party(0), IOStatus::Party(1), IOStatus::Party(2)], vec![IOStatus::Party(2)]),
    ];
    let (take, max_cells) = match tier { "thorough" => (cfgs.len(), 18), "search" => (cfgs.len(), 20), _ => (6, 13) };
    for (kind, owners, outs) in cfgs.into_iter().take(take) {
        enumerate_views(kind, &owners, &outs, out, max_cells);
    }
}

//! Generator of MPC-compilable source programs and of owner / output configurations
//! (shared by C01, C02, C03, C04).
use crate::gen::*;
use crate::progen::*;
use crate::rng::Rng;
use ciphercore_base::data_types::*;
use ciphercore_base::graphs::*;
use ciphercore_base::inline::inline_common::DepthOptimizationLevel;
use ciphercore_base::inline::inline_ops::{InlineConfig, InlineMode};
use ciphercore_base::mpc::mpc_compiler::IOStatus;

/// operation families of the additive/bilinear fragment (C01's theorem fragment)
pub const FRAGMENT_OPS: [&str; 17] = [
    "add", "add", "sub", "mul", "mul", "mul", "dot", "matmul", "sum", "get", "getslice", "reshape",
    "permute", "stack", "concat", "constant", "zeros",
];
/// the wider MPC-compilable set (protocols outside the fragment)
pub const MPC_OPS: [&str; 28] = [
    "add", "sub", "mul", "mul", "mixed", "dot", "matmul", "gemm", "sum", "cumsum", "get", "getslice",
    "reshape", "permute", "stack", "concat", "constant", "zeros", "ones", "a2b", "b2a", "truncate",
    "tuple", "tupleget", "vector", "a2v", "v2a", "repeat",
];

pub fn owner_vectors(n: usize) -> Vec<Vec<IOStatus>> {
    let choices = [IOStatus::Party(0), IOStatus::Party(1), IOStatus::Party(2), IOStatus::Public, IOStatus::Shared];
    let mut res: Vec<Vec<IOStatus>> = vec![vec![]];
    for _ in 0..n {
        let mut next = vec![];
        for v in &res {
            for c in choices.iter() {
                let mut w = v.clone();
                w.push(c.clone());
                next.push(w);
            }
        }
        res = next;
    }
    res
}
/// every list of distinct output parties: the 8 subsets in increasing order first, then the 8
/// other orderings (the first listed party reveals to the others, so the order matters)
pub fn output_subsets() -> Vec<Vec<IOStatus>> {
    let mut res = vec![];
    for mask in 0..8u32 {
        let mut v = vec![];
        for p in 0..3u64 {
            if mask & (1 << p) != 0 {
                v.push(IOStatus::Party(p));
            }
        }
        res.push(v);
    }
    for l in [vec![1u64, 0], vec![2, 0], vec![2, 1], vec![1, 0, 2], vec![1, 2, 0], vec![2, 0, 1], vec![2, 1, 0], vec![0, 2, 1]] {
        res.push(l.into_iter().map(IOStatus::Party).collect());
    }
    res
}
pub fn random_owners(n: usize, rng: &mut Rng) -> Vec<IOStatus> {
    (0..n)
        .map(|_| match rng.below(6) {
            0 => IOStatus::Party(0),
            1 => IOStatus::Party(1),
            2 => IOStatus::Party(2),
            3 => IOStatus::Public,
            4 => IOStatus::Shared,
            _ => IOStatus::Party(rng.below(3)),
        })
        .collect()
}
pub fn inline_modes() -> Vec<(&'static str, InlineConfig)> {
    vec![
        ("simple", InlineConfig { default_mode: InlineMode::Simple, ..Default::default() }),
        ("depth-default", InlineConfig { default_mode: InlineMode::DepthOptimized(DepthOptimizationLevel::Default), ..Default::default() }),
        ("depth-extreme", InlineConfig { default_mode: InlineMode::DepthOptimized(DepthOptimizationLevel::Extreme), ..Default::default() }),
    ]
}
pub fn status_str(s: &IOStatus) -> String {
    match s {
        IOStatus::Public => "Public".into(),
        IOStatus::Shared => "Shared".into(),
        IOStatus::Party(p) => format!("P{}", p),
    }
}

/// A source program whose output is a single array/scalar node (so that every owner/output
/// configuration applies).
pub fn gen_mpc_program(rng: &mut Rng, ops: &[&'static str], n_inputs: usize, n_ops: usize, sts: &[ScalarType]) -> Prog {
    let cfg = GenCfg { n_inputs, n_ops, scalar_types: sts.to_vec(), ops: ops.to_vec(), small: true };
    gen_program_single_output(rng, &cfg)
}

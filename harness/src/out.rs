//! Case writer: one JSON object per line. The Python runner turns `case` records into
//! cases_*.v files ( (id, eqb lhs rhs) ), `violation` records into VIOLATION lines, and
//! aggregates `stat` counters into the evidence file.
use serde_json::{json, Value as J};
use std::collections::{BTreeMap, HashSet};
use std::fs::File;
use std::io::{BufWriter, Write};

pub struct Out {
    w: BufWriter<File>,
    next_id: u64,
    pub stats: BTreeMap<String, u64>,
    keys: HashSet<String>,
    nontrivial_keys: HashSet<String>,
    samples: Vec<J>,
    pub max_samples: usize,
}

impl Out {
    pub fn new(path: &str) -> Self {
        Out {
            w: BufWriter::new(File::create(path).expect("create out file")),
            next_id: 0,
            stats: BTreeMap::new(),
            keys: HashSet::new(),
            nontrivial_keys: HashSet::new(),
            samples: vec![],
            max_samples: 12,
        }
    }
    pub fn stat(&mut self, k: &str) {
        *self.stats.entry(k.to_string()).or_insert(0) += 1;
    }
    pub fn stat_n(&mut self, k: &str, n: u64) {
        *self.stats.entry(k.to_string()).or_insert(0) += n;
    }
    /// A correspondence / translation case: the model expression `lhs` must evaluate (vm_compute)
    /// to the Rust observation `rhs`. `input` is a human-readable description for samples/replay.
    pub fn case(&mut self, kind: &str, lhs: String, rhs: String, input: J, nontrivial: bool) -> u64 {
        let id = self.next_id;
        self.next_id += 1;
        let key = format!("{}|{}", kind, lhs);
        let fresh = self.keys.insert(key.clone());
        if fresh && nontrivial {
            self.nontrivial_keys.insert(key);
        }
        self.stat(&format!("kind:{}", kind));
        if self.samples.len() < self.max_samples && (id % 37 == 0 || self.samples.len() < 3) {
            let mut l = lhs.clone();
            if l.len() > 400 {
                l.truncate(400);
                l.push_str("...");
            }
            let mut r = rhs.clone();
            if r.len() > 400 {
                r.truncate(400);
                r.push_str("...");
            }
            self.samples
                .push(json!({"kind": kind, "input": input, "model_expr": l, "rust_observed": r}));
        }
        let rec = json!({"t":"case","id":id,"kind":kind,"lhs":lhs,"rhs":rhs,"input":input});
        writeln!(self.w, "{}", rec).unwrap();
        id
    }
    /// A generated proof obligation: `vernac` is a complete, self-contained piece of Coq (Section /
    /// Goal / Proof / Qed) that must compile; it is re-proved by coqc on every run.
    pub fn vernac_case(&mut self, kind: &str, vernac: String, input: J, nontrivial: bool) -> u64 {
        let id = self.next_id;
        self.next_id += 1;
        let key = format!("{}|{}", kind, vernac);
        let fresh = self.keys.insert(key.clone());
        if fresh && nontrivial {
            self.nontrivial_keys.insert(key);
        }
        self.stat(&format!("kind:{}", kind));
        if self.samples.len() < self.max_samples && (id % 37 == 0 || self.samples.len() < 3) {
            let mut l = vernac.clone();
            if l.len() > 600 {
                l.truncate(600);
                l.push_str("...");
            }
            self.samples.push(json!({"kind": kind, "input": input, "generated_obligation": l}));
        }
        let rec = json!({"t":"case","id":id,"kind":kind,"vernac":vernac,"lhs":"","rhs":"","input":input});
        writeln!(self.w, "{}", rec).unwrap();
        id
    }
    /// A property-level oracle verdict on one concrete input, computed natively against /repo.
    /// `class` identifies the failing site / input class (matched against KNOWN_FINDINGS.json).
    pub fn violation(&mut self, class: &str, input: J, detail: String) {
        self.stat("oracle_violations");
        let rec = json!({"t":"violation","class":class,"input":input,"detail":detail});
        writeln!(self.w, "{}", rec).unwrap();
    }
    pub fn oracle_ok(&mut self) {
        self.stat("oracle_checks");
    }
    pub fn note(&mut self, k: &str, v: J) {
        let rec = json!({"t":"note","key":k,"value":v});
        writeln!(self.w, "{}", rec).unwrap();
    }
    pub fn finish(mut self) {
        let rec = json!({"t":"summary","cases":self.next_id,"distinct":self.keys.len(),
            "distinct_nontrivial":self.nontrivial_keys.len(),"stats":self.stats,"samples":self.samples});
        writeln!(self.w, "{}", rec).unwrap();
        self.w.flush().unwrap();
    }
}

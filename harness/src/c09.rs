//! C09 — type inference is sound for evaluation; well-typed programs never crash.
//!
//! (a) `infer` correspondence: every `add_node` attempt (accepted and rejected) of generated
//!     programs, plus a malformed stream obtained by perturbing one parameter / argument type of
//!     accepted attempts, is replayed as `infer <op> [<dependency types>]` (Graph/Typing.v) against
//!     the Rust outcome `Ok(type)` / `Err` / `Panic` of `Graph::add_node`.
//! (b) soundness monitor (native oracle, the property itself): generated programs are evaluated
//!     node by node on random inputs of the declared types; every node value must satisfy
//!     `Value::check_type(node.get_type()) == Ok(true)` and no `evaluate_node` call may panic.
//! (c) `T:has_type_node_value`: the model's `has_type` on the decoded value of sampled nodes.
use crate::coqfmt::*;
use crate::export::*;
use crate::gen::*;
use crate::out::Out;
use crate::progen::*;
use crate::rng::Rng;
use ciphercore_base::data_types::*;
use ciphercore_base::data_values::Value;
use ciphercore_base::graphs::*;
use serde_json::json;
use std::collections::HashSet;

pub const HEADER: &str = "From CC Require Import Base.Prelude Base.Scalar Base.Ty Base.Shape Graph.Value Graph.IR Graph.Eval Graph.Typing.";

// ------------------------------------------------------------------------------- attempts
#[derive(Clone)]
struct Att {
    a: Attempt,
    /// for a Constant whose declared type was perturbed: the type the value really has
    const_ty: Option<Type>,
    origin: &'static str,
}

fn op_str(op: &Operation, const_ty: &Option<Type>) -> String {
    match (op, const_ty) {
        (Operation::Constant(t, v), Some(tt)) => format!("(OConstant {} {})", ty(t), value_coq(v, tt)),
        _ => op_coq(op),
    }
}

/// Runs `add_node(op)` on fresh Input nodes of the given (valid) types, in a fresh context.
fn attempt(op: &Operation, dep_types: &[Type]) -> Option<Attempt> {
    let ctx = create_context().ok()?;
    let g = ctx.create_graph().ok()?;
    let mut deps = vec![];
    for t in dep_types {
        let t2 = t.clone();
        let g2 = g.clone();
        match observe(move || g2.input(t2)) {
            Outcome::Ok(n) => deps.push(n),
            _ => return None,
        }
    }
    let g2 = g.clone();
    let op2 = op.clone();
    let r = observe(move || g2.add_node(deps, vec![], op2));
    let result = match &r {
        Outcome::Ok(n) => Outcome::Ok(n.get_type().unwrap()),
        Outcome::Err => Outcome::Err,
        Outcome::Panic => Outcome::Panic,
    };
    Some(Attempt { op: op.clone(), dep_types: dep_types.to_vec(), result })
}

struct Emitter {
    seen: HashSet<String>,
    accepted: Vec<Attempt>,
}
impl Emitter {
    fn emit(&mut self, out: &mut Out, att: &Att) {
        let a = &att.a;
        let lhs = format!("infer {} {}", op_str(&a.op, &att.const_ty), list(&a.dep_types, |t| ty(t)));
        if !self.seen.insert(lhs.clone()) {
            out.stat("infer_duplicate_skipped");
            return;
        }
        let rhs = res(&a.result, |t| ty(t));
        let name = op_name(&a.op);
        out.stat(&format!("infer:{}:{}", name, a.result.tag()));
        out.stat(&format!("infer_outcome:{}", a.result.tag()));
        out.stat(&format!("infer_origin:{}:{}", att.origin, a.result.tag()));
        for t in a.dep_types.iter() {
            if t.is_array() {
                out.stat(&format!("dep_rank:{}", t.get_shape().len()));
            }
            if t.is_array() || t.is_scalar() {
                out.stat(&format!("dep_st:{}", scalar(t.get_scalar_type())));
            }
        }
        let nontrivial = !a.dep_types.is_empty() || a.result.tag() != "Ok";
        out.case(
            &format!("infer_{}", att.origin),
            lhs,
            rhs,
            json!({"op": format!("{:?}", a.op).chars().take(300).collect::<String>(), "dep_types": a.dep_types.iter().map(|t| format!("{}", t)).collect::<Vec<_>>(), "rust": a.result.tag()}),
            nontrivial,
        );
        if a.result.tag() == "Panic" {
            // a panic at node-addition time is not a rejection
            out.violation(
                &format!("add-node-panics:{}", name),
                json!({"op": format!("{:?}", a.op).chars().take(300).collect::<String>(), "dep_types": a.dep_types.iter().map(|t| format!("{}", t)).collect::<Vec<_>>()}),
                "Graph::add_node panicked instead of returning Ok or Err".into(),
            );
        } else {
            out.oracle_ok();
        }
        if a.result.tag() == "Ok" && att.const_ty.is_none() {
            self.accepted.push(a.clone());
        }
    }
}

// ------------------------------------------------------------------------------- program builder
struct Pb {
    p: Prog,
    pool: Vec<Node>,
}
impl Pb {
    fn new() -> Pb {
        let ctx = create_context().unwrap();
        let g = ctx.create_graph().unwrap();
        Pb { p: Prog { ctx, g, input_types: vec![], attempts: vec![] }, pool: vec![] }
    }
    fn input(&mut self, t: Type) -> Node {
        let n = self.p.g.input(t.clone()).unwrap();
        self.p.input_types.push(t.clone());
        self.p.attempts.push(Attempt { op: Operation::Input(t.clone()), dep_types: vec![], result: Outcome::Ok(t) });
        self.pool.push(n.clone());
        n
    }
    fn add(&mut self, deps: Vec<Node>, op: Operation) -> Option<Node> {
        let dep_types: Vec<Type> = deps.iter().map(|d| d.get_type().unwrap()).collect();
        let g = self.p.g.clone();
        let op2 = op.clone();
        let r = observe(move || g.add_node(deps, vec![], op2));
        let result = match &r {
            Outcome::Ok(n) => Outcome::Ok(n.get_type().unwrap()),
            Outcome::Err => Outcome::Err,
            Outcome::Panic => Outcome::Panic,
        };
        self.p.attempts.push(Attempt { op, dep_types, result });
        if let Outcome::Ok(n) = r {
            self.pool.push(n.clone());
            Some(n)
        } else {
            None
        }
    }
    fn constant(&mut self, t: Type, rng: &mut Rng) -> Node {
        let v = gen_value(&t, rng);
        self.add(vec![], Operation::Constant(t, v)).unwrap()
    }
    fn finish(self, rng: &mut Rng) -> Prog {
        let k = std::cmp::min(self.pool.len(), 1 + rng.below(4) as usize);
        let outs: Vec<Node> = self.pool.iter().rev().take(k).cloned().collect();
        let o = self.p.g.create_tuple(outs).unwrap();
        self.p.g.set_output_node(o).unwrap();
        self.p.g.finalize().unwrap();
        self.p.ctx.set_main_graph(self.p.g.clone()).unwrap();
        self.p.ctx.finalize().unwrap();
        self.p
    }
}

// ------------------------------------------------------------------------------- directed generators
fn dim(rng: &mut Rng) -> u64 {
    *rng.pick(&[1u64, 1, 2, 2, 3, 4])
}
/// two batch prefixes (rank 0..2 each) that broadcast against each other, with size-1 dims
fn batches(rng: &mut Rng) -> (Vec<u64>, Vec<u64>) {
    let r = rng.below(3) as usize;
    let common: Vec<u64> = (0..r).map(|_| dim(rng)).collect();
    let side = |rng: &mut Rng| -> Vec<u64> {
        let keep = rng.below(r as u64 + 1) as usize;
        common[r - keep..].iter().map(|d| if rng.chance(1, 3) { 1 } else { *d }).collect()
    };
    (side(rng), side(rng))
}
fn arr_or_scalar(sh: &[u64], st: ScalarType) -> Type {
    if sh.is_empty() { scalar_type(st) } else { array_type(sh.to_vec(), st) }
}
/// a shape that broadcasts against `common` (suffix, some dims replaced by 1); empty = scalar
fn bshape(common: &[u64], rng: &mut Rng) -> Vec<u64> {
    let keep = rng.below(common.len() as u64 + 1) as usize;
    common[common.len() - keep..].iter().map(|d| if rng.chance(1, 3) { 1 } else { *d }).collect()
}
fn rand_shape(rng: &mut Rng, max_rank: u64) -> Vec<u64> {
    let r = 1 + rng.below(max_rank) as usize;
    (0..r).map(|_| dim(rng)).collect()
}

fn dir_linear(rng: &mut Rng) -> Prog {
    let mut b = Pb::new();
    let st = *rng.pick(&ALL_ST);
    let (n, k, m) = (dim(rng), dim(rng), dim(rng));
    match rng.below(3) {
        0 => {
            // Matmul: rank-1 operands, broadcasting batch dimensions
            let (ba, bb) = batches(rng);
            let sa = if rng.chance(1, 4) { vec![k] } else { [ba, vec![n, k]].concat() };
            let sb = if rng.chance(1, 4) { vec![k] } else { [bb, vec![k, m]].concat() };
            let x = b.input(array_type(sa, st));
            let y = b.input(array_type(sb, st));
            b.add(vec![x, y], Operation::Matmul);
        }
        1 => {
            // Gemm: transposition flags, batch dimension 1
            let (ba, bb) = batches(rng);
            let (ta, tb) = (rng.chance(1, 2), rng.chance(1, 2));
            let sa = [ba, if ta { vec![k, n] } else { vec![n, k] }].concat();
            let sb = [bb, if tb { vec![m, k] } else { vec![k, m] }].concat();
            let x = b.input(array_type(sa, st));
            let y = b.input(array_type(sb, st));
            b.add(vec![x.clone(), y.clone()], Operation::Gemm(ta, tb));
            if rng.chance(1, 3) { b.add(vec![x, y], Operation::Gemm(!ta, tb)); }
        }
        _ => {
            // Dot: scalar / rank-1 / rank-n operands
            let pre = if rng.chance(1, 2) { vec![] } else { rand_shape(rng, 2) };
            let ta = if rng.chance(1, 8) { scalar_type(st) } else { array_type([pre, vec![k]].concat(), st) };
            let tb = match rng.below(4) {
                0 => scalar_type(st),
                1 => array_type(vec![k], st),
                _ => { let pb = if rng.chance(1, 2) { vec![] } else { rand_shape(rng, 2) }; array_type([pb, vec![k, m]].concat(), st) }
            };
            let x = b.input(ta);
            let y = b.input(tb);
            b.add(vec![x, y], Operation::Dot);
        }
    }
    b.finish(rng)
}

/// every pattern of batch dimensions of a Gemm / Matmul pair: equal, missing on one side, size 1 on
/// one side (also with the operand of full rank), crossed size-1 dimensions
fn dir_batch_patterns(rng: &mut Rng, idx: usize) -> Prog {
    let mut b = Pb::new();
    let st = *rng.pick(&ALL_ST);
    let (n, k, m) = (1 + rng.below(2), 2 + rng.below(2), 1 + rng.below(3));
    let (d, e) = (2 + rng.below(2), 2 + rng.below(2));
    let pats: Vec<(Vec<u64>, Vec<u64>)> = vec![
        (vec![1], vec![d]), (vec![d], vec![1]), (vec![d], vec![d]), (vec![], vec![d]), (vec![d], vec![]),
        (vec![d, 1], vec![1, e]), (vec![1, e], vec![d, 1]), (vec![1, 1], vec![d, e]), (vec![d, e], vec![1, 1]),
        (vec![d, 1], vec![d, e]), (vec![1, e], vec![d, e]), (vec![d, e], vec![e]), (vec![1], vec![d, e]), (vec![d, 1], vec![e]),
    ];
    let (ba, bb) = pats[idx % pats.len()].clone();
    let gemm = (idx / pats.len()) % 2 == 0;
    let (ta, tb) = if gemm { (rng.chance(1, 2), rng.chance(1, 2)) } else { (false, false) };
    let sa = [ba, if ta { vec![k, n] } else { vec![n, k] }].concat();
    let sb = [bb, if tb { vec![m, k] } else { vec![k, m] }].concat();
    let x = b.input(array_type(sa, st));
    let y = b.input(array_type(sb, st));
    b.add(vec![x, y], if gemm { Operation::Gemm(ta, tb) } else { Operation::Matmul });
    b.finish(rng)
}

/// a node rejected by the context-wide size accounting (two legal but huge inputs in one context),
/// after which the same graph goes on being built: the nodes added afterwards must be typed by
/// their own operations (the rejected node's id is reused)
fn dir_after_size_rejection(rng: &mut Rng) -> Prog {
    let mut b = Pb::new();
    let st = *rng.pick(&[UINT64, INT64, UINT32]);
    let huge = array_type(vec![1u64 << 57], UINT64);
    // a sibling graph of the same context holds the first huge input and is never evaluated
    let sib = b.p.ctx.create_graph().unwrap();
    let hi = sib.input(huge.clone()).unwrap();
    sib.set_output_node(hi).unwrap();
    sib.finalize().unwrap();
    // rejected: the total size of the context's inputs would exceed the limit (not logged as an
    // attempt: the typing model has no size accounting)
    let r = b.p.g.input(huge);
    if r.is_ok() { return b.finish(rng); }
    let n = 2 + rng.below(4);
    let x = b.input(array_type(vec![n], st));
    let y = b.input(array_type(vec![n, 2], st));
    b.add(vec![x.clone()], Operation::Sum(vec![0]));
    b.add(vec![y, x.clone()], Operation::Matmul);
    b.add(vec![x.clone(), x], Operation::Add);
    b.finish(rng)
}

fn dir_broadcast(rng: &mut Rng) -> Prog {
    let mut b = Pb::new();
    let st = *rng.pick(&ALL_ST);
    let common = rand_shape(rng, 4);
    let (s0, s1) = (bshape(&common, rng), bshape(&common, rng));
    let x = b.input(arr_or_scalar(&s0, st));
    let op = match rng.below(4) { 0 => Operation::Add, 1 => Operation::Subtract, 2 => Operation::Multiply, _ => Operation::MixedMultiply };
    let st1 = if matches!(op, Operation::MixedMultiply) { BIT } else { st };
    let y = b.input(arr_or_scalar(&s1, st1));
    let r = b.add(vec![x.clone(), y.clone()], op);
    if let Some(r) = r {
        if rng.chance(1, 2) && r.get_type().unwrap().get_scalar_type() == st {
            b.add(vec![r, x], Operation::Subtract);
        }
    }
    b.finish(rng)
}

fn rand_slice(sh: &[u64], rng: &mut Rng) -> Vec<SliceElement> {
    let k = rng.below(sh.len() as u64 + 1) as usize;
    let mut sl = vec![];
    let mut ell = false;
    for i in 0..k {
        let d = sh[i] as i64;
        sl.push(match rng.below(6) {
            0 => SliceElement::SingleIndex(rng.range(-d, d - 1)),
            1 => SliceElement::SubArray(None, None, Some(*rng.pick(&[-1i64, -2, -3, 1, 2]))),
            2 => SliceElement::SubArray(Some(rng.range(-d, d - 1)), None, Some(*rng.pick(&[-1i64, 1, -2]))),
            3 => SliceElement::SubArray(None, Some(rng.range(-d - 1, d)), Some(*rng.pick(&[-1i64, 1, 2]))),
            4 => SliceElement::SubArray(Some(rng.range(-d, d - 1)), Some(rng.range(-d - 1, d)), Some(*rng.pick(&[-2i64, -1, 1, 2, 3]))),
            _ => if !ell { ell = true; SliceElement::Ellipsis } else { SliceElement::SubArray(None, None, None) },
        });
    }
    sl
}

fn dir_struct(rng: &mut Rng) -> Prog {
    let mut b = Pb::new();
    let st = *rng.pick(&ALL_ST);
    let sh = rand_shape(rng, 4);
    let r = sh.len() as u64;
    let x = b.input(array_type(sh.clone(), st));
    match rng.below(12) {
        0 => {
            // Sum over every subset shape: empty axes, all axes, permuted order
            let mut axes: Vec<u64> = match rng.below(4) { 0 => vec![], 1 => (0..r).collect(), _ => (0..r).filter(|_| rng.chance(1, 2)).collect() };
            if rng.chance(1, 3) { rng.shuffle(&mut axes); }
            let s = b.add(vec![x.clone()], Operation::Sum(axes));
            if let Some(s) = s { if rng.chance(1, 2) { b.add(vec![x, s], Operation::Add); } }
        }
        1 => { b.add(vec![x], Operation::CumSum(rng.below(r))); }
        2 => {
            let mut p: Vec<u64> = (0..r).collect();
            rng.shuffle(&mut p);
            let y = b.add(vec![x], Operation::PermuteAxes(p));
            if let Some(y) = y { let s2 = y.get_type().unwrap().get_shape(); let sl = rand_slice(&s2, rng); b.add(vec![y], Operation::GetSlice(sl)); }
        }
        3 => { let sl = rand_slice(&sh, rng); b.add(vec![x], Operation::GetSlice(sl)); }
        4 => {
            let k = 1 + rng.below(r) as usize;
            let idx: Vec<u64> = (0..k).map(|i| rng.below(sh[i])).collect();
            b.add(vec![x], Operation::Get(idx));
        }
        5 => {
            // Stack of operands of different (broadcastable) shapes, scalars included
            let k = 1 + rng.below(4) as usize;
            let mut deps = vec![x];
            for _ in 1..k { let s = bshape(&sh, rng); deps.push(b.input(arr_or_scalar(&s, st))); }
            let outer = if k == 4 && rng.chance(1, 2) { vec![2, 2] } else if k == 2 && rng.chance(1, 3) { vec![1, 2] } else { vec![k as u64] };
            b.add(deps, Operation::Stack(outer));
        }
        6 => {
            // Concatenate along an axis, other dimensions equal
            let axis = rng.below(r);
            let k = 2 + rng.below(2) as usize;
            let mut deps = vec![x];
            for _ in 1..k { let mut s = sh.clone(); s[axis as usize] = dim(rng); deps.push(b.input(array_type(s, st))); }
            b.add(deps, Operation::Concatenate(axis));
        }
        7 => {
            // Reshape between composite types
            let n: u64 = sh.iter().product();
            let y = b.input(scalar_type(st));
            let t = b.add(vec![x.clone(), y.clone()], Operation::CreateTuple).unwrap();
            let mut cands: Vec<Vec<u64>> = vec![vec![n], vec![1, n], vec![n, 1]];
            for d in 2..n { if n % d == 0 { cands.push(vec![d, n / d]); } }
            let s2 = rng.pick(&cands).clone();
            let nt = match rng.below(3) {
                0 => tuple_type(vec![array_type(s2, st), array_type(vec![1], st)]),
                1 => named_tuple_type(vec![("a".into(), array_type(s2, st)), ("b".into(), scalar_type(st))]),
                _ => tuple_type(vec![array_type(s2, st), scalar_type(st)]),
            };
            b.add(vec![t], Operation::Reshape(nt));
            if n == 1 { b.add(vec![x.clone()], Operation::Reshape(scalar_type(st))); }
            let v = b.add(vec![y], Operation::Repeat(n)).unwrap();
            b.add(vec![v.clone()], Operation::Reshape(tuple_type((0..n).map(|_| scalar_type(st)).collect())));
            b.add(vec![v], Operation::VectorToArray);
        }
        8 => {
            // Gather with a rank-2 index array
            let axis = rng.below(r);
            let d = sh[axis as usize];
            let ish: Vec<u64> = if d >= 2 && rng.chance(1, 2) { vec![1, d.min(2)] } else { vec![1 + rng.below(d)] };
            let cnt: u64 = ish.iter().product();
            let ist = *rng.pick(&[UINT8, UINT16, UINT32, UINT64]);
            let mut idx: Vec<u64> = (0..d).collect();
            rng.shuffle(&mut idx);
            idx.truncate(cnt as usize);
            if rng.chance(1, 10) { idx[0] = d + rng.below(2); }
            let it = array_type(ish, ist);
            let iv = Value::from_flattened_array(&idx, ist).unwrap();
            let i = b.add(vec![], Operation::Constant(it, iv)).unwrap();
            b.add(vec![x, i], Operation::Gather(axis));
        }
        9 => {
            // ArrayToVector / VectorGet (u32 and u64 index) / Zip / VectorToArray
            let x2 = x.clone();
            let v = b.add(vec![x.clone()], Operation::ArrayToVector).unwrap();
            let ist = if rng.chance(1, 2) { UINT32 } else { UINT64 };
            let i = b.add(vec![], Operation::Constant(scalar_type(ist), Value::from_scalar(rng.below(sh[0] + 1), ist).unwrap())).unwrap();
            b.add(vec![v.clone(), i], Operation::VectorGet);
            let w = b.add(vec![x], Operation::ArrayToVector).unwrap();
            let z = b.add(vec![v.clone(), w], Operation::Zip);
            if let Some(z) = z { b.add(vec![z], Operation::Repeat(rng.below(3))); }
            let nt = b.add(vec![x2.clone(), v.clone()], Operation::CreateNamedTuple(vec!["a".into(), "b".into()]));
            if let Some(nt) = nt {
                b.add(vec![nt.clone()], Operation::NamedTupleGet(if rng.chance(1, 2) { "a".into() } else { "b".into() }));
                b.add(vec![nt], Operation::TupleGet(rng.below(2)));
            }
            b.add(vec![v], Operation::VectorToArray);
        }
        10 => {
            // SegmentCumSum, A2B / B2A round trip
            let bt = array_type(vec![sh[0]], BIT);
            let bn = b.constant(bt, rng);
            let ft = arr_or_scalar(&sh[1..], st);
            let f = b.constant(ft, rng);
            b.add(vec![x.clone(), bn, f], Operation::SegmentCumSum);
            if st != BIT {
                let bits = b.add(vec![x], Operation::A2B).unwrap();
                let other = *rng.pick(&ALL_ST);
                b.add(vec![bits.clone()], Operation::B2A(if rng.chance(2, 3) { st } else { other }));
                b.add(vec![bits], Operation::Sum(vec![r]));
            }
        }
        _ => {
            // permutation operations, Assert / Print and the randomised index operations
            let n = sh[0];
            let p = b.add(vec![], Operation::RandomPermutation(n)).unwrap();
            b.add(vec![x.clone(), p.clone()], Operation::ApplyPermutation(rng.chance(1, 2)));
            let ip = b.add(vec![p.clone()], Operation::InversePermutation).unwrap();
            b.add(vec![ip.clone()], Operation::CuckooToPermutation);
            b.add(vec![ip], Operation::DecomposeSwitchingMap(n + rng.below(2)));
            let c = b.add(vec![], Operation::Constant(scalar_type(BIT), Value::from_scalar(if rng.chance(4, 5) { 1 } else { 0 }, BIT).unwrap())).unwrap();
            let a = b.add(vec![c, x.clone()], Operation::Assert("c09".into()));
            b.add(vec![a.unwrap_or(x)], Operation::Print("c09".into()));
            let key = b.add(vec![], Operation::Random(array_type(vec![128], BIT))).unwrap();
            b.add(vec![key.clone()], Operation::PRF(rng.below(3), array_type(rand_shape(rng, 3), st)));
            b.add(vec![key], Operation::PermutationFromPRF(rng.below(3), 1 + rng.below(6)));
        }
    }
    b.finish(rng)
}

// ------------------------------------------------------------------------------- malformed stream
fn other_st(st: ScalarType, rng: &mut Rng) -> ScalarType {
    loop { let s = *rng.pick(&ALL_ST); if s != st { return s; } }
}
fn perturb_type(t: &Type, rng: &mut Rng) -> Type {
    let leaf = t.is_array() || t.is_scalar();
    match rng.below(7) {
        0 if leaf => { let st = other_st(t.get_scalar_type(), rng); if t.is_array() { array_type(t.get_shape(), st) } else { scalar_type(st) } }
        1 if t.is_array() => { let mut s = t.get_shape(); let i = rng.below(s.len() as u64) as usize; s[i] += 1 + rng.below(2); array_type(s, t.get_scalar_type()) }
        2 => tuple_type(vec![t.clone()]),
        3 if t.is_array() => { let mut s = t.get_shape(); if s.len() > 1 && rng.chance(1, 2) { s.pop(); } else { s.insert(0, 1 + rng.below(2)); } array_type(s, t.get_scalar_type()) }
        4 => vector_type(rng.below(3), t.clone()),
        5 if t.is_array() => scalar_type(t.get_scalar_type()),
        5 if t.is_scalar() => array_type(vec![1 + rng.below(3)], t.get_scalar_type()),
        _ => named_tuple_type(vec![("f0".into(), t.clone())]),
    }
}

/// One perturbed variant of an accepted attempt: a changed argument type, arity, argument order or
/// operation parameter.
fn perturb(a: &Attempt, rng: &mut Rng) -> Option<Att> {
    let mut op = a.op.clone();
    let mut dts = a.dep_types.clone();
    let mut const_ty = None;
    let generic = |dts: &mut Vec<Type>, rng: &mut Rng| {
        match rng.below(5) {
            0 if !dts.is_empty() => { dts.pop(); }
            1 => { let t = if dts.is_empty() || rng.chance(1, 2) { scalar_type(UINT64) } else { rng.pick(dts).clone() }; dts.push(t); }
            2 if dts.len() >= 2 => { dts.reverse(); }
            _ if !dts.is_empty() => { let i = rng.below(dts.len() as u64) as usize; dts[i] = perturb_type(&dts[i], rng); }
            _ => { dts.push(scalar_type(BIT)); }
        }
    };
    let rank = |t: &Type| if t.is_array() { t.get_shape().len() as u64 } else { 0 };
    if rng.chance(1, 2) {
        generic(&mut dts, rng);
    } else {
        match &a.op {
            Operation::Input(t) | Operation::Zeros(t) | Operation::Ones(t) | Operation::Random(t) => {
                let bad = match rng.below(5) {
                    0 => Type::Array(vec![], BIT),
                    1 => Type::Array(vec![2, 0], UINT8),
                    2 => named_tuple_type(vec![("a".into(), t.clone()), ("a".into(), scalar_type(BIT))]),
                    3 => tuple_type(vec![t.clone(), Type::Array(vec![0], INT32)]),
                    _ => vector_type(2, Type::Array(vec![1u64 << 40, 1u64 << 40], BIT)),
                };
                op = match &a.op { Operation::Input(_) => Operation::Input(bad), Operation::Zeros(_) => Operation::Zeros(bad), Operation::Ones(_) => Operation::Ones(bad), _ => Operation::Random(bad) };
            }
            Operation::Truncate(_) => { op = Operation::Truncate(*rng.pick(&[0u128, 1u128 << 127, u128::MAX, (1u128 << 127) - 1])); }
            Operation::Sum(ax) => {
                let r = rank(&dts[0]);
                let mut ax = ax.clone();
                match rng.below(3) { 0 => ax.push(r + rng.below(2)), 1 => { let d = if ax.is_empty() { 0 } else { ax[0] }; ax.push(d); ax.push(d); } _ => ax.insert(0, u64::MAX) }
                op = Operation::Sum(ax);
            }
            Operation::CumSum(_) => { op = Operation::CumSum(rank(&dts[0]) + rng.below(2)); }
            Operation::PermuteAxes(p) => {
                let mut p = p.clone();
                match rng.below(4) { 0 if !p.is_empty() => { p.pop(); } 1 if !p.is_empty() => { p[0] = p[p.len() - 1]; } 2 => { p.push(p.len() as u64); } _ => { if !p.is_empty() { p[0] = p.len() as u64; } } }
                op = Operation::PermuteAxes(p);
            }
            Operation::Get(ix) => {
                let sh = dts[0].get_shape();
                let mut ix = ix.clone();
                match rng.below(3) { 0 => { ix[0] = sh[0] + rng.below(2); } 1 => { while ix.len() <= sh.len() { ix.push(0); } } _ => { ix.clear(); } }
                op = Operation::Get(ix);
            }
            Operation::GetSlice(sl) => {
                let sh = dts[0].get_shape();
                let mut sl = sl.clone();
                match rng.below(6) {
                    0 => { sl.push(SliceElement::Ellipsis); sl.insert(0, SliceElement::Ellipsis); }
                    1 => { sl.insert(0, SliceElement::SubArray(None, None, Some(0))); }
                    2 => { while sl.len() <= sh.len() { sl.push(SliceElement::SubArray(None, None, None)); } }
                    3 => { sl.insert(0, SliceElement::SingleIndex(if rng.chance(1, 2) { sh[0] as i64 } else { -(sh[0] as i64) - 1 })); }
                    4 => { let b = rng.range(0, sh[0] as i64); sl.insert(0, SliceElement::SubArray(Some(b), Some(b), Some(*rng.pick(&[1i64, -1])))); }
                    _ => { sl.insert(0, SliceElement::SubArray(Some(sh[0] as i64 + rng.range(0, 2)), None, Some(*rng.pick(&[1i64, -1, 2])))); }
                }
                op = Operation::GetSlice(sl);
            }
            Operation::Reshape(t) => {
                let nt = match rng.below(5) {
                    0 if t.is_array() => { let mut s = t.get_shape(); s[0] += 1; array_type(s, t.get_scalar_type()) }
                    1 if t.is_array() => array_type(t.get_shape(), other_st(t.get_scalar_type(), rng)),
                    2 if t.is_array() => { let mut s = t.get_shape(); s.push(0); Type::Array(s, t.get_scalar_type()) }
                    3 => tuple_type(vec![t.clone(), t.clone()]),
                    _ => named_tuple_type(vec![("x".into(), t.clone())]),
                };
                op = Operation::Reshape(nt);
            }
            Operation::Stack(o) => {
                let k: u64 = o.iter().product();
                op = Operation::Stack(match rng.below(4) { 0 => vec![k + 1], 1 => vec![], 2 => vec![k, 0], _ => vec![1, k, 1] });
            }
            Operation::Concatenate(_) => { op = Operation::Concatenate(rank(&dts[0]) + rng.below(2)); }
            Operation::Constant(t, v) => {
                // declared type with another element count (same scalar type), or another structure
                let nt = match rng.below(4) {
                    0 if t.is_array() => { let mut s = t.get_shape(); s[0] += if t.get_scalar_type() == BIT { 8 } else { 1 }; array_type(s, t.get_scalar_type()) }
                    1 if t.is_scalar() && t.get_scalar_type() != BIT => array_type(vec![2], t.get_scalar_type()),
                    2 => tuple_type(vec![t.clone()]),
                    _ => vector_type(2, t.clone()),
                };
                const_ty = Some(t.clone());
                op = Operation::Constant(nt, v.clone());
            }
            Operation::B2A(st) => { op = Operation::B2A(if rng.chance(1, 3) { BIT } else { other_st(*st, rng) }); }
            Operation::CreateNamedTuple(names) => {
                let mut n = names.clone();
                match rng.below(3) { 0 if n.len() > 1 => { n[1] = n[0].clone(); } 1 => { n.pop(); } _ => { n.push("extra".into()); } }
                op = Operation::CreateNamedTuple(n);
            }
            Operation::CreateVector(t) => { op = Operation::CreateVector(perturb_type(t, rng)); }
            Operation::TupleGet(_) => { let k = match &dts[0] { Type::Tuple(ts) => ts.len() as u64, Type::NamedTuple(ts) => ts.len() as u64, _ => 0 }; op = Operation::TupleGet(k + rng.below(2)); }
            Operation::NamedTupleGet(_) => { op = Operation::NamedTupleGet(rng.pick(&["zz", "", "F0"]).to_string()); }
            Operation::VectorGet => { dts[1] = match rng.below(4) { 0 => scalar_type(INT64), 1 => scalar_type(UINT8), 2 => array_type(vec![1], UINT64), _ => scalar_type(UINT128) }; }
            Operation::Zip => { let i = rng.below(dts.len() as u64) as usize; if let Type::Vector(n, et) = dts[i].clone() { dts[i] = Type::Vector(n + 1, et); } }
            Operation::Gather(ax) => {
                let sh = dts[0].get_shape();
                match rng.below(4) {
                    0 => { op = Operation::Gather(sh.len() as u64 + rng.below(2)); }
                    1 => { dts[1] = array_type(dts[1].get_shape(), *rng.pick(&[INT32, UINT128, BIT, INT128, INT8])); }
                    2 => { dts[1] = array_type(vec![sh[*ax as usize] + 1], UINT64); }
                    _ => { dts[1] = scalar_type(UINT64); }
                }
            }
            Operation::ApplyPermutation(_) => {
                let n = dts[0].get_shape()[0];
                dts[1] = match rng.below(4) { 0 => array_type(vec![n + 1], UINT64), 1 => array_type(vec![n], *rng.pick(&[INT64, UINT128, BIT])), 2 => array_type(vec![n, 1], UINT64), _ => scalar_type(UINT64) };
            }
            Operation::InversePermutation => { dts[0] = match rng.below(3) { 0 => array_type(vec![2, 2], UINT64), 1 => array_type(vec![3], *rng.pick(&[INT32, UINT128, BIT, INT128])), _ => scalar_type(UINT32) }; }
            Operation::SegmentCumSum => {
                let sh = dts[0].get_shape();
                match rng.below(4) {
                    0 => { dts[1] = array_type(vec![sh[0] + 1], BIT); }
                    1 => { dts[1] = array_type(vec![sh[0]], UINT8); }
                    2 => { dts[2] = perturb_type(&dts[2], rng); }
                    _ => { dts[1] = array_type(vec![sh[0], 1], BIT); }
                }
            }
            Operation::PRF(iv, t) => { if rng.chance(1, 2) { dts[0] = rng.pick(&[array_type(vec![127], BIT), array_type(vec![16], UINT8), array_type(vec![1, 128], BIT), scalar_type(UINT128)]).clone(); } else { op = Operation::PRF(*iv, Type::Array(vec![0], t.get_scalar_type())); } }
            Operation::PermutationFromPRF(iv, _) => { op = Operation::PermutationFromPRF(*iv, *rng.pick(&[0u64, (1 << 30) + 1, 1 << 30, u64::MAX])); }
            Operation::RandomPermutation(_) => { op = Operation::RandomPermutation(0); }
            Operation::DecomposeSwitchingMap(_) => { op = Operation::DecomposeSwitchingMap(dts[0].get_shape()[0] - 1); }
            Operation::Assert(_) => { dts[0] = rng.pick(&[scalar_type(UINT8), array_type(vec![1], BIT), tuple_type(vec![])]).clone(); }
            _ => generic(&mut dts, rng),
        }
    }
    // every perturbed dependency type must itself be a valid node type
    if dts.iter().any(|t| !t.is_valid()) {
        return None;
    }
    let a2 = attempt(&op, &dts)?;
    Some(Att { a: a2, const_ty, origin: "malformed" })
}

/// hand-written boundary attempts: huge dimensions (overflow paths), degenerate arities
fn boundary_attempts() -> Vec<(Operation, Vec<Type>)> {
    let big = array_type(vec![1u64 << 62], BIT);
    let big2 = array_type(vec![1u64 << 32, 1u64 << 30], UINT8);
    vec![
        (Operation::A2B, vec![array_type(vec![1u64 << 60], UINT64)]),
        (Operation::A2B, vec![big2.clone()]),
        (Operation::Stack(vec![1u64 << 32, 1u64 << 32]), vec![scalar_type(BIT)]),
        (Operation::Stack(vec![4]), vec![big.clone(), big.clone(), big.clone(), big.clone()]),
        (Operation::Concatenate(0), vec![big.clone(), big.clone()]),
        (Operation::Concatenate(0), vec![array_type(vec![1u64 << 63], BIT), array_type(vec![1u64 << 63], BIT)]),
        (Operation::Concatenate(0), vec![array_type(vec![(1u64 << 63) + 1], BIT), array_type(vec![1u64 << 63], BIT)]),
        (Operation::VectorToArray, vec![vector_type(1u64 << 40, array_type(vec![1u64 << 30], BIT))]),
        (Operation::Reshape(array_type(vec![1u64 << 30, 1u64 << 32], BIT)), vec![big.clone()]),
        (Operation::Zip, vec![]),
        (Operation::Zip, vec![vector_type(2, scalar_type(BIT))]),
        (Operation::Zip, vec![vector_type(0, scalar_type(BIT)), vector_type(0, tuple_type(vec![]))]),
        (Operation::CreateTuple, vec![]),
        (Operation::CreateNamedTuple(vec![]), vec![]),
        (Operation::CreateVector(Type::Array(vec![0], BIT)), vec![]),
        (Operation::CreateVector(tuple_type(vec![])), vec![]),
        (Operation::Concatenate(0), vec![]),
        (Operation::Concatenate(0), vec![array_type(vec![2], BIT)]),
        (Operation::Stack(vec![1]), vec![]),
        (Operation::Stack(vec![1]), vec![tuple_type(vec![])]),
        (Operation::Repeat(0), vec![tuple_type(vec![])]),
        (Operation::VectorToArray, vec![vector_type(0, scalar_type(BIT))]),
        (Operation::VectorToArray, vec![vector_type(2, tuple_type(vec![]))]),
        (Operation::Reshape(tuple_type(vec![])), vec![vector_type(0, scalar_type(INT8))]),
        (Operation::Reshape(vector_type(0, array_type(vec![7], INT8))), vec![tuple_type(vec![])]),
        (Operation::Reshape(vector_type(2, scalar_type(INT8))), vec![array_type(vec![2], INT8)]),
        (Operation::Reshape(scalar_type(INT8)), vec![array_type(vec![1, 1], INT8)]),
        (Operation::Reshape(array_type(vec![1], INT8)), vec![scalar_type(INT8)]),
        (Operation::Reshape(scalar_type(UINT8)), vec![scalar_type(INT8)]),
        (Operation::TupleGet(0), vec![named_tuple_type(vec![("a".into(), scalar_type(BIT))])]),
        (Operation::Truncate(1u128 << 127), vec![scalar_type(UINT128)]),
        (Operation::Truncate(1u128 << 127), vec![scalar_type(INT128)]),
        (Operation::Truncate(3), vec![tuple_type(vec![])]),
        (Operation::Sum(vec![]), vec![scalar_type(INT8)]),
        (Operation::Dot, vec![scalar_type(INT8), scalar_type(INT8)]),
        (Operation::Matmul, vec![scalar_type(INT8), array_type(vec![2], INT8)]),
        (Operation::Gemm(false, false), vec![array_type(vec![2], INT8), array_type(vec![2, 2], INT8)]),
        (Operation::MixedMultiply, vec![scalar_type(BIT), scalar_type(BIT)]),
        (Operation::MixedMultiply, vec![scalar_type(INT8), scalar_type(INT8)]),
        (Operation::SegmentCumSum, vec![array_type(vec![u64::MAX - 1], BIT), array_type(vec![u64::MAX - 1], BIT), scalar_type(BIT)]),
    ]
}

// ------------------------------------------------------------------------------- monitor
fn short(s: String) -> String {
    if s.len() > 600 { format!("{}...", &s[..600]) } else { s }
}

/// The property itself, on the real evaluator: every node value has the node's inferred type and
/// no evaluate_node call panics.  Returns the node values of the last draw.
fn monitor(p: &Prog, rng: &mut Rng, out: &mut Out, draws: usize, emit_has_type: bool, em: &mut Emitter) {
    let nodes = p.g.get_nodes();
    for _ in 0..draws {
        let inputs: Vec<Value> = p.input_types.iter().map(|t| gen_value(t, rng)).collect();
        let mut seed = [0u8; 16];
        for b in seed.iter_mut() { *b = rng.next() as u8; }
        let vals = eval_all(&p.g, &inputs, seed);
        out.stat("monitor_runs");
        // the whole-graph evaluation (its own scheduling and freeing of intermediate values): no
        // panic, and where every node evaluates, the output node's value, of the output's type
        if p.g.get_output_node().is_ok() {
            let oid = p.g.get_output_node().unwrap().get_id() as usize;
            let (g2, in2) = (p.g.clone(), inputs.clone());
            let whole = observe(move || ciphercore_base::evaluators::evaluate_simple_evaluator(g2, in2, Some(seed)));
            let desc = || json!({"ops": nodes.iter().map(|n| op_name(&n.get_operation())).collect::<Vec<_>>(), "output_node": oid, "readers_of_output": nodes.iter().filter(|n| n.get_node_dependencies().iter().any(|d| d.get_id() as usize == oid)).count()});
            out.stat(&format!("whole_graph_eval:{}", whole.tag()));
            match (&whole, vals.iter().all(|v| matches!(v, Outcome::Ok(_)))) {
                (Outcome::Panic, _) => out.violation("evaluate-graph-panics", desc(), "evaluate_graph panicked on a graph the builder accepted".into()),
                (Outcome::Ok(w), true) => {
                    let same = matches!(&vals[oid], Outcome::Ok(v) if v == w);
                    let typed = w.check_type(p.g.get_output_node().unwrap().get_type().unwrap()).unwrap_or(false);
                    if !same || !typed { out.violation("evaluate-graph-output-differs", desc(), format!("whole-graph result equals the output node's value: {}, has the output type: {}", same, typed)); } else { out.oracle_ok(); }
                }
                (Outcome::Err, true) => out.violation("evaluate-graph-fails", desc(), "evaluate_graph returns an error although every node evaluates".into()),
                _ => out.oracle_ok(),
            }
        }
        for (n, v) in nodes.iter().zip(vals.iter()) {
            let op = n.get_operation();
            let name = op_name(&op);
            let t = n.get_type().unwrap();
            let deps = n.get_node_dependencies();
            let dep_failed = deps.iter().any(|d| !matches!(vals[d.get_id() as usize], Outcome::Ok(_)));
            if dep_failed { out.stat("monitor_node:skipped_after_runtime_error"); continue; }
            let describe = || {
                json!({
                    "op": short(format!("{:?}", op)),
                    "dep_types": deps.iter().map(|d| format!("{}", d.get_type().unwrap())).collect::<Vec<_>>(),
                    "node_type": format!("{}", t),
                    "dep_values": deps.iter().map(|d| match &vals[d.get_id() as usize] { Outcome::Ok(v) => short(value_coq(v, &d.get_type().unwrap())), _ => "-".into() }).collect::<Vec<_>>(),
                })
            };
            match v {
                Outcome::Ok(val) => {
                    let t2 = t.clone();
                    let val2 = val.clone();
                    match observe(move || val2.check_type(t2)) {
                        Outcome::Ok(true) => { out.oracle_ok(); out.stat(&format!("monitor_node:{}:typed", name)); }
                        other => {
                            out.violation(&format!("node-value-type-mismatch:{}", name), describe(), format!("check_type(node type) = {} for the value evaluate_node returned", match other { Outcome::Ok(b) => format!("Ok({})", b), Outcome::Err => "Err".into(), Outcome::Panic => "Panic".into() }));
                        }
                    }
                    if emit_has_type && !matches!(op, Operation::Input(_)) {
                        let lhs = format!("has_type {} {}", value_coq(val, &t), ty(&t));
                        if lhs.len() < 4000 && em.seen.insert(lhs.clone()) {
                            out.case("T:has_type_node_value", lhs, "true".into(), json!({"op": name, "type": format!("{}", t)}), !deps.is_empty());
                        }
                    }
                }
                Outcome::Panic => {
                    out.violation(&format!("evaluate-node-panics:{}", name), describe(), "SimpleEvaluator::evaluate_node panicked on a node the builder accepted".into());
                }
                Outcome::Err => { out.oracle_ok(); out.stat(&format!("monitor_node:{}:runtime_error", name)); }
            }
        }
    }
}

// ------------------------------------------------------------------------------- driver
const C09_OPS: [&str; 38] = [
    "add", "sub", "mul", "mixed", "dot", "matmul", "gemm", "truncate", "sum", "cumsum", "permute",
    "get", "getslice", "reshape", "nop", "stack", "concat", "constant", "zeros", "ones", "a2b", "b2a",
    "tuple", "named", "vector", "tupleget", "namedget", "vectorget", "zip", "repeat", "a2v", "v2a",
    "gather", "invperm", "applyperm", "segcumsum", "random", "prf",
];

pub fn run(tier: &str, seed: u64, out: &mut Out) {
    let mut rng = Rng::new(seed ^ 0xC09);
    let (n_single, n_multi, n_dir, draws, per_att) = match tier {
        "thorough" => (1900, 500, 2400, 3, 3),
        "search" => (3000, 1500, 6000, 4, 0),
        _ => (152, 30, 160, 2, 1),
    };
    let cases = tier != "search";
    let mut em = Emitter { seen: HashSet::new(), accepted: vec![] };
    let mut progs: Vec<(Prog, &'static str)> = vec![];
    // one-operation-family programs over every scalar type, ranks up to 4
    for i in 0..n_single {
        // every operation family appears in every tier; the scalar type rotates against it
        let opn = C09_OPS[i % C09_OPS.len()];
        let st = ALL_ST[(i / C09_OPS.len() + i) % ALL_ST.len()];
        let cfg = GenCfg { n_inputs: 1 + rng.below(3) as usize, n_ops: 1 + rng.below(3) as usize, scalar_types: vec![st, st, st, BIT], ops: vec![opn], small: rng.chance(1, 2) };
        progs.push((gen_program(&mut rng, &cfg), "progen"));
        out.stat(&format!("st:{}", scalar(st)));
    }
    // compositions
    for _ in 0..n_multi {
        let st = *rng.pick(&ALL_ST);
        let cfg = GenCfg { n_inputs: 1 + rng.below(3) as usize, n_ops: 3 + rng.below(8) as usize, scalar_types: vec![st, st, BIT, *rng.pick(&ALL_ST)], ops: C09_OPS.to_vec(), small: rng.chance(2, 3) };
        progs.push((gen_program(&mut rng, &cfg), "progen"));
    }
    // directed programs: compatible shapes for the linear-algebra and broadcasting operations
    for i in 0..n_dir {
        let p = match i % 4 { 0 => dir_linear(&mut rng), 1 => dir_broadcast(&mut rng), _ => dir_struct(&mut rng) };
        progs.push((p, "directed"));
    }
    for _ in 0..(if tier == "quick" { 2 } else { 8 }) {
        progs.push((dir_after_size_rejection(&mut rng), "directed"));
    }
    let n_pat = match tier { "thorough" => 28 * 6, "search" => 28 * 12, _ => 28 };
    for i in 0..n_pat {
        progs.push((dir_batch_patterns(&mut rng, i), "directed"));
    }
    for (p, origin) in progs.iter() {
        if cases {
            for a in p.attempts.iter() {
                em.emit(out, &Att { a: a.clone(), const_ty: None, origin });
            }
            // progen adds its inputs through Graph::input without logging them
            if *origin == "progen" {
                for t in p.input_types.iter() {
                    em.emit(out, &Att { a: Attempt { op: Operation::Input(t.clone()), dep_types: vec![], result: Outcome::Ok(t.clone()) }, const_ty: None, origin });
                }
            }
        }
        let emit_ht = cases && rng.chance(1, if tier == "quick" { 6 } else { 3 });
        monitor(p, &mut rng, out, draws, emit_ht, &mut em);
    }
    if cases {
        // malformed stream
        let accepted = em.accepted.clone();
        for a in accepted.iter() {
            for _ in 0..per_att {
                if let Some(att) = perturb(a, &mut rng) {
                    em.emit(out, &att);
                }
            }
        }
        for (op, dts) in boundary_attempts() {
            match attempt(&op, &dts) {
                Some(a) => em.emit(out, &Att { a, const_ty: None, origin: "boundary" }),
                None => out.stat("boundary_attempt_inputs_rejected"),
            }
        }
    }
}

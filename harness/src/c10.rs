//! C10 — primitive operations follow their documented NumPy-style modular semantics.
//! The evaluator correspondence: Graph/Eval.v's eval_node vs SimpleEvaluator::evaluate_node on
//! generated graphs, node by node (every intermediate value compared).
use crate::coqfmt::*;
use crate::export::*;
use crate::gen::*;
use crate::out::Out;
use crate::progen::*;
use crate::rng::Rng;
use ciphercore_base::data_types::*;
use ciphercore_base::data_values::Value;
use ciphercore_base::graphs::Operation;
use serde_json::json;

pub const HEADER: &str = "From CC Require Import Base.Prelude Base.Scalar Base.Ty Base.Shape Graph.Value Graph.IR Graph.Eval.";

pub fn emit_eval_case(p: &Prog, rng: &mut Rng, out: &mut Out, kind: &str) {
    let inputs: Vec<Value> = p.input_types.iter().map(|t| gen_value(t, rng)).collect();
    let mut seed = [0u8; 16];
    for b in seed.iter_mut() { *b = rng.next() as u8; }
    let vals = eval_all(&p.g, &inputs, seed);
    let nodes = p.g.get_nodes();
    let mut ops = vec![];
    for n in nodes.iter() {
        let name = op_name(&n.get_operation());
        out.stat(&format!("op:{}", name));
        ops.push(name);
    }
    let tag = vals.iter().map(|v| v.tag()).find(|t| *t != "Ok").unwrap_or("Ok");
    out.stat(&format!("eval:{}", tag));
    let big = nodes.iter().any(|n| { let t = n.get_type().unwrap(); (t.is_array() || t.is_scalar()) && t.get_scalar_type().size_in_bits() == 128 });
    if big { out.stat("with_128bit_type"); }
    let lhs = format!("eval_graph_nodes {} {}", nodes_coq(&p.g), tape_coq(&p.g, &vals));
    let rhs = expected_coq(&p.g, &vals);
    out.case(kind, lhs, rhs, json!({"ops": ops, "input_types": p.input_types.iter().map(|t| format!("{}", t)).collect::<Vec<_>>()}), nodes.len() > p.input_types.len() + 1);
    // native oracle for the data-movement operations: every element of the result is an element of
    // an operand (no element may be altered, e.g. truncated to 64 bits)
    for (n, v) in nodes.iter().zip(vals.iter()) {
        let moves = matches!(n.get_operation(), Operation::Stack(_) | Operation::Concatenate(_) | Operation::Get(_) | Operation::GetSlice(_) | Operation::Gather(_) | Operation::PermuteAxes(_) | Operation::Reshape(_) | Operation::ArrayToVector | Operation::VectorToArray | Operation::ApplyPermutation(_));
        if !moves { continue; }
        let flat = |v: &Value, t: &Type| -> Vec<u128> {
            fn go(v: &Value, t: &Type, acc: &mut Vec<u128>) {
                match t {
                    Type::Scalar(st) => { if let Ok(x) = v.to_u128(*st) { acc.push(x); } }
                    Type::Array(_, _) => { if let Ok(xs) = v.to_flattened_array_u128(t.clone()) { acc.extend(xs); } }
                    Type::Vector(_, et) => { if let Ok(vs) = v.to_vector() { for c in vs.iter() { go(c, et, acc); } } }
                    Type::Tuple(ts) => { if let Ok(vs) = v.to_vector() { for (c, t) in vs.iter().zip(ts.iter()) { go(c, t, acc); } } }
                    Type::NamedTuple(fs) => { if let Ok(vs) = v.to_vector() { for (c, (_, t)) in vs.iter().zip(fs.iter()) { go(c, t, acc); } } }
                }
            }
            let mut acc = vec![]; go(v, t, &mut acc); acc
        };
        if let Outcome::Ok(rv) = v {
            let mut pool: std::collections::HashSet<u128> = std::collections::HashSet::new();
            let deps = n.get_node_dependencies();
            // the first operand carries the data (index operands of Gather/ApplyPermutation are not data)
            let data_deps = match n.get_operation() { Operation::Gather(_) | Operation::ApplyPermutation(_) => 1, _ => deps.len() };
            for d in deps.iter().take(data_deps) { if let Outcome::Ok(dv) = &vals[d.get_id() as usize] { for x in flat(dv, &d.get_type().unwrap()) { pool.insert(x); } } }
            let res = flat(rv, &n.get_type().unwrap());
            if let Some(bad) = res.iter().find(|x| !pool.contains(x)) {
                out.violation("structural-op-alters-element", json!({"op": op_name(&n.get_operation()), "type": format!("{}", n.get_type().unwrap()), "ops": ops}), format!("result element {} is not an element of any operand", bad));
            } else { out.oracle_ok(); }
        }
    }
    // native oracle for Sum / CumSum: an independent reference written from the NumPy rules
    // (numpy.sum over a set of axes, in whatever order they are listed; numpy.cumsum along one axis)
    for (n, v) in nodes.iter().zip(vals.iter()) {
        let op = n.get_operation();
        if !matches!(op, Operation::Sum(_) | Operation::CumSum(_)) { continue; }
        let deps = n.get_node_dependencies();
        let (ta, tr) = (deps[0].get_type().unwrap(), n.get_type().unwrap());
        if !ta.is_array() { continue; }
        if let (Outcome::Ok(rv), Outcome::Ok(av)) = (v, &vals[deps[0].get_id() as usize]) {
            let st = ta.get_scalar_type();
            let w = st.size_in_bits();
            let m = |x: u128| if w >= 128 { x } else { x & ((1u128 << w) - 1) };
            let a = av.to_flattened_array_u128(ta.clone()).unwrap();
            let sa = ta.get_shape();
            let got: Vec<u128> = if tr.is_scalar() { vec![m(rv.to_u128(st).unwrap())] } else { rv.to_flattened_array_u128(tr.clone()).unwrap().iter().map(|x| m(*x)).collect() };
            let total: u64 = sa.iter().product();
            let unrank = |mut r: u64| -> Vec<u64> { let mut idx = vec![0u64; sa.len()]; for d in (0..sa.len()).rev() { idx[d] = r % sa[d]; r /= sa[d]; } idx };
            let exp: Vec<u128> = match &op {
                Operation::Sum(axes) => {
                    let keep: Vec<usize> = (0..sa.len()).filter(|d| !axes.contains(&(*d as u64))).collect();
                    let osz: u64 = keep.iter().map(|d| sa[*d]).product();
                    let mut acc = vec![0u128; osz as usize];
                    for r in 0..total {
                        let idx = unrank(r);
                        let mut o = 0u64;
                        for d in keep.iter() { o = o * sa[*d] + idx[*d]; }
                        acc[o as usize] = acc[o as usize].wrapping_add(a[r as usize]);
                    }
                    acc.into_iter().map(m).collect()
                }
                Operation::CumSum(axis) => {
                    let ax = *axis as usize;
                    let stride: u64 = sa[ax + 1..].iter().product();
                    let mut acc = vec![0u128; total as usize];
                    for r in 0..total {
                        let idx = unrank(r);
                        acc[r as usize] = if idx[ax] == 0 { a[r as usize] } else { acc[(r - stride) as usize].wrapping_add(a[r as usize]) };
                    }
                    acc.into_iter().map(m).collect()
                }
                _ => unreachable!(),
            };
            if got != exp { out.violation(&format!("{}-differs-from-numpy-reference", op_name(&op)), json!({"op": format!("{}", op), "a": format!("{}", ta), "ops": ops}), format!("got {:?} expected {:?}", &got[..std::cmp::min(6, got.len())], &exp[..std::cmp::min(6, exp.len())])); } else { out.oracle_ok(); }
        }
    }
    // native oracle for Dot / Matmul: an independent reference written from the NumPy rules
    for (n, v) in nodes.iter().zip(vals.iter()) {
        let op = n.get_operation();
        if !matches!(op, Operation::Dot | Operation::Matmul | Operation::Gemm(_, _)) { continue; }
        let deps = n.get_node_dependencies();
        let (ta, tb, tr) = (deps[0].get_type().unwrap(), deps[1].get_type().unwrap(), n.get_type().unwrap());
        if !ta.is_array() || !tb.is_array() { continue; }
        if let (Outcome::Ok(rv), Outcome::Ok(av), Outcome::Ok(bv)) = (v, &vals[deps[0].get_id() as usize], &vals[deps[1].get_id() as usize]) {
            let st = ta.get_scalar_type();
            let w = st.size_in_bits();
            let m = |x: u128| if w >= 128 { x } else { x & ((1u128 << w) - 1) };
            let (a, b) = (av.to_flattened_array_u128(ta.clone()).unwrap(), bv.to_flattened_array_u128(tb.clone()).unwrap());
            let (sa, sb) = (ta.get_shape(), tb.get_shape());
            let got: Vec<u128> = if tr.is_scalar() { vec![m(rv.to_u128(st).unwrap())] } else { rv.to_flattened_array_u128(tr.clone()).unwrap().iter().map(|x| m(*x)).collect() };
            let strides = |s: &[u64]| -> Vec<u64> { let mut st = vec![1u64; s.len()]; for i in (0..s.len().saturating_sub(1)).rev() { st[i] = st[i + 1] * s[i + 1]; } st };
            let (sta, stb) = (strides(&sa), strides(&sb));
            let k = *sa.last().unwrap();
            let mut exp: Vec<u128> = vec![];
            if matches!(op, Operation::Dot) {
                // dot(a, b)[i.., j.., m] = sum_k a[i.., k] * b[j.., k, m]  (b rank 1: b[k])
                let a_outer: u64 = sa[..sa.len() - 1].iter().product();
                let (b_outer, b_last): (u64, u64) = if sb.len() == 1 { (1, 1) } else { (sb[..sb.len() - 2].iter().product(), *sb.last().unwrap()) };
                for i in 0..a_outer { for j in 0..b_outer { for mm in 0..b_last {
                    let mut acc: u128 = 0;
                    for kk in 0..k {
                        let ai = (i * k + kk) as usize;
                        let bi = if sb.len() == 1 { kk as usize } else { (j * k * b_last + kk * b_last + mm) as usize };
                        acc = acc.wrapping_add(a[ai].wrapping_mul(b[bi]));
                    }
                    exp.push(m(acc));
                } } }
            } else {
                // matmul with NumPy batch broadcasting; rank-1 operands get a unit dimension;
                // Gemm(ta, tb) multiplies op(a) op(b) where op transposes the last two dimensions
                let (tra, trb) = if let Operation::Gemm(x, y) = op { (x, y) } else { (false, false) };
                let (mut xa, mut xb) = (sa.clone(), sb.clone());
                if xa.len() == 1 { xa.insert(0, 1); }
                if xb.len() == 1 { xb.push(1); }
                let (ra, rb) = (xa.len(), xb.len());
                let (n_, kk_, m_) = (if tra { xa[ra - 1] } else { xa[ra - 2] }, if tra { xa[ra - 2] } else { xa[ra - 1] }, if trb { xb[rb - 2] } else { xb[rb - 1] });
                let (ba, bb) = (xa[..ra - 2].to_vec(), xb[..rb - 2].to_vec());
                let rank = std::cmp::max(ba.len(), bb.len());
                let pad = |v: &Vec<u64>| -> Vec<u64> { let mut r = vec![1u64; rank - v.len()]; r.extend(v.iter()); r };
                let (pa, pb) = (pad(&ba), pad(&bb));
                let batch: Vec<u64> = pa.iter().zip(pb.iter()).map(|(x, y)| std::cmp::max(*x, *y)).collect();
                let nb: u64 = batch.iter().product();
                let _ = (&sta, &stb);
                for bi in 0..nb {
                    // decode batch index
                    let mut idx = vec![0u64; rank]; let mut r = bi;
                    for d in (0..rank).rev() { idx[d] = r % batch[d]; r /= batch[d]; }
                    let off = |p: &Vec<u64>| -> u64 { let mut o = 0u64; for d in 0..rank { o = o * p[d] + if p[d] == 1 { 0 } else { idx[d] }; } o };
                    let (oa, ob) = (off(&pa) * n_ * kk_, off(&pb) * kk_ * m_);
                    for i in 0..n_ { for j in 0..m_ {
                        let mut acc: u128 = 0;
                        for q in 0..kk_ {
                            let ai = if tra { oa + q * n_ + i } else { oa + i * kk_ + q };
                            let bi2 = if trb { ob + j * kk_ + q } else { ob + q * m_ + j };
                            acc = acc.wrapping_add(a[ai as usize].wrapping_mul(b[bi2 as usize]));
                        }
                        exp.push(m(acc));
                    } }
                }
            }
            if got != exp { out.violation(&format!("{}-differs-from-numpy-reference", op_name(&op)), json!({"op": op_name(&op), "a": format!("{}", ta), "b": format!("{}", tb), "ops": ops}), format!("got {:?} expected {:?}", &got[..std::cmp::min(6, got.len())], &exp[..std::cmp::min(6, exp.len())])); } else { out.oracle_ok(); }
        }
    }
    if tag == "Panic" {
        out.violation("evaluate-node-panics", json!({"ops": ops, "input_types": p.input_types.iter().map(|t| format!("{}", t)).collect::<Vec<_>>()}), "SimpleEvaluator panicked on a graph the builder accepted".into());
    }
}

/// every pattern of batch dimensions of a Gemm / Matmul pair: equal, missing on one side, size 1 on
/// one side (also with the operand of full rank), crossed size-1 dimensions
fn batch_pattern_program(rng: &mut Rng, idx: usize) -> Prog {
    let ctx = ciphercore_base::graphs::create_context().unwrap();
    let g = ctx.create_graph().unwrap();
    let st = *rng.pick(&ALL_ST);
    let (n, k, m) = (1 + rng.below(2), 2 + rng.below(2), 1 + rng.below(3));
    let (d, e) = (2 + rng.below(2), 2 + rng.below(2));
    let pats: Vec<(Vec<u64>, Vec<u64>)> = vec![
        (vec![1], vec![d]), (vec![d], vec![1]), (vec![d], vec![d]), (vec![], vec![d]), (vec![d], vec![]),
        (vec![d, 1], vec![1, e]), (vec![1, e], vec![d, 1]), (vec![1, 1], vec![d, e]), (vec![d, e], vec![1, 1]),
        (vec![d, 1], vec![d, e]), (vec![1, e], vec![d, e]), (vec![d, e], vec![e]), (vec![1], vec![d, e]), (vec![d, 1], vec![e]),
    ];
    let (ba, bb) = pats[idx % pats.len()].clone();
    let gemm = (idx / pats.len()) % 2 == 0;
    let (ta, tb) = if gemm { (rng.chance(1, 2), rng.chance(1, 2)) } else { (false, false) };
    let sa = [ba, if ta { vec![k, n] } else { vec![n, k] }].concat();
    let sb = [bb, if tb { vec![m, k] } else { vec![k, m] }].concat();
    let (t0, t1) = (array_type(sa, st), array_type(sb, st));
    let x = g.input(t0.clone()).unwrap();
    let y = g.input(t1.clone()).unwrap();
    let o = if gemm { x.gemm(y, ta, tb) } else { x.matmul(y) }.unwrap();
    g.set_output_node(o).unwrap();
    g.finalize().unwrap();
    ctx.set_main_graph(g.clone()).unwrap();
    ctx.finalize().unwrap();
    Prog { ctx, g, input_types: vec![t0, t1], attempts: vec![] }
}

/// all ordered lists of distinct axes of an array of this rank
fn ordered_axis_lists(rank: u64) -> Vec<Vec<u64>> {
    fn go(rank: u64, cur: &mut Vec<u64>, res: &mut Vec<Vec<u64>>) {
        if !cur.is_empty() { res.push(cur.clone()); }
        for a in 0..rank { if !cur.contains(&a) { cur.push(a); go(rank, cur, res); cur.pop(); } }
    }
    let mut res = vec![];
    go(rank, &mut vec![], &mut res);
    res
}

/// Sum over an explicitly ordered axis list (the operation keeps the order it is given)
fn sum_axes_program(rng: &mut Rng, rank: u64, axes: Vec<u64>) -> Prog {
    let ctx = ciphercore_base::graphs::create_context().unwrap();
    let g = ctx.create_graph().unwrap();
    let st = *rng.pick(&ALL_ST);
    let shape: Vec<u64> = (0..rank).map(|_| 2 + rng.below(2)).collect();
    let t = array_type(shape, st);
    let x = g.input(t.clone()).unwrap();
    let o = x.sum(axes).unwrap();
    g.set_output_node(o).unwrap();
    g.finalize().unwrap();
    ctx.set_main_graph(g.clone()).unwrap();
    ctx.finalize().unwrap();
    Prog { ctx, g, input_types: vec![t], attempts: vec![] }
}

pub fn run(tier: &str, seed: u64, out: &mut Out) {
    let mut rng = Rng::new(seed ^ 0xC10);
    // Sum over every ordered axis list of rank-3 arrays and a sample (all, in the thorough tier) of rank 4
    let mut lists: Vec<(u64, Vec<u64>)> = ordered_axis_lists(3).into_iter().map(|l| (3, l)).collect();
    let l4 = ordered_axis_lists(4);
    let take4 = if tier == "quick" { 20 } else { l4.len() };
    let start = rng.below(l4.len() as u64) as usize;
    for j in 0..take4 { lists.push((4, l4[(start + j * 7) % l4.len()].clone())); }
    for (rank, axes) in lists {
        let p = sum_axes_program(&mut rng, rank, axes);
        out.stat("stream:sum-ordered-axes");
        emit_eval_case(&p, &mut rng, out, "eval_sum_axes");
    }
    let n_pat = match tier { "thorough" => 28 * 5, "search" => 28 * 10, _ => 28 };
    for i in 0..n_pat {
        let p = batch_pattern_program(&mut rng, i);
        out.stat("stream:batch-patterns");
        emit_eval_case(&p, &mut rng, out, "eval_batch_pattern");
    }
    let (n_single, n_multi) = match tier { "thorough" => (1500, 600), "search" => (3000, 1000), _ => (260, 90) };
    // one-operation graphs over every scalar type
    for i in 0..n_single {
        let st = ALL_ST[i % ALL_ST.len()];
        let opn = ALL_OPS[(i / ALL_ST.len()) % ALL_OPS.len()];
        let cfg = GenCfg { n_inputs: 1 + rng.below(3) as usize, n_ops: 1 + rng.below(2) as usize, scalar_types: vec![st, st, st, BIT], ops: vec![opn], small: true };
        let p = gen_program(&mut rng, &cfg);
        out.stat(&format!("st:{}", scalar(st)));
        emit_eval_case(&p, &mut rng, out, "eval_single_op");
    }
    // compositions
    for _ in 0..n_multi {
        let st = *rng.pick(&ALL_ST);
        let cfg = GenCfg { n_inputs: 1 + rng.below(3) as usize, n_ops: 3 + rng.below(8) as usize, scalar_types: vec![st, st, BIT, *rng.pick(&ALL_ST)], ops: ALL_OPS.to_vec(), small: true };
        let p = gen_program(&mut rng, &cfg);
        emit_eval_case(&p, &mut rng, out, "eval_composition");
    }
}

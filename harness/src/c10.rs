//! C10 — primitive operations follow their documented NumPy-style modular semantics.
//! The evaluator correspondence: Graph/Eval.v's eval_node vs SimpleEvaluator::evaluate_node on
//! generated graphs, node by node (every intermediate value compared).
use crate::coqfmt::*;
use crate::export::*;
use crate::gen::*;
use crate::out::Out;
use crate::progen::*;
use crate::rng::Rng;
use ciphercore_base::data_types::*;
use ciphercore_base::data_values::Value;
use ciphercore_base::graphs::Operation;
use serde_json::json;

pub const HEADER: &str = "From CC Require Import Base.Prelude Base.Scalar Base.Ty Base.Shape Graph.Value Graph.IR Graph.Eval.";

pub fn emit_eval_case(p: &Prog, rng: &mut Rng, out: &mut Out, kind: &str) {
    let inputs: Vec<Value> = p.input_types.iter().map(|t| gen_value(t, rng)).collect();
    let mut seed = [0u8; 16];
    for b in seed.iter_mut() { *b = rng.next() as u8; }
    let vals = eval_all(&p.g, &inputs, seed);
    let nodes = p.g.get_nodes();
    let mut ops = vec![];
    for n in nodes.iter() {
        let name = op_name(&n.get_operation());
        out.stat(&format!("op:{}", name));
        ops.push(name);
    }
    let tag = vals.iter().map(|v| v.tag()).find(|t| *t != "Ok").unwrap_or("Ok");
    out.stat(&format!("eval:{}", tag));
    let big = nodes.iter().any(|n| { let t = n.get_type().unwrap(); (t.is_array() || t.is_scalar()) && t.get_scalar_type().size_in_bits() == 128 });
    if big { out.stat("with_128bit_type"); }
    let lhs = format!("eval_graph_nodes {} {}", nodes_coq(&p.g), tape_coq(&p.g, &vals));
    let rhs = expected_coq(&p.g, &vals);
    out.case(kind, lhs, rhs, json!({"ops": ops, "input_types": p.input_types.iter().map(|t| format!("{}", t)).collect::<Vec<_>>()}), nodes.len() > p.input_types.len() + 1);
    // native oracle for the data-movement operations: every element of the result is an element of
    // an operand (no element may be altered, e.g. truncated to 64 bits)
    for (n, v) in nodes.iter().zip(vals.iter()) {
        let moves = matches!(n.get_operation(), Operation::Stack(_) | Operation::Concatenate(_) | Operation::Get(_) | Operation::GetSlice(_) | Operation::Gather(_) | Operation::PermuteAxes(_) | Operation::Reshape(_) | Operation::ArrayToVector | Operation::VectorToArray | Operation::ApplyPermutation(_));
        if !moves { continue; }
        let flat = |v: &Value, t: &Type| -> Vec<u128> {
            fn go(v: &Value, t: &Type, acc: &mut Vec<u128>) {
                match t {
                    Type::Scalar(st) => { if let Ok(x) = v.to_u128(*st) { acc.push(x); } }
                    Type::Array(_, _) => { if let Ok(xs) = v.to_flattened_array_u128(t.clone()) { acc.extend(xs); } }
                    Type::Vector(_, et) => { if let Ok(vs) = v.to_vector() { for c in vs.iter() { go(c, et, acc); } } }
                    Type::Tuple(ts) => { if let Ok(vs) = v.to_vector() { for (c, t) in vs.iter().zip(ts.iter()) { go(c, t, acc); } } }
                    Type::NamedTuple(fs) => { if let Ok(vs) = v.to_vector() { for (c, (_, t)) in vs.iter().zip(fs.iter()) { go(c, t, acc); } } }
                }
            }
            let mut acc = vec![]; go(v, t, &mut acc); acc
        };
        if let Outcome::Ok(rv) = v {
            let mut pool: std::collections::HashSet<u128> = std::collections::HashSet::new();
            let deps = n.get_node_dependencies();
            // the first operand carries the data (index operands of Gather/ApplyPermutation are not data)
            let data_deps = match n.get_operation() { Operation::Gather(_) | Operation::ApplyPermutation(_) => 1, _ => deps.len() };
            for d in deps.iter().take(data_deps) { if let Outcome::Ok(dv) = &vals[d.get_id() as usize] { for x in flat(dv, &d.get_type().unwrap()) { pool.insert(x); } } }
            let res = flat(rv, &n.get_type().unwrap());
            if let Some(bad) = res.iter().find(|x| !pool.contains(x)) {
                out.violation("structural-op-alters-element", json!({"op": op_name(&n.get_operation()), "type": format!("{}", n.get_type().unwrap()), "ops": ops}), format!("result element {} is not an element of any operand", bad));
            } else { out.oracle_ok(); }
        }
    }
    if tag == "Panic" {
        out.violation("evaluate-node-panics", json!({"ops": ops, "input_types": p.input_types.iter().map(|t| format!("{}", t)).collect::<Vec<_>>()}), "SimpleEvaluator panicked on a graph the builder accepted".into());
    }
}

pub fn run(tier: &str, seed: u64, out: &mut Out) {
    let mut rng = Rng::new(seed ^ 0xC10);
    let (n_single, n_multi) = match tier { "thorough" => (1500, 600), "search" => (3000, 1000), _ => (260, 90) };
    // one-operation graphs over every scalar type
    for i in 0..n_single {
        let st = ALL_ST[i % ALL_ST.len()];
        let opn = ALL_OPS[(i / ALL_ST.len()) % ALL_OPS.len()];
        let cfg = GenCfg { n_inputs: 1 + rng.below(3) as usize, n_ops: 1 + rng.below(2) as usize, scalar_types: vec![st, st, st, BIT], ops: vec![opn], small: true };
        let p = gen_program(&mut rng, &cfg);
        out.stat(&format!("st:{}", scalar(st)));
        emit_eval_case(&p, &mut rng, out, "eval_single_op");
    }
    // compositions
    for _ in 0..n_multi {
        let st = *rng.pick(&ALL_ST);
        let cfg = GenCfg { n_inputs: 1 + rng.below(3) as usize, n_ops: 3 + rng.below(8) as usize, scalar_types: vec![st, st, BIT, *rng.pick(&ALL_ST)], ops: ALL_OPS.to_vec(), small: true };
        let p = gen_program(&mut rng, &cfg);
        emit_eval_case(&p, &mut rng, out, "eval_composition");
    }
}

//! C04 — every pseudo-random mask is fresh: no PRF input reused, no randomness merged.
use crate::c06::map_coq;
use crate::coqfmt::*;
use crate::export::*;
use crate::gen::*;
use crate::mpcgen::*;
use crate::out::Out;
use crate::progen::*;
use crate::rng::Rng;
use ciphercore_base::data_types::*;
use ciphercore_base::evaluators::simple_evaluator::SimpleEvaluator;
use ciphercore_base::graphs::*;
use ciphercore_base::mpc::mpc_compiler::{compile_context, uniquify_prf_id, IOStatus};
use ciphercore_base::optimizer::optimize::optimize_context;
use serde_json::json;
use std::collections::HashMap;

pub const HEADER: &str = "From CC Require Import Base.Prelude Base.Scalar Base.Ty Base.Shape Graph.Value Graph.IR Graph.Eval Model.Opt Model.Uniquify.";

fn is_fresh(op: &Operation) -> bool {
    matches!(op, Operation::Random(_) | Operation::RandomPermutation(_) | Operation::CuckooToPermutation | Operation::DecomposeSwitchingMap(_) | Operation::PRF(_, _) | Operation::PermutationFromPRF(_, _))
}
fn iv_of(op: &Operation) -> Option<u64> {
    match op { Operation::PRF(iv, _) | Operation::PermutationFromPRF(iv, _) => Some(*iv), _ => None }
}

pub fn run(tier: &str, seed: u64, out: &mut Out) {
    let mut rng = Rng::new(seed ^ 0xC04);
    let (n_opt, n_comp) = match tier { "thorough" => (800, 120), "search" => (2000, 200), _ => (120, 14) };
    // ---- optimizer passes leave fresh nodes alone; uniquify renumbers 1..n ---------------------
    for i in 0..n_opt {
        let st = *rng.pick(&ALL_ST);
        let ops = vec!["add", "mul", "constant", "tuple", "tupleget", "nop", "random", "random", "prf", "prf", "prf", "dup", "dup", "annot", "stack", "sum"];
        let cfg = GenCfg { n_inputs: 1 + rng.below(2) as usize, n_ops: 4 + rng.below(12) as usize, scalar_types: vec![st, UINT64, BIT], ops, small: true };
        let p = gen_program(&mut rng, &cfg);
        let ops_desc: Vec<String> = p.g.get_nodes().iter().map(|n| op_name(&n.get_operation())).collect();
        let desc = json!({"ops": ops_desc, "index": i});
        let n_fresh = p.g.get_nodes().iter().filter(|n| is_fresh(&n.get_operation())).count();
        out.stat(&format!("fresh_nodes:{}", std::cmp::min(n_fresh, 6)));
        // uniquify: exact tie + oracle
        let ctx = p.ctx.clone();
        let u = observe(|| uniquify_prf_id(ctx));
        if let Outcome::Ok(mc) = &u {
            let ng = mc.get_context().get_main_graph().unwrap();
            out.case("uniquify", format!("uniquify_graphs [{}]", nodes_coq(&p.g)), format!("[{}]", nodes_coq(&ng)), desc.clone(), n_fresh > 0);
            let ivs: Vec<u64> = ng.get_nodes().iter().filter_map(|n| iv_of(&n.get_operation())).collect();
            let expect: Vec<u64> = (1..=ivs.len() as u64).collect();
            if ivs != expect { out.violation("uniquify-not-1-to-n", desc.clone(), format!("ivs {:?}", ivs)); } else { out.oracle_ok(); }
            // then optimise the uniquified context: counters must stay distinct
            let c2 = mc.get_context();
            if let Outcome::Ok(oc) = observe(|| optimize_context(&c2, SimpleEvaluator::new(None)?)) {
                let og = oc.get_context().get_main_graph().unwrap();
                let mut seen = HashMap::new();
                for n in og.get_nodes() { if let Some(iv) = iv_of(&n.get_operation()) { *seen.entry(iv).or_insert(0) += 1; } }
                if seen.values().any(|c| *c > 1) { out.violation("duplicate-prf-counter-after-optimize", desc.clone(), format!("{:?}", seen)); } else { out.oracle_ok(); }
                out.case("T:nodup_ivs_after_optimize", format!("nodup_ivs {}", nodes_coq(&og)), "true".into(), desc.clone(), n_fresh > 1);
            }
        } else { out.violation("uniquify-fails", desc.clone(), "uniquify_prf_id failed on an inlined context".into()); }
        // optimizer on the raw program: fresh nodes are never folded, merged or duplicated
        let ctx = p.ctx.clone();
        if let Outcome::Ok(oc) = observe(|| optimize_context(&ctx, SimpleEvaluator::new(None)?)) {
            let og = oc.get_context().get_main_graph().unwrap();
            let mut image_count: HashMap<u64, u64> = HashMap::new();
            for n in p.g.get_nodes() {
                if !is_fresh(&n.get_operation()) { continue; }
                if oc.mappings.contains_node(&n) {
                    let img = oc.mappings.get_node(&n);
                    if !is_fresh(&img.get_operation()) || format!("{:?}", img.get_operation()) != format!("{:?}", n.get_operation()) {
                        out.violation("prf-folded-to-constant", desc.clone(), format!("old node {} {:?} became {:?}", n.get_id(), n.get_operation(), img.get_operation()));
                    } else { out.oracle_ok(); }
                    *image_count.entry(img.get_id()).or_insert(0) += 1;
                }
            }
            if image_count.values().any(|c| *c > 1) { out.violation("fresh-nodes-merged", desc.clone(), format!("{:?}", image_count)); } else { out.oracle_ok(); }
            let n_new = og.get_nodes().iter().filter(|n| is_fresh(&n.get_operation())).count();
            if n_new > image_count.len() { out.violation("fresh-node-duplicated", desc.clone(), format!("{} fresh nodes in output, {} images", n_new, image_count.len())); } else { out.oracle_ok(); }
            // model-level statement of the same on the exported pair (decided in Coq)
            out.case("T:fresh_preserved", format!("fresh_check {} {} {}", nodes_coq(&p.g), nodes_coq(&og), map_coq(&p.g, &oc.mappings)), "true".into(), desc.clone(), n_fresh > 0);
        }
    }
    // ---- whole pipeline: compile_context output has pairwise distinct counters ------------------
    let modes = inline_modes();
    for i in 0..n_comp {
        let st = *rng.pick(&[UINT8, INT16, UINT32, INT32, UINT64, INT64, BIT]);
        let ops: &[&'static str] = if st == BIT { &["add", "mul", "mul", "stack", "get", "reshape"] } else { &MPC_OPS };
        let (ni, no) = (1 + rng.below(3) as usize, 2 + rng.below(5) as usize);
        let p = gen_mpc_program(&mut rng, ops, ni, no, &[st]);
        let owners = random_owners(p.input_types.len(), &mut rng);
        let outs = rng.pick(&output_subsets()).clone();
        let (mname, mode) = modes[i % 3].clone();
        let ops_desc: Vec<String> = p.g.get_nodes().iter().map(|n| op_name(&n.get_operation())).collect();
        let desc = json!({"ops": ops_desc, "owners": owners.iter().map(status_str).collect::<Vec<_>>(), "outputs": outs.iter().map(status_str).collect::<Vec<_>>(), "inline": mname, "st": scalar(st)});
        let ctx = p.ctx.clone();
        let (o2, u2) = (owners.clone(), outs.clone());
        let r = observe(|| compile_context(ctx, o2, u2, mode, || SimpleEvaluator::new(None)));
        out.stat(&format!("compile:{}", r.tag()));
        if let Outcome::Ok(mc) = r {
            let g = mc.get_context().get_main_graph().unwrap();
            let ivs: Vec<u64> = g.get_nodes().iter().filter_map(|n| iv_of(&n.get_operation())).collect();
            out.stat_n("compiled_prf_nodes", ivs.len() as u64);
            let mut s = ivs.clone(); s.sort_unstable(); s.dedup();
            if s.len() != ivs.len() { out.violation("duplicate-prf-counter-in-compiled-graph", desc.clone(), format!("{} PRF nodes, {} distinct counters", ivs.len(), s.len())); } else { out.oracle_ok(); }
            out.case("T:nodup_ivs_compiled", format!("nodup_ivs {}", nodes_coq(&g)), "true".into(), desc.clone(), ivs.len() > 1);
        }
    }
}

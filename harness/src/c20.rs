//! C20 — approximate numeric operations stay close to the real function.
//! Tie of Model/Fixed.v to newton_inversion.rs, inverse_sqrt.rs, goldschmidt_division.rs,
//! fixed_multiply.rs and pwl/approx_*.rs: every op is instantiated (CustomOperation +
//! run_instantiation_pass), evaluated by random_evaluate over a swept input array, and the
//! integer model must give the same words point by point.  The PWL coefficient tables are read
//! back from the instantiated graph's Constant nodes on every run and (a) passed to the model,
//! (b) compared with the tables committed in coq/Model/PwlData.v (the ones the interval proofs
//! are about).  Native oracle: |Rust result - f64 exact function| within the tolerance the
//! op's own tests/docs state, at every swept point of the documented domain.
use crate::coqfmt::*;
use crate::out::Out;
use crate::rng::Rng;
use ciphercore_base::custom_ops::{run_instantiation_pass, CustomOperation};
use ciphercore_base::data_types::*;
use ciphercore_base::data_values::Value;
use ciphercore_base::evaluators::random_evaluate;
use ciphercore_base::graphs::util::simple_context;
use ciphercore_base::graphs::{Context, Operation};
use ciphercore_base::ops::fixed_precision::fixed_multiply::FixedMultiply;
use ciphercore_base::ops::fixed_precision::fixed_precision_config::FixedPrecisionConfig;
use ciphercore_base::ops::goldschmidt_division::GoldschmidtDivision;
use ciphercore_base::ops::inverse_sqrt::InverseSqrt;
use ciphercore_base::ops::newton_inversion::NewtonInversion;
use ciphercore_base::ops::pwl::approx_exponent::ApproxExponent;
use ciphercore_base::ops::pwl::approx_gelu::ApproxGelu;
use ciphercore_base::ops::pwl::approx_sigmoid::ApproxSigmoid;
use ciphercore_base::ops::taylor_exponent::TaylorExponent;
use ciphercore_base::inline::inline_common::DepthOptimizationLevel;
use ciphercore_base::inline::inline_ops::{inline_operations, InlineConfig, InlineMode};
use ciphercore_base::mpc::mpc_compiler::{prepare_for_mpc_evaluation, IOStatus};
use serde_json::json;
use std::panic::AssertUnwindSafe;

pub const HEADER: &str = "From CC Require Import Base.Prelude Model.Fixed Model.PwlData Model.Taylor.";

const CHUNK: usize = 16;

fn mask(st: ScalarType) -> u128 {
    if st.size_in_bits() >= 128 {
        u128::MAX
    } else {
        (1u128 << st.size_in_bits()) - 1
    }
}
fn sgb(st: ScalarType) -> &'static str {
    if st.is_signed() {
        "true"
    } else {
        "false"
    }
}

/// Instantiate `mk()` on `args.len()` arrays of type st[n] and evaluate. Words (mod 2^w) out.
fn eval_op<F: Fn() -> CustomOperation>(mk: F, st: ScalarType, args: &[Vec<u128>]) -> Outcome<(Vec<u128>, Context)> {
    let n = args[0].len() as u64;
    let t = array_type(vec![n], st);
    let args: Vec<Vec<u128>> = args.to_vec();
    observe(AssertUnwindSafe(move || {
        let c = simple_context(|g| {
            let mut ins = vec![];
            for _ in 0..args.len() {
                ins.push(g.input(t.clone())?);
            }
            g.custom_op(mk(), ins)
        })?;
        let mapped = run_instantiation_pass(c)?;
        let ctx = mapped.get_context();
        let mut vals = vec![];
        for a in args.iter() {
            vals.push(Value::from_flattened_array(a, st)?);
        }
        let r = random_evaluate(ctx.get_main_graph()?, vals)?;
        let out = r.to_flattened_array_u128(t.clone())?;
        let m = mask(st);
        Ok((out.into_iter().map(|x| x & m).collect(), ctx))
    }))
}

fn sweep_pos(rng: &mut Rng, lo: u128, hi: u128, n: usize) -> Vec<u128> {
    // points of [lo, hi): everything if small, else ends, powers of two +-1, then uniform
    let mut v: Vec<u128> = vec![];
    if hi <= lo {
        return v;
    }
    if hi - lo <= n as u128 {
        return (lo..hi).collect();
    }
    for x in [lo, lo + 1, lo + 2, hi - 1, hi - 2] {
        v.push(x);
    }
    let mut p = 1u128;
    while p < hi {
        for x in [p.wrapping_sub(1), p, p + 1] {
            if x >= lo && x < hi {
                v.push(x);
            }
        }
        p <<= 1;
    }
    while v.len() < n {
        // half uniform, half log-uniform
        let x = if rng.chance(1, 2) {
            lo + (rng.u128() % (hi - lo))
        } else {
            let bits = 1 + rng.below(128 - (hi - 1).leading_zeros() as u64) as u32;
            let m = if bits >= 128 { u128::MAX } else { (1u128 << bits) - 1 };
            let y = (rng.u128() & m) | (1u128 << (bits - 1));
            if y < lo || y >= hi {
                continue;
            }
            y
        };
        v.push(x);
    }
    v.sort();
    v.dedup();
    v
}

struct Worst {
    v: f64,
    at: String,
}
impl Worst {
    fn new() -> Self {
        Worst { v: -1.0, at: String::new() }
    }
    fn upd(&mut self, v: f64, at: String) {
        if v > self.v {
            self.v = v;
            self.at = at;
        }
    }
}

fn emit_chunks(out: &mut Out, kind: &str, f: &str, pts: &[String], res: &[u128], input: serde_json::Value, nontrivial: bool) {
    for (ci, (p, r)) in pts.chunks(CHUNK).zip(res.chunks(CHUNK)).enumerate() {
        let lhs = format!("map ({}) [{}]", f, p.join("; "));
        let rhs = list(r, |x| format!("Ok {}", x));
        let mut inp = input.clone();
        inp["chunk"] = json!(ci);
        inp["first_point"] = json!(p[0]);
        out.case(kind, lhs, rhs, inp, nontrivial);
    }
}

fn tolog2(cap: u64) -> u64 {
    // "rule of thumb is to set it to 1 + log(denominator_cap_2k)"
    1 + (64 - (cap.max(1) - 1).leading_zeros() as u64)
}

// ------------------------------------------------------------------------------- Newton-type ops
fn run_newton(tier: &str, rng: &mut Rng, out: &mut Out, worst: &mut std::collections::BTreeMap<String, Worst>) {
    let npts = if tier == "quick" { 200 } else { 3000 };
    // (cap, iterations): the test's (10,5), the doc example (4,10), rule-of-thumb counts, caps beyond sweepable
    let mut cfgs: Vec<(u64, u64)> = vec![(10, 5), (4, 10), (1, 1), (2, 2), (6, 4), (8, 4), (12, 5), (16, 5)];
    if tier != "quick" {
        cfgs.extend([(3, 3), (5, 4), (7, 4), (9, 5), (11, 5), (14, 5), (20, 6), (24, 6), (29, 6)]);
    }
    for &(cap, iters) in cfgs.iter() {
        for &st in [UINT64, INT64].iter() {
            for with_init in [false, true] {
                let dom = sweep_pos(rng, 1, 1u128 << cap, npts);
                // a few out-of-domain points: tie only
                let mut ds = dom.clone();
                let ndom = ds.len();
                ds.extend([0u128, 1u128 << cap, (1u128 << cap) + 5, (1u128 << 40) + 12345, u64::MAX as u128]);
                let inits: Vec<u128> = ds
                    .iter()
                    .map(|&d| {
                        // documented requirement: 2^(cap-1) <= d*x0 < 2^(cap+1); as in the tests the guess is
                        // mostly the power of two with d*x0 in [2^(cap-1), 2^cap), sometimes any x0 of that range
                        if d == 0 || d >= (1u128 << cap) {
                            return 1;
                        }
                        let lo = ((1u128 << (cap - 1)) + d - 1) / d;
                        let hi = (1u128 << cap) / d;
                        // over-estimates allowed by the documentation (d*x0 < 2^(cap+1)); kept to
                        // d*x0 <= 1.25 * 2^cap, from where the rule-of-thumb iteration count converges
                        let (olo, ohi) = (hi + 1, ((5u128 << cap) / 4) / d);
                        if rng.chance(1, 4) && ohi >= olo {
                            return olo + rng.u128() % (ohi - olo + 1);
                        }
                        if rng.chance(1, 2) && hi >= lo {
                            lo + rng.u128() % (hi - lo + 1)
                        } else {
                            let mut g = 1u128;
                            while g * d * 2 < (1u128 << cap) {
                                g *= 2;
                            }
                            g
                        }
                    })
                    .collect();
                let args: Vec<Vec<u128>> = if with_init { vec![ds.clone(), inits.clone()] } else { vec![ds.clone()] };
                let r = eval_op(|| CustomOperation::new(NewtonInversion { iterations: iters, denominator_cap_2k: cap }), st, &args);
                let name = format!("newton cap={} it={} {} init={}", cap, iters, scalar(st), with_init);
                out.stat(&format!("newton:{}", r.tag()));
                let input = json!({"op":"NewtonInversion","cap":cap,"iterations":iters,"st":scalar(st),"init":with_init});
                match r {
                    Outcome::Ok((res, _)) => {
                        let f = if with_init {
                            format!("fun q => newton_inversion {} {} {} (Some (snd q)) (fst q)", sgb(st), iters, cap)
                        } else {
                            format!("newton_inversion {} {} {} None", sgb(st), iters, cap)
                        };
                        let pts: Vec<String> = if with_init {
                            ds.iter().zip(inits.iter()).map(|(d, x)| format!("({}, {})", d, x)).collect()
                        } else {
                            ds.iter().map(|d| format!("{}", d)).collect()
                        };
                        emit_chunks(out, "newton_inversion", &f, &pts, &res, input.clone(), true);
                        // oracle (tests: |res - 2^cap / d| <= 1 with integer division), rule-of-thumb iterations only
                        if iters >= tolog2(cap) {
                            let w = worst.entry(format!("newton(abs ulp) cap={}", cap)).or_insert_with(Worst::new);
                            for i in 0..ndom {
                                let d = ds[i];
                                let exact = (1u128 << cap) as f64 / d as f64;
                                let got = res[i] as u64 as i64;
                                let e = (got as f64 - exact).abs();
                                w.upd(e, format!("d={} got={} exact={:.3} ({})", d, got, exact, name));
                                let q = ((1u128 << cap) / d) as i64;
                                if (got - q).abs() > 1 {
                                    // the unit tests' own tolerance (within 1 of the integer quotient)
                                    out.stat("newton-exceeds-unit-test-tolerance");
                                }
                                if e > 2.0 {
                                    out.violation(
                                        "newton-inversion-tolerance",
                                        json!({"op":"NewtonInversion","cap":cap,"iterations":iters,"st":scalar(st),"init": if with_init {json!(inits[i].to_string())} else {json!(null)},"d":d.to_string()}),
                                        format!("result {} but 2^{}/{} = {:.4} (tolerance: 2 units)", got, cap, d, exact),
                                    );
                                } else {
                                    out.oracle_ok();
                                }
                            }
                        }
                    }
                    o => {
                        let lhs = format!("newton_inversion {} {} {} None 1", sgb(st), iters, cap);
                        out.case("newton_inversion", lhs, res::<u128, _>(&match o { Outcome::Err => Outcome::Err, _ => Outcome::Panic }, |x| x.to_string()), input, true);
                    }
                }
            }
        }
    }
    // instantiation failures: cap = 0, cap + 1 >= 32 (i32 literal shift)
    for &(cap, iters) in [(0u64, 3u64), (30, 6), (31, 6), (32, 6), (40, 7)].iter() {
        let st = INT64;
        let ds: Vec<u128> = vec![1, 2, 3, 1000, 123456];
        let r = eval_op(|| CustomOperation::new(NewtonInversion { iterations: iters, denominator_cap_2k: cap }), st, &[ds.clone()]);
        out.stat(&format!("newton-edge cap={}:{}", cap, r.tag()));
        let input = json!({"op":"NewtonInversion","cap":cap,"iterations":iters,"st":"I64","edge":true});
        match r {
            Outcome::Ok((res, _)) => {
                let f = format!("newton_inversion true {} {} None", iters, cap);
                let pts: Vec<String> = ds.iter().map(|d| d.to_string()).collect();
                emit_chunks(out, "newton_inversion", &f, &pts, &res, input, true);
                for (d, r) in ds.iter().zip(res.iter()) {
                    let got = *r as u64 as i64;
                    let q = ((1u128 << cap) / d) as i64;
                    if (got - q).abs() > 1 + q / 100 {
                        // the op's doc allows inputs below 2^32 and does not bound the cap; reported, not a documented tolerance
                        out.stat(&format!("newton-edge-wrong cap={}", cap));
                        out.note(&format!("newton_edge_cap{}_d{}", cap, d), json!({"got": got, "expected": q}));
                    }
                }
            }
            Outcome::Err => {
                out.case("newton_inversion", format!("newton_inversion true {} {} None 1", iters, cap), "Err".into(), input, true);
            }
            Outcome::Panic => {
                out.case("newton_inversion", format!("newton_inversion true {} {} None 1", iters, cap), "Panic".into(), input, true);
            }
        }
    }
}

fn run_isqrt(tier: &str, rng: &mut Rng, out: &mut Out, worst: &mut std::collections::BTreeMap<String, Worst>) {
    let npts = if tier == "quick" { 200 } else { 3000 };
    let mut cfgs: Vec<(u64, u64)> = vec![(10, 5), (4, 10), (2, 3), (6, 5), (8, 5)];
    if tier != "quick" {
        cfgs.extend([(3, 4), (5, 5), (7, 5), (9, 5), (10, 6), (11, 5)]);
    }
    for &(cap, iters) in cfgs.iter() {
        for &st in [UINT64, INT64].iter() {
            for with_init in [false, true] {
                // documented: (0, 2^(2cap-1)) and below 2^21; the tests go up to 10^6 < 2^(2cap)
                let top = std::cmp::min(1u128 << (2 * cap), 1u128 << 21);
                let dom = sweep_pos(rng, 1, top, npts);
                let mut ds = dom.clone();
                let ndom = ds.len();
                ds.extend([0u128, top, top + 7, u64::MAX as u128]);
                let inits: Vec<u128> = ds
                    .iter()
                    .map(|&d| {
                        if d == 0 || d >= top {
                            return 1;
                        }
                        // as in the test: smallest power of two g with g*g*d*4 >= 2^(2cap)
                        let mut g = 1u128;
                        while g * g * d * 4 < (1u128 << (2 * cap)) {
                            g *= 2;
                        }
                        g
                    })
                    .collect();
                let args: Vec<Vec<u128>> = if with_init { vec![ds.clone(), inits.clone()] } else { vec![ds.clone()] };
                let r = eval_op(|| CustomOperation::new(InverseSqrt { iterations: iters, denominator_cap_2k: cap }), st, &args);
                out.stat(&format!("isqrt:{}", r.tag()));
                let name = format!("isqrt cap={} it={} {} init={}", cap, iters, scalar(st), with_init);
                let input = json!({"op":"InverseSqrt","cap":cap,"iterations":iters,"st":scalar(st),"init":with_init});
                match r {
                    Outcome::Ok((res, _)) => {
                        let f = if with_init {
                            format!("fun q => inverse_sqrt {} {} {} (Some (snd q)) (fst q)", sgb(st), iters, cap)
                        } else {
                            format!("inverse_sqrt {} {} {} None", sgb(st), iters, cap)
                        };
                        let pts: Vec<String> = if with_init {
                            ds.iter().zip(inits.iter()).map(|(d, x)| format!("({}, {})", d, x)).collect()
                        } else {
                            ds.iter().map(|d| d.to_string()).collect()
                        };
                        emit_chunks(out, "inverse_sqrt", &f, &pts, &res, input.clone(), true);
                        if iters >= 5 || (cap <= 3 && iters >= 3) {
                            let w = worst.entry(format!("isqrt(abs ulp) cap={}", cap)).or_insert_with(Worst::new);
                            for i in 0..ndom {
                                let d = ds[i];
                                let exact = (1u128 << cap) as f64 / (d as f64).sqrt();
                                let got = res[i] as u64 as i64;
                                w.upd((got as f64 - exact).abs(), format!("d={} got={} exact={:.3} ({})", d, got, exact, name));
                                // tests: |res - floor(2^cap / sqrt d)| <= 1
                                if (got - exact as i64).abs() > 1 {
                                    out.stat("isqrt-exceeds-unit-test-tolerance");
                                    out.note(&format!("isqrt_over_test_tolerance_cap{}_d{}", cap, d), json!({"got": got, "exact": exact}));
                                }
                                if (got as f64 - exact).abs() > 2.0 {
                                    out.violation(
                                        "inverse-sqrt-tolerance",
                                        json!({"op":"InverseSqrt","cap":cap,"iterations":iters,"st":scalar(st),"init": with_init,"d":d.to_string()}),
                                        format!("result {} but 2^{}/sqrt({}) = {:.3} (tolerance: 2 units)", got, cap, d, exact),
                                    );
                                } else {
                                    out.oracle_ok();
                                }
                            }
                        }
                    }
                    Outcome::Err => { out.case("inverse_sqrt", format!("inverse_sqrt {} {} {} None 1", sgb(st), iters, cap), "Err".into(), input, true); }
                    Outcome::Panic => { out.case("inverse_sqrt", format!("inverse_sqrt {} {} {} None 1", sgb(st), iters, cap), "Panic".into(), input, true); }
                }
            }
        }
    }
    for &(cap, iters) in [(0u64, 3u64), (1, 3), (31, 6), (32, 6)].iter() {
        let ds: Vec<u128> = vec![1, 2, 3, 1000, 123456, 1 << 20];
        let r = eval_op(|| CustomOperation::new(InverseSqrt { iterations: iters, denominator_cap_2k: cap }), INT64, &[ds.clone()]);
        out.stat(&format!("isqrt-edge cap={}:{}", cap, r.tag()));
        let input = json!({"op":"InverseSqrt","cap":cap,"iterations":iters,"st":"I64","edge":true});
        match r {
            Outcome::Ok((res, _)) => {
                let f = format!("inverse_sqrt true {} {} None", iters, cap);
                let pts: Vec<String> = ds.iter().map(|d| d.to_string()).collect();
                emit_chunks(out, "inverse_sqrt", &f, &pts, &res, input, true);
                for (d, r) in ds.iter().zip(res.iter()) {
                    let exact = (1u128 << cap) as f64 / (*d as f64).sqrt();
                    let got = *r as u64 as i64;
                    if (got as f64 - exact).abs() > 2.0 + exact / 100.0 {
                        out.stat(&format!("isqrt-edge-wrong cap={}", cap));
                        out.note(&format!("isqrt_edge_cap{}_d{}", cap, d), json!({"got": got, "expected": exact}));
                    }
                }
            }
            Outcome::Err => { out.case("inverse_sqrt", format!("inverse_sqrt true {} {} None 1", iters, cap), "Err".into(), input, true); }
            Outcome::Panic => { out.case("inverse_sqrt", format!("inverse_sqrt true {} {} None 1", iters, cap), "Panic".into(), input, true); }
        }
    }
}

fn run_goldschmidt(tier: &str, rng: &mut Rng, out: &mut Out, worst: &mut std::collections::BTreeMap<String, Worst>) {
    let npts = if tier == "quick" { 200 } else { 3000 };
    let mut cfgs: Vec<(u64, u64, ScalarType)> = vec![(10, 5, UINT64), (10, 5, INT64), (4, 10, UINT64), (8, 5, INT64), (10, 5, INT128), (20, 6, UINT128)];
    if tier != "quick" {
        cfgs.extend([(6, 4, INT64), (12, 5, UINT64), (16, 5, INT64), (30, 7, INT128), (30, 6, UINT128), (20, 6, INT128)]);
    }
    for &(cap, iters, st) in cfgs.iter() {
        for with_init in [false, true] {
            let w = st.size_in_bits();
            let divs = sweep_pos(rng, 1, 1u128 << cap, npts);
            // dividends: the tests use values far above 2^cap (123456, 1234567890123456789 for 128 bits);
            // keep a*w below the signed range: dividend * 2^(2cap+1) < 2^(w-1)
            let max_bits = (w - 2 - 2 * cap - 1).min(62) as u32;
            let mut ns: Vec<u128> = vec![];
            for (i, _) in divs.iter().enumerate() {
                let n = match i % 5 {
                    0 => 1 + rng.u128() % (1u128 << cap),
                    1 => 123456u128.min((1u128 << max_bits) - 1),
                    2 => 1 + (rng.u128() % (1u128 << max_bits)),
                    3 => (1u128 << max_bits) - 1 - rng.below(3) as u128,
                    _ => 1 + rng.below(20) as u128,
                };
                ns.push(n);
            }
            let ndom = divs.len();
            let mut ds = divs.clone();
            ds.extend([0u128, 1u128 << cap, 12345678901]);
            ns.extend([5u128, 7, 100]);
            let inits: Vec<u128> = ds
                .iter()
                .map(|&d| {
                    if d == 0 || d >= (1u128 << cap) {
                        return 1;
                    }
                    let mut g = 1u128;
                    while g * d * 2 < (1u128 << cap) {
                        g *= 2;
                    }
                    g
                })
                .collect();
            let args: Vec<Vec<u128>> = if with_init { vec![ns.clone(), ds.clone(), inits.clone()] } else { vec![ns.clone(), ds.clone()] };
            let r = eval_op(|| CustomOperation::new(GoldschmidtDivision { iterations: iters, denominator_cap_2k: cap }), st, &args);
            out.stat(&format!("goldschmidt:{}", r.tag()));
            let name = format!("goldschmidt cap={} it={} {} init={}", cap, iters, scalar(st), with_init);
            let input = json!({"op":"GoldschmidtDivision","cap":cap,"iterations":iters,"st":scalar(st),"init":with_init});
            match r {
                Outcome::Ok((res, _)) => {
                    let f = if with_init {
                        format!("fun q => goldschmidt_division {} {} {} {} (Some (snd q)) (fst (fst q)) (snd (fst q))", w, sgb(st), iters, cap)
                    } else {
                        format!("fun q => goldschmidt_division {} {} {} {} None (fst q) (snd q)", w, sgb(st), iters, cap)
                    };
                    let pts: Vec<String> = (0..ds.len())
                        .map(|i| if with_init { format!("(({}, {}), {})", ns[i], ds[i], inits[i]) } else { format!("({}, {})", ns[i], ds[i]) })
                        .collect();
                    emit_chunks(out, "goldschmidt_division", &f, &pts, &res, input.clone(), true);
                    if iters == tolog2(cap) {
                        let mut wr = Worst::new();
                        let mut wa = Worst::new();
                        for i in 0..ndom {
                            let (n, d) = (ns[i], ds[i]);
                            let exact = (n as f64) * ((1u128 << cap) as f64) / d as f64;
                            let got = res[i] as f64; // results are far below 2^63
                            let q = (n << cap) / d;
                            let gotq = res[i];
                            if q >= 100 {
                                wr.upd((got - exact).abs() / exact, format!("n={} d={} got={} exact={:.3} ({})", n, d, gotq, exact, name));
                            }
                            // tests: |res - q| * 100 / q <= 1 (integer arithmetic, q = floor(n 2^cap / d)); meaningful for q > 0
                            let diff = if gotq > q { gotq - q } else { q - gotq };
                            if q > 0 && diff * 100 / q > 1 {
                                out.stat("goldschmidt-exceeds-unit-test-tolerance");
                            }
                            // each truncation of b loses up to 2^-cap relatively: the relative part cannot be better than iterations * 2^-cap
                            let rel_tol = f64::max(0.01, iters as f64 / (1u128 << cap) as f64);
                            wa.upd((got - exact).abs() - rel_tol * exact, format!("n={} d={} got={} exact={:.3} ({})", n, d, gotq, exact, name));
                            if (got - exact).abs() > rel_tol * exact + 3.0 {
                                out.violation(
                                    "goldschmidt-tolerance",
                                    json!({"op":"GoldschmidtDivision","cap":cap,"iterations":iters,"st":scalar(st),"init":with_init,"dividend":n.to_string(),"divisor":d.to_string()}),
                                    format!("result {} but 2^{}*{}/{} = {:.3} (tolerance: max(1%, iterations/2^cap) + 3 units)", gotq, cap, n, d, exact),
                                );
                            } else {
                                out.oracle_ok();
                            }
                        }
                        let e = worst.entry(format!("goldschmidt(rel err, quotient>=100) cap={}", cap)).or_insert_with(Worst::new);
                        e.upd(wr.v, wr.at);
                        let e = worst.entry(format!("goldschmidt(abs err - rel tol, units) cap={}", cap)).or_insert_with(Worst::new);
                        e.upd(wa.v, wa.at);
                    }
                }
                Outcome::Err => { out.case("goldschmidt_division", format!("goldschmidt_division {} {} {} {} None 1 1", w, sgb(st), iters, cap), "Err".into(), input, true); }
                Outcome::Panic => { out.case("goldschmidt_division", format!("goldschmidt_division {} {} {} {} None 1 1", w, sgb(st), iters, cap), "Panic".into(), input, true); }
            }
        }
    }
    // iterations = 0 (0..iterations-1 underflows), cap = 0
    for &(cap, iters) in [(10u64, 0u64), (0, 3)].iter() {
        let r = eval_op(|| CustomOperation::new(GoldschmidtDivision { iterations: iters, denominator_cap_2k: cap }), INT64, &[vec![10, 20], vec![3, 7]]);
        out.stat(&format!("goldschmidt-edge cap={} it={}:{}", cap, iters, r.tag()));
        let input = json!({"op":"GoldschmidtDivision","cap":cap,"iterations":iters,"edge":true});
        let lhs = format!("map (fun q => goldschmidt_division 64 true {} {} None (fst q) (snd q)) [(10, 3); (20, 7)]", iters, cap);
        match r {
            Outcome::Ok((res, _)) => { out.case("goldschmidt_division", lhs, list(&res, |x| format!("Ok {}", x)), input, true); }
            Outcome::Err => { out.case("goldschmidt_division", lhs, "[Err; Err]".into(), input, true); }
            Outcome::Panic => { out.case("goldschmidt_division", lhs, "[Panic; Panic]".into(), input, true); }
        }
    }
}

fn run_fixed_multiply(tier: &str, rng: &mut Rng, out: &mut Out) {
    let npts = if tier == "quick" { 96 } else { 960 };
    for &p in [0u64, 1, 10, 15, 30, 40].iter() {
        let mut xs: Vec<u128> = vec![];
        let mut ys: Vec<u128> = vec![];
        for i in 0..npts {
            let (x, y): (i64, i64) = match i % 4 {
                0 => (rng.range(-(1 << 20), 1 << 20), rng.range(-(1 << 20), 1 << 20)),
                1 => (rng.range(-(1 << 31), 1 << 31), rng.range(-(1 << 31), 1 << 31)),
                2 => (rng.next() as i64, rng.next() as i64), // product wraps
                _ => (*rng.pick(&[0i64, 1, -1, i64::MIN, i64::MAX, 1 << 31, -(1 << 31), (1 << p as i64) - 1, -(1 << p as i64)]), rng.range(-5, 5)),
            };
            xs.push(x as u64 as u128);
            ys.push(y as u64 as u128);
        }
        let r = eval_op(|| CustomOperation::new(FixedMultiply { config: FixedPrecisionConfig { fractional_bits: p, debug: false } }), INT64, &[xs.clone(), ys.clone()]);
        out.stat(&format!("fixed_multiply:{}", r.tag()));
        let input = json!({"op":"FixedMultiply","fractional_bits":p});
        if let Outcome::Ok((res, _)) = r {
            let f = format!("fun q => Ok (multiply_fixed_point 64 true (fst q) (snd q) {})", p);
            let pts: Vec<String> = xs.iter().zip(ys.iter()).map(|(x, y)| format!("({}, {})", x, y)).collect();
            emit_chunks(out, "multiply_fixed_point", &f, &pts, &res, input.clone(), true);
            // oracle: x*y/2^p rounded toward zero whenever the product fits i64
            for i in 0..xs.len() {
                let (x, y) = (xs[i] as u64 as i64 as i128, ys[i] as u64 as i64 as i128);
                let pr = x * y;
                if pr >= i64::MIN as i128 && pr <= i64::MAX as i128 {
                    let e = pr / (1i128 << p);
                    if e != res[i] as u64 as i64 as i128 {
                        out.violation("fixed-multiply", json!({"x":x.to_string(),"y":y.to_string(),"p":p}), format!("got {} expected {}", res[i] as u64 as i64, e));
                    } else {
                        out.oracle_ok();
                    }
                }
            }
        } else {
            out.violation("fixed-multiply-fails", input, "FixedMultiply failed to instantiate or evaluate".into());
        }
    }
}

// ------------------------------------------------------------------------------- Taylor exponent
fn run_taylor(tier: &str, rng: &mut Rng, out: &mut Out, worst: &mut std::collections::BTreeMap<String, Worst>) {
    let npts = if tier == "quick" { 200 } else { 4000 };
    let mut cfgs: Vec<(u64, u64)> = vec![(5, 10), (5, 4), (5, 15), (5, 0), (3, 8)];
    if tier != "quick" {
        cfgs.extend([(5, 1), (5, 6), (5, 12), (5, 13), (5, 14), (8, 10), (1, 10), (0, 10), (2, 15), (5, 16)]);
    }
    for &(terms, p) in cfgs.iter() {
        let input = json!({"op":"TaylorExponent","taylor_terms":terms,"fixed_precision_points":p});
        // the two f64-derived constants, with the expressions of taylor_exponent.rs:87,137
        let c1 = (((1u64 << p.min(62)) as f64) / 2.0_f64.ln()) as u64;
        let c2 = (2_f64.ln() * ((1u64 << p.min(62)) as f64)) as u64;
        let one = (1u64 << p.min(62)) as f64;
        // documented use: |x| <= 10 (tests: 10000/1024), and exp(x) 2^p below 2^31
        let hi_real = f64::min(10.0, (30.0 - p as f64) * 2.0_f64.ln());
        let (lo_i, hi_i) = ((-10.0 * one) as i64, (hi_real * one) as i64);
        let mut pts: Vec<i64> = vec![lo_i, lo_i + 1, -1, 0, 1, hi_i - 1, hi_i];
        // integer boundaries of x / ln 2 (where the integer/fraction split changes)
        for k in -14i64..=14 {
            let b = (k as f64 * 2.0_f64.ln() * one) as i64;
            for x in [b - 1, b, b + 1] {
                if x >= lo_i && x <= hi_i {
                    pts.push(x);
                }
            }
        }
        while pts.len() < npts {
            pts.push(rng.range(lo_i, hi_i));
        }
        pts.sort();
        pts.dedup();
        let ndom = pts.len();
        // tie only: below -10, above the representable range, extremes
        for x in [lo_i - 1, lo_i - (one as i64), 2 * lo_i, hi_i + 1, 2 * hi_i + 3, 40 * (one as i64), i64::MAX, i64::MIN, i64::MIN + 1, -1i64 << 40, 1i64 << 40] {
            pts.push(x);
        }
        for _ in 0..10 {
            pts.push(rng.next() as i64);
        }
        let words: Vec<u128> = pts.iter().map(|x| *x as u64 as u128).collect();
        let r = eval_op(|| CustomOperation::new(TaylorExponent { taylor_terms: terms, fixed_precision_points: p }), INT64, &[words.clone()]);
        out.stat(&format!("taylor:{}", r.tag()));
        match r {
            Outcome::Ok((res, _)) => {
                let f = format!("taylor_exponent {} {} {} {}", terms, p, c1, c2);
                let spts: Vec<String> = words.iter().map(|x| x.to_string()).collect();
                emit_chunks(out, "taylor_exponent", &f, &spts, &res, input.clone(), true);
                if terms >= 5 && p == 0 {
                    // documented by test_exp_integer: with zero precision the op computes 2^x exactly
                    for i in 0..ndom {
                        let x = pts[i];
                        if (0..=10).contains(&x) {
                            if res[i] as u64 as i64 != 1i64 << x {
                                out.violation("taylor-exponent-p0", json!({"op":"TaylorExponent","taylor_terms":terms,"fixed_precision_points":0,"x":x}), format!("got {} expected 2^{}", res[i] as u64 as i64, x));
                            } else {
                                out.oracle_ok();
                            }
                        }
                    }
                } else if terms >= 5 {
                    let wk = format!("taylor_exp(abs err - 1%, units) p={}", p);
                    for i in 0..ndom {
                        let x = pts[i] as f64 / one;
                        let exact = x.exp() * one;
                        let got = res[i] as u64 as i64;
                        // tests (p = 10 only): |expected - actual| / (1 + max(expected, actual)) <= 0.01, expected = trunc(exp(x) 2^p)
                        let e = exact as i64;
                        let rel = ((e - got).abs() as f64) / (1.0 + f64::max(e as f64, got as f64));
                        if rel > 0.01 && p == 10 {
                            out.stat("taylor-exceeds-unit-test-tolerance");
                        }
                        // tolerance: 1% relative plus 2 units, enforced at the tests' precision 10; other precisions have no
                        // documented tolerance (the constants 1/ln 2, ln 2 are quantised to p bits, and the cutoff compares
                        // x/ln 2 with -10): exceedances are counted and the worst error is printed, not failed
                        let excess = (got as f64 - exact).abs() - 0.01 * exact;
                        worst.entry(wk.clone()).or_insert_with(Worst::new).upd(excess, format!("x={} got={} exact={:.3}", pts[i], got, exact));
                        if excess > 2.0 {
                            if p == 10 {
                                out.violation("taylor-exponent-tolerance", json!({"op":"TaylorExponent","taylor_terms":terms,"fixed_precision_points":p,"x":pts[i]}), format!("got {} exact {:.3}: beyond 1% + 2 units", got, exact));
                            } else {
                                out.stat(&format!("taylor-beyond-1pct-2units p={}", p));
                                if got == 0 && x > -10.0 {
                                    out.stat(&format!("taylor-zeroed-above-minus-10 p={}", p));
                                }
                            }
                        } else {
                            out.oracle_ok();
                        }
                    }
                }
            }
            Outcome::Err => { out.case("taylor_exponent", format!("taylor_exponent {} {} {} {} 0", terms, p, c1, c2), "Err".into(), input, true); }
            Outcome::Panic => { out.case("taylor_exponent", format!("taylor_exponent {} {} {} {} 0", terms, p, c1, c2), "Panic".into(), input, true); }
        }
    }
}

// ------------------------------------------------------------------------------- piecewise-linear ops
#[derive(Clone, Copy, PartialEq, Debug)]
enum Pwl {
    Exp,
    Sigmoid,
    Gelu,
}
impl Pwl {
    fn name(&self) -> &'static str {
        match self {
            Pwl::Exp => "exp",
            Pwl::Sigmoid => "sigmoid",
            Pwl::Gelu => "gelu",
        }
    }
    /// (left, right, flatten_left, flatten_right) as in approx_{exponent,sigmoid,gelu}.rs
    fn params(&self) -> (f32, f32, bool, bool) {
        match self {
            Pwl::Exp => (-16.0, 16.0, true, false),
            Pwl::Sigmoid => (-8.0, 8.0, true, true),
            Pwl::Gelu => (-4.0, 4.0, true, false),
        }
    }
    fn op(&self, p: u64, lb: u64) -> CustomOperation {
        match self {
            Pwl::Exp => CustomOperation::new(ApproxExponent { precision: p }),
            Pwl::Sigmoid => CustomOperation::new(ApproxSigmoid { precision: p, approximation_log_buckets: lb }),
            Pwl::Gelu => CustomOperation::new(ApproxGelu { precision: p, approximation_log_buckets: lb }),
        }
    }
    /// the f32 function handed to create_approximation (copied from the op's source)
    fn f32(&self, x: f32) -> f32 {
        match self {
            Pwl::Exp => x.exp(),
            Pwl::Sigmoid => 1.0 / (1.0 + (-x).exp()),
            Pwl::Gelu => {
                let tanh_arg = (2.0 / std::f32::consts::PI).sqrt() * (x + 0.044715 * x * x * x);
                let ex = tanh_arg.exp();
                let emx = (-tanh_arg).exp();
                let tanh = (ex - emx) / (ex + emx);
                0.5 * x * (1.0 + tanh)
            }
        }
    }
    /// the exact real function, in f64 (GeLU: the tanh form the code targets, no erf in std)
    fn f64(&self, x: f64) -> f64 {
        match self {
            Pwl::Exp => x.exp(),
            Pwl::Sigmoid => 1.0 / (1.0 + (-x).exp()),
            Pwl::Gelu => 0.5 * x * (1.0 + ((2.0 / std::f64::consts::PI).sqrt() * (x + 0.044715 * x * x * x)).tanh()),
        }
    }
}

struct Tables {
    alphas: Vec<i64>,
    betas: Vec<i64>,
    left_fp: i64,
    divisor: u128,
    last_scale: u128,
}

/// Read the PWL tables back from the instantiated context: the INT64 array constants (alphas,
/// betas in creation order), the INT64 scalar constant (left), the Truncate scales.
fn extract_tables(ctx: &Context) -> Option<Tables> {
    let mut arrays: Vec<Vec<i64>> = vec![];
    let mut scalars: Vec<i64> = vec![];
    let mut truncs: Vec<u128> = vec![];
    for g in ctx.get_graphs() {
        for n in g.get_nodes() {
            match n.get_operation() {
                Operation::Constant(t, v) => {
                    if t.is_array() && t.get_scalar_type() == INT64 {
                        arrays.push(v.to_flattened_array_i64(t).ok()?);
                    } else if t.is_scalar() && t.get_scalar_type() == INT64 {
                        scalars.push(v.to_i64(INT64).ok()?);
                    }
                }
                Operation::Truncate(s) => truncs.push(s),
                _ => {}
            }
        }
    }
    if arrays.len() != 2 || scalars.len() != 1 || truncs.len() != 2 {
        return None;
    }
    Some(Tables { alphas: arrays[0].clone(), betas: arrays[1].clone(), left_fp: scalars[0], divisor: truncs[0], last_scale: truncs[1] })
}

fn zl(xs: &[i64]) -> String {
    list(xs, |x| z_i128(*x as i128))
}

/// which (op, precision, log_buckets) have committed tables with interval proofs
const COMMITTED: [(Pwl, u64, u64); 6] = [
    (Pwl::Exp, 10, 6),
    (Pwl::Exp, 15, 6),
    (Pwl::Sigmoid, 10, 5),
    (Pwl::Sigmoid, 15, 5),
    (Pwl::Gelu, 10, 5),
    (Pwl::Gelu, 15, 5),
];
fn pwl_points(rng: &mut Rng, t: &Tables, lb: u64, npts: usize) -> (Vec<i64>, usize) {
    // documented domain [left, right]: every breakpoint and its neighbours, then uniform;
    // then (tie only) the outside: the two outer segments, far values, extremes
    let div = t.divisor as i64;
    let nseg = 1i64 << lb;
    let right = t.left_fp + nseg * div;
    let mut v: Vec<i64> = vec![];
    let stride = std::cmp::max(1, (3 * (nseg as usize + 1)) / (npts / 2).max(1)) as i64;
    let mut i = 0;
    while i <= nseg {
        let b = t.left_fp + i * div;
        for x in [b - 1, b, b + 1] {
            if x >= t.left_fp && x <= right {
                v.push(x);
            }
        }
        i += stride;
    }
    v.push(right);
    v.push(right - 1);
    while v.len() < npts {
        v.push(rng.range(t.left_fp, right));
    }
    v.sort();
    v.dedup();
    let ndom = v.len();
    for x in [t.left_fp - 1, t.left_fp - div / 2, t.left_fp - div + 1, t.left_fp - div, t.left_fp - div - 1, t.left_fp - 3 * div, right + 1, right + div, right + 5 * div, i64::MIN, i64::MIN + 1, i64::MAX, -1i64 << 40, 1i64 << 40] {
        v.push(x);
    }
    for _ in 0..8 {
        v.push(rng.range(t.left_fp - 4 * div, t.left_fp - 1));
        v.push(rng.range(right + 1, right + 4 * div));
    }
    // the documented continuation outside the segment: several segment widths away on both sides
    let w = nseg * div;
    for k in 0..12i64 {
        v.push(rng.range(right + 1 + (k % 6) * w / 2, right + (k % 6 + 1) * w / 2));
        v.push(rng.range(t.left_fp - (k % 6 + 1) * w / 2, t.left_fp - 1 - (k % 6) * w / 2));
    }
    for k in [8i64, 21, 50] {
        v.push(right + k * w + rng.range(0, w));
        v.push(t.left_fp - k * w - rng.range(0, w));
    }
    (v, ndom)
}

fn run_pwl(tier: &str, rng: &mut Rng, out: &mut Out, worst: &mut std::collections::BTreeMap<String, Worst>) {
    let npts = if tier == "quick" { 200 } else { 4000 };
    let mut cfgs: Vec<(Pwl, u64, u64)> = COMMITTED.to_vec();
    cfgs.extend([(Pwl::Exp, 4, 6), (Pwl::Sigmoid, 4, 5), (Pwl::Gelu, 4, 5), (Pwl::Sigmoid, 12, 4), (Pwl::Gelu, 12, 6)]);
    if tier != "quick" {
        cfgs.extend([(Pwl::Exp, 1, 6), (Pwl::Exp, 12, 6), (Pwl::Exp, 17, 6), (Pwl::Sigmoid, 1, 5), (Pwl::Sigmoid, 20, 5), (Pwl::Sigmoid, 30, 5), (Pwl::Sigmoid, 15, 6), (Pwl::Gelu, 2, 5), (Pwl::Gelu, 20, 5), (Pwl::Gelu, 30, 5), (Pwl::Gelu, 15, 4), (Pwl::Sigmoid, 15, 1), (Pwl::Sigmoid, 10, 8)]);
    }
    for &(kind, p, lb) in cfgs.iter() {
        let committed = COMMITTED.iter().any(|(k, cp, clb)| *k == kind && *cp == p && *clb == lb);
        let input = json!({"op": kind.name(), "precision": p, "log_buckets": lb});
        // first instantiate on a dummy point to get the tables
        let r0 = eval_op(|| kind.op(p, lb), INT64, &[vec![0u128]]);
        out.stat(&format!("pwl-instantiate {}:{}", kind.name(), r0.tag()));
        let ctx = match r0 {
            Outcome::Ok((_, ctx)) => ctx,
            _ => {
                out.violation("pwl-instantiate", input, "PWL op failed to instantiate for a documented precision".into());
                continue;
            }
        };
        let t = match extract_tables(&ctx) {
            Some(t) => t,
            None => {
                out.violation("pwl-extract", input, "could not locate the PWL tables in the instantiated graph (shape of create_approximation changed)".into());
                continue;
            }
        };
        let tname = format!("{}_p{}", kind.name(), p);
        if committed {
            // T: the tables the interval theorems talk about are the tables the code has now
            out.case("T:tables_eq", format!("({t}_alphas, {t}_betas, {t}_left, {t}_divisor, {t}_lb)", t = tname),
                format!("({}, {}, {}, {}, {})", zl(&t.alphas), zl(&t.betas), z_i128(t.left_fp as i128), t.divisor, lb), input.clone(), true);
        }
        // integer post-processing of the sampled control points (xs, ys recomputed with the same f32 code)
        let (left, right, fl, fr) = kind.params();
        let scale = 1i64 << lb;
        let (mut xs, mut ys) = (vec![], vec![]);
        for i in -1..(scale + 2) {
            let x = left + (right - left) * (i as f32) / (scale as f32);
            let y = kind.f32(x);
            xs.push((x * ((1i64 << p) as f32)) as i64);
            ys.push((y * ((1i64 << p) as f32)) as i64);
        }
        out.case("pwl_tables_of", format!("pwl_tables_of {} {} {} {} {}", p, fl, fr, zl(&xs), zl(&ys)),
            format!("Ok ({}, {})", zl(&t.alphas), zl(&t.betas)), input.clone(), true);
        if t.last_scale != 1u128 << p {
            out.violation("pwl-extract", input.clone(), "final Truncate scale is not 2^precision".into());
        }
        // sweep
        let (pts, ndom) = pwl_points(rng, &t, lb, npts);
        let words: Vec<u128> = pts.iter().map(|x| *x as u64 as u128).collect();
        let r = eval_op(|| kind.op(p, lb), INT64, &[words.clone()]);
        let res = match r {
            Outcome::Ok((res, _)) => res,
            _ => {
                out.violation("pwl-evaluate", input, "PWL op failed to evaluate".into());
                continue;
            }
        };
        let f = format!("pwl_eval {} {} {} {} {} {}", p, lb, zl(&t.alphas), zl(&t.betas), z_i128(t.left_fp as i128), t.divisor);
        let spts: Vec<String> = words.iter().map(|x| x.to_string()).collect();
        emit_chunks(out, "pwl_eval", &f, &spts, &res, input.clone(), true);
        // oracle on the documented domain
        let one = (1u64 << p) as f64;
        let wk = format!("{}(abs err) p={} lb={}", kind.name(), p, lb);
        for i in 0..ndom {
            let x = pts[i] as f64 / one;
            let got = res[i] as u64 as i64;
            let exact = kind.f64(x);
            match kind {
                Pwl::Exp => {
                    // tests: |expected - actual| / (1 + max(expected, actual)) <= 0.05 in units of 2^-p, expected = trunc(exp(x) 2^p)
                    let e = (exact * one) as i64;
                    let rel = ((e - got).abs() as f64) / (1.0 + f64::max(e as f64, got as f64));
                    if rel > 0.05 && x.abs() <= 10000.0 / 1024.0 {
                        out.stat("exp-exceeds-unit-test-tolerance");
                    }
                    // tolerance: 5% relative plus 2 units (values of a unit or two cannot be met relatively)
                    let excess = (got as f64 - exact * one).abs() - 0.05 * exact * one;
                    worst.entry(format!("exp(abs err - 5%, units) p={}", p)).or_insert_with(Worst::new).upd(excess, format!("x={} got={} exact={:.3}", pts[i], got, exact * one));
                    worst.entry(format!("exp(rel err where exact>=100 units) p={}", p)).or_insert_with(Worst::new).upd(if exact * one >= 100.0 { (got as f64 - exact * one).abs() / (exact * one) } else { 0.0 }, format!("x={} got={} exact={:.3}", pts[i], got, exact * one));
                    if excess > 2.0 {
                        out.violation("approx-exponent-tolerance", json!({"op":"ApproxExponent","precision":p,"x":pts[i]}), format!("got {} exact {:.3}: beyond 5% + 2 units", got, exact * one));
                    } else {
                        out.oracle_ok();
                    }
                }
                Pwl::Sigmoid | Pwl::Gelu => {
                    // tests: absolute error <= 0.01; source comments: 0.0045 (sigmoid), 0.0059 (gelu) for log_buckets = 5
                    let err = (got as f64 / one - exact).abs();
                    worst.entry(wk.clone()).or_insert_with(Worst::new).upd(err, format!("x={} got={} exact={:.6}", pts[i], got, exact * one));
                    let tol = if lb >= 5 { 0.01 } else { 0.01 * (1u64 << (2 * (5 - lb))) as f64 };
                    // very low precisions cannot represent the function to 0.01: allow 2 ulps
                    let tol = tol + 2.0 / one;
                    if err > tol {
                        out.violation(if kind == Pwl::Sigmoid { "approx-sigmoid-tolerance" } else { "approx-gelu-tolerance" },
                            json!({"op":kind.name(),"precision":p,"log_buckets":lb,"x":pts[i]}), format!("got {} exact {:.4} abs err {:.5} > {:.5}", got, exact * one, err, tol));
                    } else {
                        out.oracle_ok();
                    }
                }
            }
        }
        // oracle on the documented continuation outside the segment (approx_pointwise.rs: constant
        // where flattened, the outermost line otherwise), up to 64 segment widths away: sigmoid is
        // flattened on both sides, GeLU on the left (and continues with slope ~1 on the right),
        // the exponent on the left
        let (lreal, rreal) = (left as f64, right as f64);
        let width = rreal - lreal;
        for i in ndom..pts.len() {
            let x = pts[i] as f64 / one;
            if x < lreal - 64.0 * width || x > rreal + 64.0 * width { continue; }
            // the line alpha * x + beta is evaluated in 64-bit words: inputs on which that product
            // leaves the word (high precisions, far inputs) are outside what the format can carry
            let amax = t.alphas.iter().map(|a| a.unsigned_abs()).max().unwrap_or(0) as f64;
            let bmax = t.betas.iter().map(|b| b.unsigned_abs()).max().unwrap_or(0) as f64;
            if (pts[i] as f64).abs() * amax + bmax >= 4.0e18 { out.stat("pwl-outside-segment-skipped-word-overflow"); continue; }
            let got = res[i] as u64 as i64;
            let exact = kind.f64(x);
            let base_tol = (if lb >= 5 { 0.01 } else { 0.01 * (1u64 << (2 * (5 - lb))) as f64 }) + 2.0 / one;
            let verdict: Option<(f64, f64)> = match kind {
                Pwl::Sigmoid => Some(((got as f64 / one - exact).abs(), base_tol)),
                Pwl::Gelu if x < lreal => Some(((got as f64 / one - exact).abs(), base_tol)),
                // right of the segment: the secant through the last two control points (4 and
                // 4 + 8/2^lb), whose slope differs from 1 by less than 1e-3, rounded to 2^-p
                Pwl::Gelu => Some(((got as f64 / one - exact).abs(), base_tol + (1e-3 + 2.0 / one) * x.abs())),
                Pwl::Exp if x < lreal => Some(((got as f64 - exact * one).abs() - 0.05 * exact * one, 2.0)),
                Pwl::Exp => None,
            };
            if let Some((err, tol)) = verdict {
                out.stat("pwl-outside-segment-oracle");
                if err > tol {
                    out.violation(&format!("approx-{}-continuation-tolerance", kind.name()),
                        json!({"op":kind.name(),"precision":p,"log_buckets":lb,"x":pts[i]}), format!("outside the segment: got {} exact {:.4} err {:.5} > {:.5}", got, exact * one, err, tol));
                } else {
                    out.oracle_ok();
                }
            }
        }
    }
}

// ------------------------------------------------------------------------------- compiled smoke test
/// thorough tier only: the compiled (MPC, evaluated by one evaluator) version of three ops on a
/// handful of points agrees with the plaintext evaluation up to a few units of truncation error.
fn run_compiled_smoke(out: &mut Out) {
    let cases: Vec<(&str, Box<dyn Fn() -> CustomOperation>, ScalarType, Vec<i64>, i64)> = vec![
        ("NewtonInversion(5,10)", Box::new(|| CustomOperation::new(NewtonInversion { iterations: 5, denominator_cap_2k: 10 })), INT64, vec![1, 3, 123, 700], 3),
        ("ApproxSigmoid(p=10)", Box::new(|| CustomOperation::new(ApproxSigmoid { precision: 10, approximation_log_buckets: 5 })), INT64, vec![-3000, -1, 700, 5000], 3),
        ("FixedMultiply(10) by itself", Box::new(|| CustomOperation::new(FixedMultiply { config: FixedPrecisionConfig { fractional_bits: 10, debug: false } })), INT64, vec![-3000, 5, 70000, 1 << 20], 2),
    ];
    for (name, mk, st, xs, tol) in cases.into_iter() {
        let two_args = name.starts_with("FixedMultiply");
        let words: Vec<u128> = xs.iter().map(|x| *x as u64 as u128).collect();
        let plain = eval_op(|| mk(), st, &if two_args { vec![words.clone(), words.clone()] } else { vec![words.clone()] });
        let n = words.len() as u64;
        let t = array_type(vec![n], st);
        let w2 = words.clone();
        let compiled = observe(AssertUnwindSafe(|| {
            let c = simple_context(|g| {
                let i = g.input(t.clone())?;
                if two_args {
                    g.custom_op(mk(), vec![i.clone(), i])
                } else {
                    g.custom_op(mk(), vec![i])
                }
            })?;
            let cfg = InlineConfig { default_mode: InlineMode::DepthOptimized(DepthOptimizationLevel::Default), ..Default::default() };
            let inst = run_instantiation_pass(c)?.get_context();
            let inl = inline_operations(&inst, cfg.clone())?.get_context();
            let comp = prepare_for_mpc_evaluation(&inl, vec![vec![IOStatus::Party(0)]], vec![vec![IOStatus::Party(0)]], cfg)?.get_context();
            // fixed PRNG seeds: the check is deterministic
            let mut rs = vec![];
            for sd in 0..6u8 {
                let r = ciphercore_base::evaluators::evaluate_simple_evaluator(comp.get_main_graph()?, vec![Value::from_flattened_array(&w2, st)?], Some([sd.wrapping_mul(37).wrapping_add(1); 16]))?;
                rs.push(r.to_flattened_array_u128(t.clone())?);
            }
            Ok(rs)
        }));
        out.stat(&format!("compiled-smoke {}:{}", name, compiled.tag()));
        match (plain, compiled) {
            (Outcome::Ok((p, pctx)), Outcome::Ok(cs)) => {
                // The secure truncation that selects the bucket of a piecewise-linear operation
                // returns floor or floor + 1 (ABY3 probabilistic truncation, property C05), so the
                // neighbouring segment's line may be evaluated: the propagated truncation error
                // is at most max_i |alpha[i+1] - alpha[i]| * divisor / 2^p units.
                let tol = if name.starts_with("ApproxSigmoid") {
                    match extract_tables(&pctx) {
                        Some(tb) => { let d = tb.alphas.windows(2).map(|w| (w[1] - w[0]).abs()).max().unwrap_or(0) as i128; tol + ((d * tb.divisor as i128) >> 10) as i64 + 1 }
                        None => tol,
                    }
                } else { tol };
                for c in cs.iter() {
                    for i in 0..p.len() {
                        let (a, b) = (p[i] as u64 as i64, c[i] as u64 as i64);
                        if (a - b).abs() > tol {
                            out.violation("compiled-vs-plaintext", json!({"op":name,"x":xs[i]}), format!("plaintext {} compiled {} (allowed truncation error {})", a, b, tol));
                        } else {
                            out.oracle_ok();
                        }
                    }
                }
            }
            _ => out.violation("compiled-fails", json!({"op":name}), "compilation or evaluation of the compiled op failed".into()),
        }
    }
}

/// (relative, absolute numerator, absolute denominator or 0 for 2^p) claimed per op in the interval theorems
fn claimed_tolerance(kind: Pwl, p: u64) -> (&'static str, u64, u64) {
    match kind {
        Pwl::Exp => ("4/100", 1, 1u64 << p),
        Pwl::Sigmoid => ("0", 45, 10000),
        Pwl::Gelu => ("0", 7, 1000),
    }
}
fn zc(x: i128) -> String {
    z_i128(x)
}

/// `tier = gen`: regenerate the committed Coq files that depend on the tables the Rust code builds now
/// (Model/PwlData.v, Proofs/PwlTables_<op>_p<precision>.v, Proofs/PwlTotal.v).  Not part of a check run:
///   harness/target/debug/ccverif C20 gen 0 /tmp/gen.jsonl
///   python3 -c "import json;[open('coq/'+r['key'][5:],'w').write(r['value']) for r in map(json.loads,open('/tmp/gen.jsonl')) if r.get('t')=='note' and r['key'].startswith('file:')]"
fn gen_data(out: &mut Out) {
    let mut data = String::new();
    data.push_str("(* Generated by `ccverif C20 gen 0 <out>` (harness/src/c20.rs gen_data) from the tables the\n   Rust code builds now; compared with the tables extracted on every run (T:tables_eq). *)\nFrom CC Require Import Base.Prelude.\n");
    let mut total = String::new();
    total.push_str("(* Generated (harness/src/c20.rs, tier gen): (a)+(b) combined for each committed table: the output\n   word of the integer evaluation is within rel*f + abs + 2^-p of the exact function, at every\n   input of the table's range. *)\nFrom Coq Require Import Reals.\nFrom CC Require Import Base.Prelude Model.Fixed Model.PwlData Proofs.FixedBits Proofs.FixedPwl Proofs.PwlReal.\nFrom CC Require Import");
    for (k, p, _) in COMMITTED.iter() {
        total.push_str(&format!(" Proofs.PwlTables_{}_p{}", k.name(), p));
    }
    total.push_str(".\nOpen Scope R_scope.\n");
    for (k, p, lb) in COMMITTED.iter() {
        let kind = *k;
        let (p, lb) = (*p, *lb);
        let (_, ctx) = eval_op(|| kind.op(p, lb), INT64, &[vec![0u128]]).ok().expect("instantiate");
        let t = extract_tables(&ctx).expect("tables");
        let n = format!("{}_p{}", kind.name(), p);
        data.push_str(&format!("Definition {}_alphas : list Z := {}.\nDefinition {}_betas : list Z := {}.\nDefinition {}_left : Z := {}.\nDefinition {}_divisor : Z := {}.\nDefinition {}_lb : Z := {}.\n",
            n, zl(&t.alphas), n, zl(&t.betas), n, z_i128(t.left_fp as i128), n, t.divisor, n, lb));
        let (rel, an, ad) = claimed_tolerance(kind, p);
        let one: i128 = 1 << p;
        let one2: i128 = 1 << (2 * p);
        let nseg: i128 = 1 << lb;
        let (l, d) = (t.left_fp as i128, t.divisor as i128);
        // per-segment interval lemmas + the table lemma
        let mut f = String::new();
        f.push_str(&format!("(* Generated (harness/src/c20.rs, tier gen): interval proofs for the committed table {}. *)\nFrom Coq Require Import Reals.\nFrom Interval Require Import Tactic.\nFrom CC Require Import Base.Prelude Model.PwlData Proofs.PwlReal.\nOpen Scope R_scope.\n\n", n));
        for i in 1..=nseg {
            let lo = l + (i - 1) * d - if i == 1 { d } else { 0 };
            let hi = l + i * d;
            f.push_str(&format!("Lemma {}_seg{} : seg_bound {}_fn ({}) ({}/{}) {} {} {} {} {} {}.\n", n, i, kind.name(), rel, an, ad, one, one2, zc(lo), zc(hi), zc(t.alphas[i as usize] as i128), zc(t.betas[i as usize] as i128)));
            f.push_str(&format!("Proof. unfold seg_bound, {}_fn. intros x Hx; apply Rabs_le; split; apply Rminus_le; interval with (i_bisect x, i_taylor x, i_prec 53). Qed.\n", kind.name()));
        }
        f.push_str(&format!("\nLemma {n}_table : table_bound {k}_fn ({rel}) ({an}/{ad}) {p} {n}_lb {n}_left {n}_divisor {n}_alphas {n}_betas.\nProof.\n  unfold table_bound. intros i a b Hi Ha Hb.\n  change (2 ^ {n}_lb)%Z with {nseg}%Z in Hi.\n", n = n, k = kind.name(), rel = rel, an = an, ad = ad, p = p, nseg = nseg));
        let disj: Vec<String> = (1..=nseg).map(|k| format!("i = {}", k)).collect();
        f.push_str(&format!("  assert (Hc : ({})%Z) by lia.\n", disj.join(" \\/ ")));
        for k in 1..=nseg {
            let tac = format!("subst i; vm_compute in Ha, Hb; injection Ha as <-; injection Hb as <-; exact {}_seg{}", n, k);
            if k < nseg {
                f.push_str(&format!("  destruct Hc as [Hc|Hc]; [{}|].\n", tac));
            } else {
                f.push_str(&format!("  {}.\n", tac));
            }
        }
        f.push_str("Qed.\n");
        out.note(&format!("file:Proofs/PwlTables_{}.v", n), json!(f));
        // the combined lemma
        let amax = t.alphas.iter().map(|a| (*a as i128).abs()).max().unwrap();
        let bmax = t.betas.iter().map(|b| (*b as i128).abs()).max().unwrap();
        let (lo, hi) = (l - d, l + nseg * d);
        let xmax = std::cmp::max(lo.abs(), hi.abs());
        assert!(amax * xmax + bmax < (1i128 << 63));
        total.push_str(&format!(r#"
Lemma {n}_total : forall x out, word x -> ({lo} < sv 64 x < {hi})%Z ->
  pwl_eval {p} {lb} {n}_alphas {n}_betas {n}_left {n}_divisor x = Ok out ->
  Rabs (IZR (sv 64 out) / {one} - {k}_fn (IZR (sv 64 x) / {one}))
  <= {rel} * {k}_fn (IZR (sv 64 x) / {one}) + {an}/{ad} + 1/{one}.
Proof.
  intros x out Hx Hd He.
  assert (H1 : (0 <= {p})%Z) by lia. assert (H2 : (0 < {lb} < 62)%Z) by lia.
  assert (H3 : table_small {n}_alphas {n}_betas {amax} {bmax} = true) by (vm_compute; reflexivity).
  assert (H4 : (0 <= {xmax})%Z) by lia.
  assert (H5 : ({amax} * {xmax} + {bmax} < 2 ^ 63)%Z) by (vm_compute; reflexivity).
  assert (H6 : ({n}_left - {n}_divisor < sv 64 x < {n}_left + 2 ^ {lb} * {n}_divisor)%Z).
  {{ unfold {n}_left, {n}_divisor. change (2 ^ {lb})%Z with {nseg}%Z. lia. }}
  assert (H7 : (Z.abs (sv 64 x) <= {xmax})%Z) by lia.
  assert (H8 : (- 2 ^ 63 <= sv 64 x - {n}_left < 2 ^ 63)%Z).
  {{ unfold {n}_left. change (2 ^ 63)%Z with 9223372036854775808%Z. lia. }}
  exact (pwl_total {k}_fn ({rel}) ({an}/{ad}) {p} {lb} {n}_alphas {n}_betas {n}_left {n}_divisor
           {amax} {bmax} {xmax} H1 H2 {n}_table H3 H4 H5 x out Hx H6 H7 H8 He).
Qed.
"#, n = n, k = kind.name(), lo = lo, hi = hi, p = p, lb = lb, one = one, rel = rel, an = an, ad = ad, amax = amax, bmax = bmax, xmax = xmax, nseg = nseg));
    }
    out.note("file:Model/PwlData.v", json!(data));
    out.note("file:Proofs/PwlTotal.v", json!(total));
}

pub fn run(tier: &str, seed: u64, out: &mut Out) {
    if tier == "gen" {
        gen_data(out);
        return;
    }
    let mut rng = Rng::new(seed ^ 0xC20);
    let mut worst = std::collections::BTreeMap::new();
    run_pwl(tier, &mut rng, out, &mut worst);
    run_newton(tier, &mut rng, out, &mut worst);
    run_isqrt(tier, &mut rng, out, &mut worst);
    run_goldschmidt(tier, &mut rng, out, &mut worst);
    run_fixed_multiply(tier, &mut rng, out);
    run_taylor(tier, &mut rng, out, &mut worst);
    if tier == "thorough" {
        run_compiled_smoke(out);
    }
    let w: serde_json::Map<String, serde_json::Value> = worst.iter().map(|(k, v)| (k.clone(), json!({"worst": v.v, "at": v.at}))).collect();
    for (k, v) in worst.iter() {
        eprintln!("[C20 worst] {} : {:.6} at {}", k, v.v, v.at);
        // make the worst observed error visible in the evidence (input_distribution)
        out.stat(&format!("worst {} = {:.5}", k, v.v));
    }
    out.note("worst_errors", serde_json::Value::Object(w));
}

//! C05 — secure truncation stays within its documented error.
//!
//! Tie of Model/Trunc.v with mpc_truncate.rs: a one-`Truncate` graph is compiled with
//! `prepare_for_mpc_evaluation` (simple inlining), the fully inlined main graph is evaluated NODE BY
//! NODE here with `SimpleEvaluator::evaluate_node`, so every intermediate value is seen — the three
//! input shares of the protocol and every PRF value it draws (its masks).  The model, fed with the
//! recorded shares and masks, must reproduce the three output shares element by element.
//!
//! How the protocol's nodes are found in the inlined graph (no names survive inlining, so this is by
//! structure; every structural expectation is checked and a mismatch is reported as a violation of
//! class `structure-*`, never silently skipped):
//!  * TruncateMPC2K (scale = 2^k): `r` (mpc_truncate.rs:306) is the only PRF node of the graph whose
//!    key dependency is *directly* a `Random` node (the PRFTruncate key of mpc_compiler.rs:834; all
//!    other keys reach their PRF through NOP/CreateTuple/TupleGet).  The PRF nodes after `r` in node
//!    order are then exactly r0, r_msb0, r_truncated0, y0 (key = TupleGet(0) of the key triple,
//!    :338 three times and :352) and y2 (key = TupleGet(2), :353), in this order — the order of the
//!    `g.prf` calls in `instantiate`; the key index of each is checked.  The node just before `r` is
//!    `x2 = input_node.tuple_get(2)` (:303); its dependency is the shared input tuple, whose value is
//!    the triple of input shares.  The protocol output is the first CreateTuple after y2 whose
//!    dependencies are (y0, _, y2) (:445).  The protocol's seven messages are the NOP nodes annotated
//!    Send between `r` and that tuple; their sender/receiver pattern is checked against :342-:428.
//!    (The output shares do not depend on r0, r_msb0, r_truncated0 — they cancel — so the messages are
//!    compared too: kind `trunc2k_msgs`.)
//!  * TruncateMPC (other scales): its only PRF (:105) is the last PRF node of the graph (input sharing
//!    comes earlier, revealing uses none); the node right after it is `input_node.tuple_get(0)` (:109)
//!    whose dependency is the shared input tuple; the output is the first CreateTuple after it whose
//!    last dependency is that PRF node (:124).
//! Limitation: global (single evaluator) execution only; the three-party executor belongs to C02.
use crate::coqfmt::*;
use crate::gen::*;
use crate::out::Out;
use crate::rng::Rng;
use ciphercore_base::data_types::*;
use ciphercore_base::data_values::Value;
use ciphercore_base::errors::Result;
use ciphercore_base::evaluators::simple_evaluator::SimpleEvaluator;
use ciphercore_base::evaluators::Evaluator;
use ciphercore_base::graphs::util::simple_context;
use ciphercore_base::graphs::{Context, Node, NodeAnnotation, Operation};
use ciphercore_base::inline::inline_ops::{InlineConfig, InlineMode};
use ciphercore_base::mpc::mpc_compiler::{prepare_for_mpc_evaluation, IOStatus};
use serde_json::json;

pub const HEADER: &str = "From CC Require Import Base.Prelude Model.Trunc.";

const INT_ST: [ScalarType; 10] = [UINT8, INT8, UINT16, INT16, UINT32, INT32, UINT64, INT64, UINT128, INT128];

fn mask(w: u32) -> u128 {
    if w == 128 { u128::MAX } else { (1u128 << w) - 1 }
}
/// two's complement reading of a w-bit pattern, as i128 (w = 128 unsigned values above i128::MAX are
/// handled by the callers, which never ask for it)
fn sval(w: u32, signed: bool, x: u128) -> i128 {
    let x = x & mask(w);
    if signed && w < 128 && (x >> (w - 1)) & 1 == 1 {
        (x as i128) - (1i128 << w)
    } else {
        x as i128 // for w = 128 signed this cast is the two's complement reading
    }
}
fn elems(v: &Value, t: &Type) -> Result<Vec<u128>> {
    let st = t.get_scalar_type();
    let w = width(st);
    let raw = if t.is_scalar() { vec![v.to_u128(st)?] } else { v.to_flattened_array_u128(t.clone())? };
    Ok(raw.into_iter().map(|x| x & mask(w)).collect())
}
fn value_of(xs: &[u128], t: &Type) -> Result<Value> {
    let st = t.get_scalar_type();
    if t.is_scalar() { Value::from_scalar(xs[0], st) } else { Value::from_flattened_array(xs, st) }
}
fn owner_name(s: &IOStatus) -> String {
    match s {
        IOStatus::Party(i) => format!("P{}", i),
        IOStatus::Shared => "Shared".into(),
        IOStatus::Public => "Public".into(),
    }
}

struct Run {
    nodes: Vec<Node>,
    vals: Vec<Value>,
}

fn compile(t: &Type, scale: u128, owner: &IOStatus, outs: &[IOStatus]) -> Result<Context> {
    let t2 = t.clone();
    let c = simple_context(|g| {
        let i = g.input(t2)?;
        g.truncate(i, scale)
    })?;
    let cfg = InlineConfig { default_mode: InlineMode::Simple, ..Default::default() };
    Ok(prepare_for_mpc_evaluation(&c, vec![vec![owner.clone()]], vec![outs.to_vec()], cfg)?.get_context())
}

/// instrumented evaluation: every node of the (fully inlined) main graph through evaluate_node
fn eval_all(ctx: &Context, inputs: Vec<Value>, seed: [u8; 16]) -> Result<Run> {
    let g = ctx.get_main_graph()?;
    let mut ev = SimpleEvaluator::new(Some(seed))?;
    ev.preprocess(ctx)?;
    let nodes = g.get_nodes();
    let mut vals: Vec<Value> = vec![];
    let mut input_id = 0;
    for node in nodes.iter() {
        let deps: Vec<Value> = node.get_node_dependencies().iter().map(|d| vals[d.get_id() as usize].clone()).collect();
        let v = match node.get_operation() {
            Operation::Input(_) => {
                input_id += 1;
                inputs[input_id - 1].clone()
            }
            Operation::Call | Operation::Iterate => {
                panic!("main graph is not fully inlined");
            }
            _ => ev.evaluate_node(node.clone(), deps)?,
        };
        vals.push(v);
    }
    Ok(Run { nodes, vals })
}

/// `observe` for closures capturing graph handles (interior mutability: assert unwind safety; a
/// panicking evaluation is only ever reported, its context never reused)
fn observe_u<T, F: FnOnce() -> Result<T>>(f: F) -> Outcome<T> {
    match std::panic::catch_unwind(std::panic::AssertUnwindSafe(f)) {
        Ok(Ok(x)) => Outcome::Ok(x),
        Ok(Err(_)) => Outcome::Err,
        Err(_) => Outcome::Panic,
    }
}

fn is_prf(n: &Node) -> bool {
    matches!(n.get_operation(), Operation::PRF(_, _))
}
/// index i when the key of PRF node n is TupleGet(i) of something
fn key_index(n: &Node) -> Option<u64> {
    match n.get_node_dependencies()[0].get_operation() {
        Operation::TupleGet(i) => Some(i),
        _ => None,
    }
}

struct Found2K {
    input_tuple: usize,
    masks: [usize; 6], // r, r0, r_msb0, r_truncated0, y0, y2
    msgs: Vec<usize>,  // the seven Send-annotated NOP nodes of the protocol, in node order
    output: usize,
}
fn find_2k(run: &Run) -> std::result::Result<Found2K, String> {
    let n = &run.nodes;
    let rs: Vec<usize> = (0..n.len())
        .filter(|&i| is_prf(&n[i]) && matches!(n[i].get_node_dependencies()[0].get_operation(), Operation::Random(_)))
        .collect();
    if rs.len() != 1 {
        return Err(format!("{} PRF nodes keyed directly by a Random node, expected 1", rs.len()));
    }
    let r = rs[0];
    let later: Vec<usize> = (r + 1..n.len()).filter(|&i| is_prf(&n[i])).collect();
    if later.len() != 5 {
        return Err(format!("{} PRF nodes after r, expected 5", later.len()));
    }
    let idx: Vec<Option<u64>> = later.iter().map(|&i| key_index(&n[i])).collect();
    if idx != vec![Some(0), Some(0), Some(0), Some(0), Some(2)] {
        return Err(format!("key indices of the PRF nodes after r are {:?}", idx));
    }
    // all five keys come from the same key triple
    let triple = n[later[0]].get_node_dependencies()[0].get_node_dependencies()[0].get_id();
    if later.iter().any(|&i| n[i].get_node_dependencies()[0].get_node_dependencies()[0].get_id() != triple) {
        return Err("PRF keys after r come from different key tuples".into());
    }
    if r < 2 || !matches!(n[r - 1].get_operation(), Operation::TupleGet(2)) || !matches!(n[r - 2].get_operation(), Operation::TupleGet(1)) {
        return Err("nodes before r are not tuple_get(1), tuple_get(2)".into());
    }
    let d = n[r - 1].get_node_dependencies()[0].get_id();
    if n[r - 2].get_node_dependencies()[0].get_id() != d {
        return Err("x1 and x2 come from different tuples".into());
    }
    let (y0, y2) = (later[3], later[4]);
    let out = (y2 + 1..n.len()).find(|&i| {
        matches!(n[i].get_operation(), Operation::CreateTuple) && {
            let ds = n[i].get_node_dependencies();
            ds.len() == 3 && ds[0].get_id() as usize == y0 && ds[2].get_id() as usize == y2
        }
    });
    let o = match out {
        Some(o) => o,
        None => return Err("no CreateTuple(y0,_,y2) after y2".into()),
    };
    // messages: the NOP nodes annotated Send between r and the output tuple, with the protocol's
    // sender/receiver pattern (:342 three times, :367, :369, :424, :428)
    let mut msgs = vec![];
    let mut pattern = vec![];
    for i in r + 1..o {
        if matches!(n[i].get_operation(), Operation::NOP) {
            for a in n[i].get_annotations().map_err(|_| "annotations".to_string())? {
                if let NodeAnnotation::Send(from, to) = a {
                    msgs.push(i);
                    pattern.push((from, to));
                }
            }
        }
    }
    if pattern != vec![(2, 1), (2, 1), (2, 1), (0, 1), (1, 0), (0, 1), (1, 0)] {
        return Err(format!("Send pattern between r and the output is {:?}", pattern));
    }
    Ok(Found2K { input_tuple: d as usize, masks: [r, later[0], later[1], later[2], later[3], later[4]], msgs, output: o })
}

struct FoundMpc {
    input_tuple: usize,
    r: usize,
    output: usize,
}
fn find_mpc(run: &Run) -> std::result::Result<FoundMpc, String> {
    let n = &run.nodes;
    let r = match (0..n.len()).rev().find(|&i| is_prf(&n[i])) {
        Some(r) => r,
        None => return Err("no PRF node".into()),
    };
    if key_index(&n[r]) != Some(2) {
        return Err(format!("key index of the last PRF is {:?}, expected 2", key_index(&n[r])));
    }
    if r + 1 >= n.len() || !matches!(n[r + 1].get_operation(), Operation::TupleGet(0)) {
        return Err("node after r is not tuple_get(0)".into());
    }
    let d = n[r + 1].get_node_dependencies()[0].get_id() as usize;
    let out = (r + 1..n.len()).find(|&i| {
        matches!(n[i].get_operation(), Operation::CreateTuple) && {
            let ds = n[i].get_node_dependencies();
            ds.len() == 3 && ds[2].get_id() as usize == r
        }
    });
    match out {
        Some(o) => Ok(FoundMpc { input_tuple: d, r, output: o }),
        None => Err("no CreateTuple(_,_,r) after r".into()),
    }
}

fn triple_elems(v: &Value, t: &Type) -> Result<Vec<Vec<u128>>> {
    let vs = v.to_vector()?;
    if vs.len() != 3 {
        panic!("not a triple");
    }
    vs.iter().map(|s| elems(s, t)).collect()
}

fn floor_div_pow2(x: i128, k: u32) -> i128 {
    x >> k // arithmetic shift = floor division by 2^k
}

/// values for the element positions: boundary-heavy, inside the documented range unless `wild`
fn gen_x(w: u32, signed: bool, k_or_scale: u128, wild: bool, rng: &mut Rng) -> u128 {
    let m = mask(w);
    let q = 1u128 << (w - 2); // modulus / 4
    let s = k_or_scale;
    if wild {
        return rng.u128() & m;
    }
    let pick = rng.below(12);
    let v: i128 = if signed {
        match pick {
            0 => 0,
            1 => 1,
            2 => -1,
            3 => (q - 1) as i128,
            4 => -(q as i128),
            5 => -(q as i128) + 1,
            6 => ((rng.u128() % q) / s.max(1) * s.max(1)) as i128, // exact multiple
            7 => -(((rng.u128() % q) / s.max(1) * s.max(1)) as i128),
            8 => (s.min(q - 1)) as i128 - 1,
            9 => -((s.min(q)) as i128),
            10 => (rng.u128() % 1000) as i128 - 500,
            _ => (rng.u128() % (2 * q)) as i128 - q as i128,
        }
    } else {
        let h = 2 * q; // modulus / 2
        (match pick {
            0 => 0,
            1 => 1,
            2 => 2,
            3 => h - 1,
            4 => h - 2,
            5 => q,
            6 | 7 => (rng.u128() % h) / s.max(1) * s.max(1),
            8 => s.min(h) - 1,
            9 => s.min(h - 1),
            10 => rng.u128() % 1000 % h,
            _ => rng.u128() % h,
        }) as i128
    };
    (v as u128) & m
}

fn seed16(rng: &mut Rng) -> [u8; 16] {
    let a = rng.u128();
    a.to_le_bytes()
}

const OWNERS: [IOStatus; 5] = [IOStatus::Shared, IOStatus::Party(0), IOStatus::Party(1), IOStatus::Party(2), IOStatus::Public];
fn out_sets() -> Vec<Vec<IOStatus>> {
    vec![
        vec![],
        vec![IOStatus::Party(0)],
        vec![IOStatus::Party(1)],
        vec![IOStatus::Party(2)],
        vec![IOStatus::Party(0), IOStatus::Party(1)],
        vec![IOStatus::Party(2), IOStatus::Party(0)],
        vec![IOStatus::Party(1), IOStatus::Party(2)],
        vec![IOStatus::Party(0), IOStatus::Party(1), IOStatus::Party(2)],
    ]
}
fn shape_pool() -> Vec<Option<Vec<u64>>> {
    vec![None, Some(vec![1]), Some(vec![3]), Some(vec![2, 2]), Some(vec![2, 1, 2])]
}
fn mk_type(shape: &Option<Vec<u64>>, st: ScalarType) -> Type {
    match shape {
        None => scalar_type(st),
        Some(s) => array_type(s.clone(), st),
    }
}
fn n_elems(shape: &Option<Vec<u64>>) -> usize {
    match shape {
        None => 1,
        Some(s) => s.iter().product::<u64>() as usize,
    }
}

fn zt(xs: &[u128]) -> String {
    format!("({})", xs.iter().map(|x| z_u128(*x)).collect::<Vec<_>>().join(", "))
}

/// One compiled configuration, `reps` evaluations.
#[allow(clippy::too_many_arguments)]
fn run_config(st: ScalarType, shape: &Option<Vec<u64>>, scale: u128, owner: &IOStatus, outs: &[IOStatus], reps: usize, wild_every: usize, rng: &mut Rng, out: &mut Out) {
    let w = width(st);
    let signed = st.is_signed();
    let sgc = if signed { "true" } else { "false" };
    let t = mk_type(shape, st);
    let n = n_elems(shape);
    let pow2 = scale.is_power_of_two();
    let k = scale.trailing_zeros();
    let cfg_json = json!({"st": scalar(st), "shape": format!("{:?}", shape), "scale": scale.to_string(), "owner": owner_name(owner),
                          "outs": outs.iter().map(owner_name).collect::<Vec<_>>()});
    let ctx = {
        let (t, owner, outs) = (t.clone(), owner.clone(), outs.to_vec());
        observe_u(move || compile(&t, scale, &owner, &outs))
    };
    out.stat(&format!("compile:{}", ctx.tag()));
    let ctx = match ctx {
        Outcome::Ok(c) => c,
        other => {
            // documented: TruncateMPC supports signed types only (mpc_truncate.rs:84); everything else must compile
            // (also for a public input: the one-argument form checks signedness first, :37-41)
            let legit = !pow2 && !signed;
            if legit && matches!(other, Outcome::Err) {
                out.stat(&format!("compile:unsigned-general-rejected:{}", if *owner == IOStatus::Public { "public" } else { "private" }));
                out.oracle_ok();
                if *owner == IOStatus::Public {
                    let xs: Vec<u128> = (0..n).map(|_| gen_x(w, signed, scale, false, rng)).collect();
                    out.case("trunc_public", format!("mapM (trunc_public {} {} {}) {}", w, sgc, scale, list_u128(&xs)), "Err".into(), cfg_json, true);
                }
            } else {
                out.violation("compile-fails", cfg_json, format!("prepare_for_mpc_evaluation: {}", other.tag()));
            }
            return;
        }
    };
    out.stat(&format!("st:{}", scalar(st)));
    out.stat(&format!("owner:{}", owner_name(owner)));
    out.stat(&format!("outs:{}", outs.len()));
    out.stat(&format!("shape:{}", match shape { None => "scalar".to_string(), Some(s) => format!("{:?}", s) }));
    out.stat(if pow2 { "proto:2k" } else { "proto:general" });
    for rep in 0..reps {
        let wild = wild_every > 0 && rep % wild_every == wild_every - 1;
        let xs: Vec<u128> = (0..n).map(|_| gen_x(w, signed, scale, wild, rng)).collect();
        // inputs
        let inputs: Vec<Value> = match owner {
            IOStatus::Shared => {
                let mut sh: Vec<Vec<u128>> = vec![vec![], vec![], vec![]];
                for &x in &xs {
                    let (a, b) = match rng.below(5) {
                        0 => (0, 0),
                        1 => (x, 0),
                        2 => (mask(w), mask(w)),
                        _ => (rng.u128() & mask(w), rng.u128() & mask(w)),
                    };
                    let c = x.wrapping_sub(a).wrapping_sub(b) & mask(w);
                    sh[0].push(a);
                    sh[1].push(b);
                    sh[2].push(c);
                }
                vec![Value::from_vector(sh.iter().map(|s| value_of(s, &t).unwrap()).collect())]
            }
            _ => vec![value_of(&xs, &t).unwrap()],
        };
        let seed = seed16(rng);
        let run = {
            let (ctx, inputs) = (ctx.clone(), inputs.clone());
            observe_u(move || eval_all(&ctx, inputs, seed))
        };
        let input_json = json!({"cfg": cfg_json, "xs": xs.iter().map(|x| x.to_string()).collect::<Vec<_>>(), "seed": format!("{:?}", seed)});
        let run = match run {
            Outcome::Ok(r) => r,
            other => {
                out.violation("evaluation-fails", input_json, format!("node-by-node evaluation: {}", other.tag()));
                continue;
            }
        };
        let outv = run.vals[run.nodes.iter().position(|nd| nd.get_id() == ctx.get_main_graph().unwrap().get_output_node().unwrap().get_id()).unwrap()].clone();
        let nontrivial = xs.iter().any(|x| x % scale != 0) && *owner != IOStatus::Public;
        // ---------------------------------------------------------------- public input: exact
        if *owner == IOStatus::Public {
            // public input: the compiled graph is a plain Truncate; if nobody is an output party the public
            // result is shared by party 0 (mpc_compiler.rs:1031), so sum the triple
            let res: Vec<u128> = if outs.is_empty() {
                let tr = triple_elems(&outv, &t).unwrap();
                (0..n).map(|i| tr[0][i].wrapping_add(tr[1][i]).wrapping_add(tr[2][i]) & mask(w)).collect()
            } else {
                elems(&outv, &t).unwrap()
            };
            let lhs = format!("mapM (trunc_public {} {} {}) {}", w, sgc, scale, list_u128(&xs));
            out.case("trunc_public", lhs, format!("(Ok {})", list_u128(&res)), input_json.clone(), xs.iter().any(|x| x % scale != 0));
            for i in 0..n {
                let exp = if signed {
                    // w = 128 signed: i128 reading
                    (sval(w, true, xs[i]) / (scale as i128)) as u128 & mask(w)
                } else {
                    xs[i] / scale
                };
                if res[i] != exp {
                    out.violation("public-not-exact", input_json.clone(), format!("element {}: got {}, expected {}", i, res[i], exp));
                } else {
                    out.oracle_ok();
                }
            }
            continue;
        }
        // ---------------------------------------------------------------- private input
        let revealed: Vec<u128> = if outs.is_empty() {
            let tr = triple_elems(&outv, &t).unwrap();
            (0..n).map(|i| tr[0][i].wrapping_add(tr[1][i]).wrapping_add(tr[2][i]) & mask(w)).collect()
        } else {
            elems(&outv, &t).unwrap()
        };
        if pow2 && scale > 1 {
            let f = match find_2k(&run) {
                Ok(f) => f,
                Err(e) => {
                    out.violation("structure-2k", input_json.clone(), e);
                    continue;
                }
            };
            let xin = triple_elems(&run.vals[f.input_tuple], &t).unwrap();
            let ms: Vec<Vec<u128>> = f.masks.iter().map(|&i| elems(&run.vals[i], &t).unwrap()).collect();
            let ys = triple_elems(&run.vals[f.output], &t).unwrap();
            let mut items = vec![];
            let mut obs = vec![];
            for i in 0..n {
                items.push(format!("({}, {})", zt(&[xin[0][i], xin[1][i], xin[2][i]]), zt(&[ms[0][i], ms[1][i], ms[2][i], ms[3][i], ms[4][i], ms[5][i]])));
                obs.push(zt(&[ys[0][i], ys[1][i], ys[2][i]]));
            }
            out.case("trunc2k_shares", format!("trunc2k_list {} {} {} [{}]", w, sgc, k, items.join("; ")), format!("[{}]", obs.join("; ")), input_json.clone(), nontrivial);
            // the seven messages of the protocol (they, unlike the output shares, depend on r0, r_msb0, r_truncated0)
            let mv: Vec<Vec<u128>> = f.msgs.iter().map(|&i| elems(&run.vals[i], &t).unwrap()).collect();
            let mobs: Vec<String> = (0..n).map(|i| list_u128(&mv.iter().map(|m| m[i]).collect::<Vec<_>>())).collect();
            out.case("trunc2k_msgs", format!("trunc2k_msgs_list {} {} {} [{}]", w, sgc, k, items.join("; ")), format!("[{}]", mobs.join("; ")), input_json.clone(), nontrivial);
            // the revealed output is the sum of the protocol's output shares
            let sums: Vec<u128> = (0..n).map(|i| ys[0][i].wrapping_add(ys[1][i]).wrapping_add(ys[2][i]) & mask(w)).collect();
            out.case("reveal", format!("map (reveal {}) [{}]", w, obs.join("; ")), list_u128(&revealed), input_json.clone(), nontrivial);
            for i in 0..n {
                // the shares really are a sharing of the input
                let xsum = xin[0][i].wrapping_add(xin[1][i]).wrapping_add(xin[2][i]) & mask(w);
                if xsum != xs[i] {
                    out.violation("structure-2k-input-shares", input_json.clone(), format!("element {}: shares sum to {}, input {}", i, xsum, xs[i]));
                    continue;
                }
                if sums[i] != revealed[i] {
                    out.violation("reveal-differs-from-share-sum", input_json.clone(), format!("element {}", i));
                    continue;
                }
                // native oracle: the property itself, for inputs in the documented range
                let in_range = if signed {
                    let v = sval(w, true, xs[i]);
                    v >= -(1i128 << (w - 2)) && v < (1i128 << (w - 2))
                } else {
                    xs[i] < (1u128 << (w - 1))
                };
                out.stat(if in_range { "x:in-range" } else { "x:out-of-range(tie only)" });
                if !in_range {
                    continue;
                }
                // in range: |values| < 2^127, so i128 arithmetic is exact
                let xv = sval(w, signed, xs[i]);
                let fl = floor_div_pow2(xv, k);
                let got = sval(w, signed, revealed[i]);
                let d = got.wrapping_sub(fl);
                if d != 0 && d != 1 {
                    out.violation("trunc2k-error-not-0-or-1", input_json.clone(), format!("element {}: x={} k={} result={} floor={}", i, xv, k, got, fl));
                } else {
                    out.oracle_ok();
                    out.stat(if d == 0 { "2k:exact" } else { "2k:plus-one" });
                }
                // sharper form (C05_trunc2k_exact_iff): +1 exactly when (x mod 2^k) + (r mod 2^k) >= 2^k
                let pm = (1u128 << k) - 1;
                let carry = (xs[i] & pm) + (ms[0][i] & pm) > pm;
                if (d == 1) != carry {
                    out.violation("trunc2k-carry-rule", input_json.clone(), format!("element {}: x={} r={} k={} diff={}", i, xv, ms[0][i], k, d));
                } else {
                    out.oracle_ok();
                }
            }
        } else if scale > 1 {
            let f = match find_mpc(&run) {
                Ok(f) => f,
                Err(e) => {
                    out.violation("structure-general", input_json.clone(), e);
                    continue;
                }
            };
            let xin = triple_elems(&run.vals[f.input_tuple], &t).unwrap();
            let rv = elems(&run.vals[f.r], &t).unwrap();
            let ys = triple_elems(&run.vals[f.output], &t).unwrap();
            let mut items = vec![];
            let mut obs = vec![];
            for i in 0..n {
                items.push(format!("({}, {})", zt(&[xin[0][i], xin[1][i], xin[2][i]]), z_u128(rv[i])));
                obs.push(zt(&[ys[0][i], ys[1][i], ys[2][i]]));
            }
            out.case("truncmpc_shares", format!("truncmpc_list {} {} [{}]", w, scale, items.join("; ")), format!("[{}]", obs.join("; ")), input_json.clone(), nontrivial);
            out.case("reveal", format!("map (reveal {}) [{}]", w, obs.join("; ")), list_u128(&revealed), input_json.clone(), nontrivial);
            for i in 0..n {
                let xsum = xin[0][i].wrapping_add(xin[1][i]).wrapping_add(xin[2][i]) & mask(w);
                if xsum != xs[i] {
                    out.violation("structure-general-input-shares", input_json.clone(), format!("element {}: shares sum to {}, input {}", i, xsum, xs[i]));
                    continue;
                }
                // native oracle: unless the documented wrap-around happened, |result - quot| <= 1.
                // wrap: sval x0 + sval (x1+x2) differs from sval x (by +-2^w)
                let a = sval(w, true, xin[0][i]);
                let b = sval(w, true, xin[1][i].wrapping_add(xin[2][i]));
                let xv = sval(w, true, xs[i]);
                let wrap = match a.checked_add(b) {
                    Some(s) => s != xv,
                    None => true,
                };
                out.stat(if wrap { "general:wrap" } else { "general:no-wrap" });
                if wrap {
                    continue;
                }
                let q = xv / (scale as i128);
                let got = sval(w, true, revealed[i]);
                let d = got.wrapping_sub(q);
                if !(-1..=1).contains(&d) {
                    out.violation("truncmpc-error-above-1", input_json.clone(), format!("element {}: x={} scale={} result={} quot={}", i, xv, scale, got, q));
                } else {
                    out.oracle_ok();
                    out.stat(&format!("general:diff{}", d));
                }
            }
        } else {
            // scale = 1: both protocols return their input (mpc_truncate.rs:97, :275)
            out.case("trunc_scale1", format!("mapM (trunc_public {} {} 1) {}", w, sgc, list_u128(&xs)), format!("(Ok {})", list_u128(&revealed)), input_json.clone(), false);
            if revealed != xs {
                out.violation("scale1-not-identity", input_json.clone(), "Truncate(1) changed a private value".into());
            } else {
                out.oracle_ok();
            }
        }
    }
}

/// plaintext evaluator on Truncate directly (simple_evaluator.rs:962): all 11 types, any scale
fn run_plain(rounds: usize, rng: &mut Rng, out: &mut Out) {
    for round in 0..rounds {
        for &st in ALL_ST.iter() {
            let w = width(st);
            let signed = st.is_signed();
            let shape = if round % 2 == 0 { None } else { Some(vec![3u64]) };
            let t = mk_type(&shape, st);
            let n = n_elems(&shape);
            let scale: u128 = match rng.below(8) {
                0 => 1,
                1 => 2,
                2 => 3,
                3 => 1u128 << rng.below(w as u64 + 2).min(126),
                4 => (rng.u128() & mask(w)).max(1) & (i128::MAX as u128),
                5 => (rng.u128() >> rng.below(127)).max(1) & (i128::MAX as u128),
                6 => i128::MAX as u128,
                _ => 1 + rng.below(1000) as u128,
            };
            let scale = scale.max(1);
            let xs: Vec<u128> = (0..n).map(|_| if st == BIT { rng.below(2) as u128 } else { in_range_i128(st, rng).wrap128() & mask(w) }).collect();
            let (t2, xs2) = (t.clone(), xs.clone());
            let r = observe_u(move || {
                let c = simple_context(|g| {
                    let i = g.input(t2.clone())?;
                    g.truncate(i, scale)
                })?;
                let run = eval_all(&c, vec![value_of(&xs2, &t2)?], [0u8; 16])?;
                elems(run.vals.last().unwrap(), &t2)
            });
            out.stat(&format!("plain:{}", r.tag()));
            let input = json!({"st": scalar(st), "scale": scale.to_string(), "xs": xs.iter().map(|x| x.to_string()).collect::<Vec<_>>()});
            out.case("truncate_plain", format!("map (truncate {} {} {}) {}", w, if signed { "true" } else { "false" }, scale, list_u128(&xs)),
                match &r { Outcome::Ok(v) => list_u128(v), _ => "[]".into() }, input.clone(), xs.iter().any(|x| x % scale != 0));
            match r {
                Outcome::Ok(v) => {
                    for i in 0..n {
                        let exp = if signed { (sval(w, true, xs[i]) / (scale as i128)) as u128 & mask(w) } else { xs[i] / scale };
                        if v[i] != exp { out.violation("plain-truncate-wrong", input.clone(), format!("element {}: got {}, expected {}", i, v[i], exp)); } else { out.oracle_ok(); }
                    }
                }
                _ => out.violation("plain-truncate-fails", input, "evaluation of a well-typed Truncate failed".into()),
            }
        }
    }
}

fn ks_for(w: u32, signed: bool, all: bool) -> Vec<u32> {
    let kmax = if signed { w - 2 } else { w - 1 }; // admissible range of the code: see Model/Trunc.v trunc2k_admissible
    if all {
        (1..=kmax).collect()
    } else {
        let mut v = vec![1, 2, w / 2, w - 3, w - 2, kmax];
        v.sort_unstable();
        v.dedup();
        v.retain(|&k| k >= 1 && k <= kmax);
        v
    }
}

fn general_scales(w: u32, rng: &mut Rng, count: usize) -> Vec<u128> {
    let mut v: Vec<u128> = vec![3, 5, 10, 15, 1000, (1u128 << (w / 2)) - 1, (1u128 << (w - 2)) + 1, (1u128 << (w - 1)) - 1];
    // scales may exceed the type's modulus (type inference only bounds them by i128::MAX)
    v.push((1u128 << w.min(126)) + 1);
    while v.len() < count + 9 {
        let s = (rng.u128() >> rng.below(127)) & (i128::MAX as u128);
        v.push(s);
    }
    v.retain(|s| *s > 1 && !s.is_power_of_two() && *s <= i128::MAX as u128);
    rng.shuffle(&mut v);
    v.truncate(count);
    v
}

/// one context with several truncations of one operand type by different powers of two (and a
/// chained one): each division must use its own divisor (instantiations are cached per operation
/// and argument types)
fn run_several_scales(st: ScalarType, ks: &[u32], owner: &IOStatus, rng: &mut Rng, out: &mut Out) {
    let w = width(st);
    let t = array_type(vec![3], st);
    let (t2, ks2) = (t.clone(), ks.to_vec());
    let desc = json!({"st": scalar(st), "ks": ks, "owner": owner_name(owner)});
    let ctx = observe_u(move || {
        let c = simple_context(|g| {
            let i = g.input(t2.clone())?;
            let mut outs = vec![];
            for k in ks2.iter() { outs.push(g.truncate(i.clone(), 1u128 << k)?); }
            // chained: (x >> k0) >> k1
            outs.push(g.truncate(outs[0].clone(), 1u128 << ks2[ks2.len() - 1])?);
            g.create_tuple(outs)
        })?;
        let cfg = InlineConfig { default_mode: InlineMode::Simple, ..Default::default() };
        Ok(prepare_for_mpc_evaluation(&c, vec![vec![owner.clone()]], vec![vec![IOStatus::Party(0)]], cfg)?.get_context())
    });
    let ctx = match ctx { Outcome::Ok(c) => c, _ => { out.violation("several-scales-compile-fails", desc, "a context with several truncations does not compile".into()); return; } };
    for _ in 0..3 {
        // small operands (the protocol's failure probability |x| / 2^w is negligible)
        let xs: Vec<u128> = (0..3).map(|_| { let x = rng.below(1 << 20) as u128; if st.is_signed() && rng.chance(1, 2) { x.wrapping_neg() & mask(w) } else { x } }).collect();
        let input = match owner { IOStatus::Shared => { let a: Vec<u128> = (0..3).map(|_| rng.u128() & mask(w)).collect(); let b: Vec<u128> = (0..3).map(|_| rng.u128() & mask(w)).collect(); let c: Vec<u128> = (0..3).map(|i| xs[i].wrapping_sub(a[i]).wrapping_sub(b[i]) & mask(w)).collect(); Value::from_vector(vec![value_of(&a, &t).unwrap(), value_of(&b, &t).unwrap(), value_of(&c, &t).unwrap()]) } _ => value_of(&xs, &t).unwrap() };
        let (c2, seed) = (ctx.clone(), seed16(rng));
        let r = observe_u(move || ciphercore_base::evaluators::evaluate_simple_evaluator(c2.get_main_graph()?, vec![input], Some(seed)));
        let v = match r { Outcome::Ok(v) => v, _ => { out.violation("several-scales-evaluation-fails", desc.clone(), "evaluation failed".into()); continue; } };
        let comps = v.to_vector().unwrap_or_default();
        let mut expect: Vec<(String, Vec<i128>)> = ks.iter().map(|k| (format!("2^{}", k), xs.iter().map(|x| floor_div_pow2(sval(w, st.is_signed(), *x), *k)).collect())).collect();
        expect.push((format!("2^{} then 2^{}", ks[0], ks[ks.len() - 1]), xs.iter().map(|x| floor_div_pow2(floor_div_pow2(sval(w, st.is_signed(), *x), ks[0]), ks[ks.len() - 1])).collect()));
        for (j, (name, ex)) in expect.iter().enumerate() {
            let got = comps.get(j).and_then(|c| elems(c, &t).ok()).unwrap_or_default();
            // each secure truncation returns floor or floor + 1; the chained one may add one more unit
            let slack = if j + 1 == expect.len() { 2 } else { 1 };
            let ok = got.len() == ex.len() && got.iter().zip(ex.iter()).all(|(g, e)| { let d = sval(w, st.is_signed(), *g) - e; d >= 0 && d <= slack });
            if !ok { out.violation("several-scales-wrong-quotient", json!({"config": desc, "division": name, "x": zt(&xs)}), format!("got {:?} expected {:?} (+0..{})", got.iter().map(|g| sval(w, st.is_signed(), *g)).collect::<Vec<_>>(), ex, slack)); } else { out.oracle_ok(); }
        }
    }
}

pub fn run(tier: &str, seed: u64, out: &mut Out) {
    let mut rng = Rng::new(seed ^ 0xC05);
    let thorough = tier == "thorough" || tier == "search";
    let outsets = out_sets();
    let shapes = shape_pool();
    if std::env::var("C05_DUMP").is_ok() {
        dump();
    }
    // ---- TruncateMPC2K: every integer type x k (quick: a spread, thorough: all admissible k)
    let mut cfg_no = 0usize;
    for &st in INT_ST.iter() {
        let w = width(st);
        for k in ks_for(w, st.is_signed(), thorough) {
            // coverage of k made visible: every k individually in the quick tier, a count per type otherwise
            if thorough { out.stat(&format!("k-values-covered:{}", scalar(st))); } else { out.stat(&format!("k:{}:{}", scalar(st), k)); }
            let nconf = if thorough { 3 } else { 2 };
            for _ in 0..nconf {
                // owners and output sets rotate so that all 4 private owners x 8 output sets are covered
                let owner = OWNERS[cfg_no % 4].clone();
                let outs = outsets[(cfg_no / 4 + cfg_no) % 8].clone();
                let shape = shapes[(cfg_no / 3) % shapes.len()].clone();
                cfg_no += 1;
                let reps = if n_elems(&shape) == 1 { 6 } else { 3 };
                run_config(st, &shape, 1u128 << k, &owner, &outs, reps, 3, &mut rng, out);
            }
        }
    }
    // ---- TruncateMPC: signed types x non-power-of-two scales (and the documented rejection for unsigned)
    for &st in INT_ST.iter() {
        let w = width(st);
        let count = if thorough { 24 } else { 5 };
        for scale in general_scales(w, &mut rng, if st.is_signed() { count } else { 1 }) {
            let owner = OWNERS[cfg_no % 4].clone();
            let outs = outsets[(cfg_no / 4 + cfg_no) % 8].clone();
            let shape = shapes[(cfg_no / 3) % shapes.len()].clone();
            cfg_no += 1;
            let reps = if n_elems(&shape) == 1 { 6 } else { 3 };
            run_config(st, &shape, scale, &owner, &outs, reps, 3, &mut rng, out);
        }
    }
    // ---- public inputs and scale 1
    for &st in INT_ST.iter() {
        let w = width(st);
        let mut scales: Vec<u128> = vec![1, 2, 3, 1u128 << (w - 2), 1u128 << (w - 1), 7, 1000];
        if thorough {
            scales.extend(general_scales(w, &mut rng, 6));
            scales.extend(ks_for(w, false, false).iter().map(|k| 1u128 << k));
        }
        for scale in scales {
            if st.is_signed() && scale > i128::MAX as u128 {
                continue;
            }
            let outs = outsets[cfg_no % 8].clone();
            let shape = shapes[(cfg_no / 3) % shapes.len()].clone();
            cfg_no += 1;
            run_config(st, &shape, scale, &IOStatus::Public, &outs, 3, 0, &mut rng, out);
            if scale == 1 {
                let owner = OWNERS[cfg_no % 4].clone();
                run_config(st, &shape, 1, &owner, &outs, 2, 0, &mut rng, out);
            }
        }
    }
    // ---- several power-of-two divisors in one context
    for (i, &st) in [INT64, UINT64, INT32, UINT32].iter().enumerate() {
        let sets: Vec<Vec<u32>> = if thorough { vec![vec![3, 7], vec![7, 3], vec![1, 2, 5], vec![10, 4]] } else { vec![vec![3, 7], vec![5, 2]] };
        for (j, ks) in sets.iter().enumerate() {
            out.stat("stream:several-scales");
            run_several_scales(st, ks, &OWNERS[(i + j) % 4], &mut rng, out);
        }
        run_several_scales(st, &[4, 9], &IOStatus::Public, &mut rng, out);
    }
    // ---- plaintext evaluator
    run_plain(if thorough { 40 } else { 6 }, &mut rng, out);
    // ---- outside the admissible range of k: observed, reported as statistics only (not part of the property)
    for &st in INT_ST.iter() {
        let w = width(st);
        for k in [w - 1, w] {
            if k > 126 || (k == w - 1 && !st.is_signed()) {
                continue;
            }
            let t = scalar_type(st);
            let r = observe_u(move || compile(&t, 1u128 << k, &IOStatus::Shared, &[]));
            out.stat(&format!("k-out-of-range:{}:k=w{}:{}", if st.is_signed() { "signed" } else { "unsigned" }, if k == w { "" } else { "-1" }, r.tag()));
        }
    }
}

fn dump() {
    for (st, scale, owner) in [(INT8, 8u128, IOStatus::Party(1)), (UINT8, 8u128, IOStatus::Shared), (INT8, 5u128, IOStatus::Party(0))] {
        let ctx = compile(&scalar_type(st), scale, &owner, &[IOStatus::Party(0)]).unwrap();
        let g = ctx.get_main_graph().unwrap();
        eprintln!("==== {} scale {} owner {}", scalar(st), scale, owner_name(&owner));
        for n in g.get_nodes() {
            eprintln!("{:3} {:?} deps {:?} annot {:?}", n.get_id(), n.get_operation(), n.get_node_dependencies().iter().map(|d| d.get_id()).collect::<Vec<_>>(), n.get_annotations().unwrap());
        }
    }
}

//! C14 — secret sharing reconstructs, with the documented per-party layout.
//! Correspondence of Model/Share.v with typed_value.rs / replicated_shares.rs / mpc/utils.rs, plus
//! the native oracle: reveal(share(v)) == v, any two parties reconstruct, slot layout, and a coarse
//! distribution check of a single party's view.
//!
//! Values are shown to the model in decoded form: every byte leaf is read with the public
//! `bytes::vec_u128_from_bytes(bytes, st)` (st = the leaf's scalar type in the value's type), so a
//! Bit leaf shows all 8 bits of every byte, padding included.  With a seeded PRNG the two random
//! shares are re-derived independently from a second PRNG with the same seed (`get_random_value`
//! twice, then three more draws for the garbage) and handed to the model as r0 r1 g0 g1 g2.
use crate::coqfmt::*;
use crate::gen::*;
use crate::out::Out;
use crate::rng::Rng;
use ciphercore_base::bytes::vec_u128_from_bytes;
use ciphercore_base::data_types::*;
use ciphercore_base::data_values::Value;
use ciphercore_base::mpc::utils::share_vector;
use ciphercore_base::random::PRNG;
use ciphercore_base::typed_value::{generalized_add, generalized_subtract, TypedValue};
use ciphercore_base::typed_value_secret_shared::replicated_shares::ReplicatedShares;
use ciphercore_base::typed_value_secret_shared::TypedValueSecretShared;
use serde_json::json;

pub const HEADER: &str = "From CC Require Import Base.Prelude Base.Scalar Base.Ty Model.Share.";

type Seed = [u8; 16];

// ------------------------------------------------------------------------------------ decoding
fn child_types(t: &Type) -> Vec<Type> {
    match t {
        Type::Vector(n, e) => (0..*n).map(|_| (**e).clone()).collect(),
        Type::Tuple(ts) => ts.iter().map(|x| (**x).clone()).collect(),
        Type::NamedTuple(fs) => fs.iter().map(|(_, x)| (**x).clone()).collect(),
        _ => vec![],
    }
}

/// Decoded form of `v` read along type `t`; None when the kinds do not line up (never for
/// values produced along `t`).
fn dec(v: &Value, t: &Type) -> Option<String> {
    match t {
        Type::Scalar(st) | Type::Array(_, st) => v
            .access(
                |b| Ok(vec_u128_from_bytes(b, *st).ok().map(|xs| format!("(VLeaf {})", list_u128(&xs)))),
                |_| Ok(None),
            )
            .unwrap(),
        _ => {
            let ts = child_types(t);
            v.access(
                |_| Ok(None),
                |vs| {
                    if vs.len() > ts.len() {
                        return Ok(None);
                    }
                    let mut parts = vec![];
                    for (c, ct) in vs.iter().zip(ts.iter()) {
                        match dec(c, ct) {
                            Some(s) => parts.push(s),
                            None => return Ok(None),
                        }
                    }
                    Ok(Some(format!("(VNode [{}])", parts.join("; "))))
                },
            )
            .unwrap()
        }
    }
}
fn dec_tv(tv: &TypedValue) -> Option<String> {
    dec(&tv.value, &tv.t).map(|s| format!("({}, {})", ty(&tv.t), s))
}
fn opt_res<T>(r: &Outcome<T>, f: impl Fn(&T) -> Option<String>) -> Option<String> {
    match r {
        Outcome::Ok(x) => f(x).map(|s| format!("(Ok {})", s)),
        Outcome::Err => Some("Err".to_string()),
        Outcome::Panic => Some("Panic".to_string()),
    }
}
fn dec_tvs(tvs: &Vec<TypedValue>) -> Option<String> {
    let mut parts = vec![];
    for tv in tvs {
        parts.push(dec_tv(tv)?);
    }
    Some(format!("[{}]", parts.join("; ")))
}

// ------------------------------------------------------------------------------------ generators
fn leaf_count(t: &Type) -> usize {
    match t {
        Type::Scalar(_) => 1,
        Type::Array(sh, _) => sh.iter().product::<u64>() as usize,
        _ => 0,
    }
}
/// flags: (some element has its sign bit set, some element is >= 2^64, a Bit leaf has non-zero padding bits)
fn gen_value(t: &Type, rng: &mut Rng, flags: &mut (bool, bool, bool)) -> Value {
    match t {
        Type::Scalar(st) | Type::Array(_, st) if rng.chance(1, 5) => {
            // raw bytes of the right length: for Bit leaves the padding bits of the last byte are
            // arbitrary (check_type accepts them), for the other types plain uniform elements
            let nbytes = ((get_size_in_bits(t.clone()).unwrap() + 7) / 8) as usize;
            let b: Vec<u8> = (0..nbytes).map(|_| rng.next() as u8).collect();
            if *st == BIT && leaf_count(t) % 8 != 0 && (b[nbytes - 1] >> (leaf_count(t) % 8)) != 0 {
                flags.2 = true;
            }
            Value::from_bytes(b)
        }
        Type::Scalar(st) | Type::Array(_, st) => {
            let n = leaf_count(t);
            let xs: Vec<u128> = (0..n)
                .map(|_| {
                    let x = boundary_i128(*st, rng) as u128;
                    if *st == BIT {
                        x & 1
                    } else {
                        let w = width(*st);
                        let m = if w == 128 { x } else { x & ((1u128 << w) - 1) };
                        if (m >> (w - 1)) & 1 == 1 {
                            flags.0 = true;
                        }
                        if m >> 64 != 0 {
                            flags.1 = true;
                        }
                        x
                    }
                })
                .collect();
            Value::from_flattened_array(&xs, *st).unwrap()
        }
        _ => Value::from_vector(child_types(t).iter().map(|c| gen_value(c, rng, flags)).collect()),
    }
}

fn is_nested(t: &Type) -> bool {
    !matches!(t, Type::Scalar(_) | Type::Array(_, _))
}
fn has_ragged_bits(t: &Type) -> bool {
    match t {
        Type::Scalar(st) => *st == BIT,
        Type::Array(sh, st) => *st == BIT && sh.iter().product::<u64>() % 8 != 0,
        _ => child_types(t).iter().any(has_ragged_bits),
    }
}
fn type_class(t: &Type) -> &'static str {
    match t {
        Type::Scalar(_) => "scalar",
        Type::Array(_, st) => {
            if *st == BIT {
                "bit-array"
            } else {
                "array"
            }
        }
        Type::Vector(_, _) => "vector",
        Type::Tuple(_) => "tuple",
        Type::NamedTuple(_) => "named",
    }
}
fn scalars_in(t: &Type, acc: &mut Vec<ScalarType>) {
    match t {
        Type::Scalar(st) | Type::Array(_, st) => acc.push(*st),
        _ => child_types(t).iter().for_each(|c| scalars_in(c, acc)),
    }
}

/// A structural mutation that keeps the scalar type of every leaf position both trees share, so
/// that the byte-level reading of common leaves is the same on both sides.
fn mutate(t: &Type, rng: &mut Rng) -> Type {
    match t {
        Type::Scalar(st) => match rng.below(3) {
            0 => array_type(vec![1 + rng.below(3)], *st),
            1 => tuple_type(vec![scalar_type(*st)]),
            _ => array_type(vec![2, 2], *st),
        },
        Type::Array(sh, st) => match rng.below(4) {
            0 => scalar_type(*st),
            1 => {
                let mut s = sh.clone();
                s.reverse();
                s.push(1);
                array_type(s, *st)
            }
            2 => vector_type(2, array_type(sh.clone(), *st)),
            _ => {
                let mut s = sh.clone();
                s[0] += 1 + rng.below(9);
                array_type(s, *st)
            }
        },
        Type::Vector(n, e) => match rng.below(4) {
            0 => vector_type(n + 1, (**e).clone()),
            1 if *n > 0 => vector_type(n - 1, (**e).clone()),
            2 if *n > 0 => vector_type(*n, mutate(e, rng)),
            _ => tuple_type((0..*n + 2).map(|_| (**e).clone()).collect()),
        },
        Type::Tuple(_) | Type::NamedTuple(_) => {
            let mut ts = child_types(t);
            match rng.below(4) {
                0 if !ts.is_empty() => {
                    ts.pop();
                }
                1 if !ts.is_empty() => {
                    let i = rng.below(ts.len() as u64) as usize;
                    ts[i] = mutate(&ts[i], rng);
                }
                2 => ts.push(scalar_type(*rng.pick(&ALL_ST))),
                _ => return scalar_type(*rng.pick(&ALL_ST)),
            }
            tuple_type(ts)
        }
    }
}

fn pick_type(k: u64, rng: &mut Rng) -> Type {
    match k % 8 {
        0 => scalar_type(ALL_ST[(k / 8) as usize % 11]),
        1 => array_type(random_shape(rng), ALL_ST[(k / 8) as usize % 11]),
        2 => array_type(vec![1 + rng.below(70)], BIT),
        3 => array_type(vec![1 + rng.below(5), 1 + rng.below(5)], BIT),
        4 => random_type(rng, 2),
        5 if (k / 8) % 4 == 0 => vector_type(2 + rng.below(3), if rng.chance(1, 2) { scalar_type(*rng.pick(&[UINT64, INT64, UINT128, INT128])) } else { array_type(vec![1 + rng.below(3)], *rng.pick(&[UINT32, UINT64, INT128])) }),
        5 if (k / 8) % 2 == 0 => vector_type(rng.below(4), random_type(rng, 1)),
        5 => named_tuple_type(vec![("key".to_string(), random_type(rng, 1)), ("val".to_string(), array_type(random_shape(rng), *rng.pick(&ALL_ST))), ("n".to_string(), scalar_type(*rng.pick(&ALL_ST)))]),
        // a secret whose own type looks like a share triple: three components of one type
        6 if (k / 8) % 3 == 0 => { let t = if rng.chance(1, 2) { scalar_type(*rng.pick(&ALL_ST)) } else { array_type(random_shape(rng), *rng.pick(&ALL_ST)) }; tuple_type(vec![t.clone(), t.clone(), t]) }
        6 => tuple_type(vec![random_type(rng, 1), array_type(vec![1 + rng.below(20)], BIT), random_type(rng, 2)]),
        _ => random_type(rng, 3),
    }
}

fn seed_of(rng: &mut Rng) -> Seed {
    rng.u128().to_le_bytes()
}
fn draws(seed: Seed, t: &Type, k: usize) -> Vec<Value> {
    let mut q = PRNG::new(Some(seed)).unwrap();
    (0..k).map(|_| q.get_random_value(t.clone()).unwrap()).collect()
}
fn triple(t: &Type) -> Type {
    tuple_type(vec![t.clone(), t.clone(), t.clone()])
}
fn slots(tv: &TypedValue) -> Vec<Value> {
    tv.value.to_vector().unwrap()
}

/// does some vector of >= 2 elements of at least 64 bits inside the value hold the same element
/// everywhere?  (for a uniformly drawn mask this has probability <= 2^-64)
pub fn repeats_across_vector(v: &Value, t: &Type) -> bool {
    match t {
        Type::Vector(n, et) => {
            let ch = match v.to_vector() { Ok(c) => c, Err(_) => return false };
            let bits = get_size_in_bits((**et).clone()).unwrap_or(0);
            if *n >= 2 && bits >= 64 && ch.len() >= 2 && ch.iter().all(|c| *c == ch[0]) { return true; }
            ch.iter().any(|c| repeats_across_vector(c, et))
        }
        Type::Tuple(ts) => match v.to_vector() { Ok(ch) => ch.iter().zip(ts.iter()).any(|(c, ct)| repeats_across_vector(c, ct)), Err(_) => false },
        Type::NamedTuple(ts) => match v.to_vector() { Ok(ch) => ch.iter().zip(ts.iter()).any(|(c, (_, ct))| repeats_across_vector(c, ct)), Err(_) => false },
        _ => false,
    }
}

// ------------------------------------------------------------------------------------ main
pub fn run(tier: &str, seed: u64, out: &mut Out) {
    let mut rng = Rng::new(seed ^ 0xC14);
    let rounds: u64 = match tier {
        "thorough" => 800,
        "search" => 4000,
        _ => 88,
    };
    let emit = tier != "search";
    // the quick tier thins out the kinds whose Rust observation repeats one already emitted for the
    // same input (elaborating the literals dominates the Coq time); thorough emits everything
    let all = tier != "quick";
    for k in 0..rounds {
        let t = pick_type(k, &mut rng);
        let mut flags = (false, false, false);
        let v = gen_value(&t, &mut rng, &mut flags);
        let tv = match TypedValue::new(t.clone(), v.clone()) {
            Ok(x) => x,
            Err(_) => {
                out.violation("generated-value-rejected", json!({"type": format!("{}", t)}), "TypedValue::new rejects a value built for its type".into());
                continue;
            }
        };
        let sd = seed_of(&mut rng);
        let d = draws(sd, &t, 5);
        let (tc, vc) = (ty(&t), dec(&v, &t).unwrap());
        let tvc = format!("({}, {})", tc, vc);
        let dc: Vec<String> = d.iter().map(|x| dec(x, &t).unwrap()).collect();
        let input = json!({"type": format!("{}", t), "prng_seed": format!("{:032x}", u128::from_le_bytes(sd)), "value": if vc.len() < 300 { vc.clone() } else { format!("{}...", &vc[..300]) }});
        let nontrivial = flags.0 || flags.1 || flags.2 || is_nested(&t) || has_ragged_bits(&t);
        out.stat(&format!("type:{}", type_class(&t)));
        let mut sts = vec![];
        scalars_in(&t, &mut sts);
        for st in sts.iter() {
            out.stat(&format!("st:{}", scalar(*st)));
        }
        if has_ragged_bits(&t) {
            out.stat("ragged-bits");
        }
        if flags.2 {
            out.stat("secret-with-nonzero-padding-bits");
        }
        if flags.1 {
            out.stat("has-element>=2^64");
        }
        if flags.0 {
            out.stat("has-sign-bit-element");
        }

        // ---- TypedValue::secret_share and secret_share_reveal -------------------------------
        let sh = { let tv = tv.clone(); observe(move || { let mut p = PRNG::new(Some(sd))?; tv.secret_share(&mut p) }) };
        if emit {
            if let Some(r) = opt_res(&sh, dec_tv) {
                out.case("secret_share", format!("secret_share {} {} {}", tvc, dc[0], dc[1]), r, input.clone(), nontrivial);
            }
        }
        let sh = match sh {
            Outcome::Ok(x) => x,
            _ => {
                out.violation("secret_share-fails", input.clone(), "secret_share failed on a well-typed value".into());
                continue;
            }
        };
        let shares = slots(&sh);
        // the first two shares are the first two PRNG draws (what lets the model reproduce share 2)
        if shares.len() != 3 || shares[0] != d[0] || shares[1] != d[1] || sh.t != triple(&t) {
            out.violation("shares-not-prng-draws", input.clone(), "shares 0,1 are not the first two draws of the seeded PRNG, or wrong tuple type".into());
        } else {
            out.oracle_ok();
        }
        // the masks are drawn independently for every leaf of the type
        if repeats_across_vector(&shares[0], &t) || repeats_across_vector(&shares[1], &t) {
            out.violation("share-mask-repeats-across-vector-elements", input.clone(), "a mask share holds the same value in every element of a vector: the elements' masks are not independent, one party's shares reveal differences of the secret's elements".into());
        } else {
            out.oracle_ok();
        }
        let rev = { let sh = sh.clone(); observe(move || sh.secret_share_reveal()) };
        if emit {
            if let (Some(l), Some(r)) = (dec_tv(&sh), opt_res(&rev, dec_tv)) {
                out.case("secret_share_reveal", format!("secret_share_reveal {}", l), r, input.clone(), nontrivial);
            }
        }
        match &rev {
            Outcome::Ok(r) if r.t == t && r.value == v => out.oracle_ok(),
            _ => out.violation("reveal-of-share-differs", input.clone(), format!("reveal(share(v)) != v ({})", rev.tag())),
        }

        // ---- per-party form ------------------------------------------------------------------
        let loc = { let tv = tv.clone(); observe(move || { let mut p = PRNG::new(Some(sd))?; tv.get_local_shares_for_each_party(&mut p) }) };
        if emit {
            if let Some(r) = opt_res(&loc, dec_tvs) {
                out.case("get_local_shares_for_each_party", format!("get_local_shares_for_each_party {} {}", tvc, dc.join(" ")), r, input.clone(), nontrivial);
            }
        }
        let loc = match loc {
            Outcome::Ok(x) if x.len() == 3 => x,
            _ => {
                out.violation("local-shares-fail", input.clone(), "get_local_shares_for_each_party failed".into());
                continue;
            }
        };
        let ps: Vec<Vec<Value>> = loc.iter().map(slots).collect();
        // layout: party i holds share i in slot i, share i+1 in slot i+1, a value that does not
        // depend on the secret (the (i+2)-th garbage draw) in slot i+2
        let mut layout_ok = true;
        for i in 0..3 {
            layout_ok &= loc[i].t == triple(&t) && ps[i].len() == 3;
            layout_ok &= ps[i][i] == shares[i] && ps[i][(i + 1) % 3] == shares[(i + 1) % 3];
            layout_ok &= ps[i][(i + 2) % 3] == d[2 + (i + 2) % 3];
        }
        if layout_ok { out.oracle_ok() } else { out.violation("layout", input.clone(), "party i does not hold (s_i, s_i+1, garbage_i+2)".into()) }
        // any two parties reconstruct
        for i in 0..3usize {
            for j in 0..3usize {
                if i == j { continue; }
                let c: Vec<Value> = (0..3).map(|k| if k == (i + 2) % 3 { ps[j][k].clone() } else { ps[i][k].clone() }).collect();
                let ctv = TypedValue { t: triple(&t), value: Value::from_vector(c), name: None };
                let r = observe(move || ctv.secret_share_reveal());
                match &r {
                    Outcome::Ok(r) if r.t == t && r.value == v => out.oracle_ok(),
                    _ => out.violation("two-parties-do-not-reconstruct", json!({"type": format!("{}", t), "i": i, "j": j, "prng_seed": input["prng_seed"]}), "parties i,j pooled shares do not reveal v".into()),
                }
            }
        }
        // the secret does not enter slots 0,1 or the garbage: share a different secret, same seed
        {
            let mut f2 = (false, false, false);
            let v2 = gen_value(&t, &mut rng, &mut f2);
            let tv2 = TypedValue::new(t.clone(), v2).unwrap();
            let l2 = observe(move || { let mut p = PRNG::new(Some(sd))?; tv2.get_local_shares_for_each_party(&mut p) });
            match l2 {
                Outcome::Ok(l2) => {
                    let q: Vec<Vec<Value>> = l2.iter().map(slots).collect();
                    let same = q[0][0] == ps[0][0] && q[0][1] == ps[0][1] && q[0][2] == ps[0][2] && q[1][0] == ps[1][0] && q[2][1] == ps[2][1];
                    if same { out.oracle_ok() } else { out.violation("slots-depend-on-secret", input.clone(), "party 0's whole tuple / a garbage slot changed with the secret".into()) }
                }
                _ => out.violation("local-shares-fail", input.clone(), "second sharing failed".into()),
            }
        }

        if !emit {
            continue;
        }
        // ---- ReplicatedShares ----------------------------------------------------------------
        let rs_loc = { let tv = tv.clone(); observe(move || { let mut p = PRNG::new(Some(sd))?; ReplicatedShares::secret_share_for_local_evaluation(tv, &mut p)?.to_tuple() }) };
        if let (Some(r), true) = (opt_res(&rs_loc, dec_tv), all || (k / 8 + k) % 2 == 1) {
            out.case("rs_local_to_tuple", format!("bind (rs_secret_share_for_local_evaluation {} {} {}) rs_to_tuple", tvc, dc[0], dc[1]), r, input.clone(), nontrivial);
        }
        match &rs_loc { Outcome::Ok(x) if *x == sh => out.oracle_ok(), _ => out.violation("rs-local-differs", input.clone(), "ReplicatedShares local form differs from TypedValue::secret_share".into()) }
        let rs_rev = { let tv = tv.clone(); observe(move || { let mut p = PRNG::new(Some(sd))?; ReplicatedShares::secret_share_for_local_evaluation(tv, &mut p)?.reveal() }) };
        if let Some(r) = opt_res(&rs_rev, dec_tv) {
            out.case("rs_local_reveal", format!("bind (rs_secret_share_for_local_evaluation {} {} {}) rs_reveal", tvc, dc[0], dc[1]), r, input.clone(), nontrivial);
        }
        match &rs_rev { Outcome::Ok(r) if r.t == t && r.value == v => out.oracle_ok(), _ => out.violation("rs-reveal-differs", input.clone(), "ReplicatedShares reveal(share(v)) != v".into()) }
        let rs_par = { let tv = tv.clone(); observe(move || { let mut p = PRNG::new(Some(sd))?; let v = ReplicatedShares::secret_share_for_parties(tv, &mut p)?; v.iter().map(|x| x.to_tuple()).collect::<ciphercore_base::errors::Result<Vec<TypedValue>>>() }) };
        // (the two per-party ReplicatedShares cases repeat the largest observation: every other round)
        if let (Some(r), true) = (opt_res(&rs_par, dec_tvs), all || (k / 8 + k) % 4 == 0) {
            out.case("rs_parties_to_tuple", format!("bind (rs_secret_share_for_parties {} {}) (mapM rs_to_tuple)", tvc, dc.join(" ")), r, input.clone(), nontrivial);
        }
        match &rs_par { Outcome::Ok(x) if *x == loc => out.oracle_ok(), _ => out.violation("rs-parties-differ", input.clone(), "ReplicatedShares per-party form differs from get_local_shares_for_each_party".into()) }
        // reveal applied to a single party's (garbage-containing) shares: ties rs_reveal on arbitrary inputs
        let rs_par_rev = { let tv = tv.clone(); observe(move || { let mut p = PRNG::new(Some(sd))?; let v = ReplicatedShares::secret_share_for_parties(tv, &mut p)?; v.iter().map(|x| x.reveal()).collect::<ciphercore_base::errors::Result<Vec<TypedValue>>>() }) };
        if let (Some(r), true) = (opt_res(&rs_par_rev, dec_tvs), all || (k / 8 + k) % 4 == 2) {
            out.case("rs_parties_reveal", format!("bind (rs_secret_share_for_parties {} {}) (mapM rs_reveal)", tvc, dc.join(" ")), r, input.clone(), nontrivial);
        }
        // from_tuple . to_tuple
        {
            let sh2 = sh.clone();
            let r = observe(move || ReplicatedShares::from_tuple(sh2)?.to_tuple());
            if let (Some(l), Some(r), true) = (dec_tv(&sh), opt_res(&r, dec_tv), all || (k / 8 + k) % 2 == 0) {
                out.case("rs_from_tuple", format!("bind (rs_from_tuple {}) rs_to_tuple", l), r, input.clone(), nontrivial);
            }
        }

        // ---- generalized_add / generalized_subtract on two arbitrary values of the type ------
        {
            let (a, b) = (d[2].clone(), gen_value(&t, &mut rng, &mut (false, false, false)));
            let (ac, bc) = (dc[2].clone(), dec(&b, &t).unwrap());
            let r = { let (a, b, t) = (a.clone(), b.clone(), t.clone()); observe(move || generalized_add(a, b, t)) };
            if let Some(rc) = opt_res(&r, |x| dec(x, &t)) {
                out.case("generalized_add", format!("generalized_add {} {} {}", ac, bc, tc), rc, input.clone(), nontrivial);
            }
            let r2 = { let (a, b, t) = (a.clone(), b.clone(), t.clone()); observe(move || generalized_subtract(a, b, t)) };
            if let Some(rc) = opt_res(&r2, |x| dec(x, &t)) {
                out.case("generalized_subtract", format!("generalized_subtract {} {} {}", ac, bc, tc), rc, input.clone(), nontrivial);
            }
            // (a + b) - b == a
            if let (Outcome::Ok(s), true) = (&r, true) {
                let (s, b2, t2) = (s.clone(), b.clone(), t.clone());
                match observe(move || generalized_subtract(s, b2, t2)) {
                    Outcome::Ok(x) if x == a => out.oracle_ok(),
                    _ => out.violation("add-then-subtract", input.clone(), "(a+b)-b != a".into()),
                }
            }
        }
        // ---- malformed stream: values of a structurally different type -------------------------
        if (k / 8 + k) % 2 == 0 {
            let t2 = mutate(&t, &mut rng);
            if t2.is_valid() {
                let b = gen_value(&t2, &mut rng, &mut (false, false, false));
                let bc = dec(&b, &t2).unwrap();
                let top = if rng.chance(1, 2) { t.clone() } else { t2.clone() };
                let (x, xc, y, yc) = if rng.chance(1, 2) { (v.clone(), vc.clone(), b, bc) } else { (b, bc, v.clone(), vc.clone()) };
                let minput = json!({"op_type": format!("{}", top), "type_a_b": [format!("{}", t), format!("{}", t2)]});
                let r = { let (x, y, t) = (x.clone(), y.clone(), top.clone()); observe(move || generalized_add(x, y, t)) };
                out.stat(&format!("mismatch-add:{}", r.tag()));
                if let Some(rc) = opt_res(&r, |z| dec(z, &top)) {
                    out.case("generalized_add_mismatch", format!("generalized_add {} {} {}", xc, yc, ty(&top)), rc, minput.clone(), true);
                }
                let r = { let (x, y, t) = (x.clone(), y.clone(), top.clone()); observe(move || generalized_subtract(x, y, t)) };
                if let Some(rc) = opt_res(&r, |z| dec(z, &top)) {
                    out.case("generalized_subtract_mismatch", format!("generalized_subtract {} {} {}", xc, yc, ty(&top)), rc, minput.clone(), true);
                }
            }
        }
        // ---- secret_share_reveal / from_tuple on things that are not a sharing -----------------
        if (k / 8 + k) % 2 == 1 {
            let cand: TypedValue = match rng.below(6) {
                0 => tv.clone(),
                1 => {
                    // three unrelated values of the same type
                    TypedValue { t: triple(&t), value: Value::from_vector(vec![d[2].clone(), d[3].clone(), d[4].clone()]), name: None }
                }
                2 => {
                    let t2 = mutate(&t, &mut rng);
                    if t2.is_valid() {
                        let b = gen_value(&t2, &mut rng, &mut (false, false, false));
                        TypedValue { t: tuple_type(vec![t.clone(), t2, t.clone()]), value: Value::from_vector(vec![d[2].clone(), b, d[4].clone()]), name: None }
                    } else { tv.clone() }
                }
                3 => TypedValue { t: tuple_type(vec![t.clone(), t.clone()]), value: Value::from_vector(vec![d[2].clone(), d[3].clone()]), name: None },
                4 => TypedValue { t: triple(&t), value: Value::from_vector(vec![d[2].clone(), d[3].clone()]), name: None },
                _ => TypedValue { t: tuple_type(vec![]), value: Value::from_vector(vec![]), name: None },
            };
            if let Some(cc) = dec_tv(&cand) {
                let minput = json!({"candidate_type": format!("{}", cand.t)});
                let r = { let c = cand.clone(); observe(move || c.secret_share_reveal()) };
                out.stat(&format!("reveal-nonshare:{}", r.tag()));
                if let Some(rc) = opt_res(&r, dec_tv) {
                    out.case("secret_share_reveal_any", format!("secret_share_reveal {}", cc), rc, minput.clone(), true);
                }
                let r = { let c = cand.clone(); observe(move || ReplicatedShares::from_tuple(c)?.to_tuple()) };
                out.stat(&format!("from_tuple-any:{}", r.tag()));
                if let Some(rc) = opt_res(&r, dec_tv) {
                    out.case("rs_from_tuple_any", format!("bind (rs_from_tuple {}) rs_to_tuple", cc), rc, minput.clone(), true);
                }
                let r = { let c = cand.clone(); observe(move || ReplicatedShares::from_tuple(c)?.reveal()) };
                out.stat(&format!("from_tuple-reveal-any:{}", r.tag()));
                if let Some(rc) = opt_res(&r, dec_tv) {
                    out.case("rs_from_tuple_reveal_any", format!("bind (rs_from_tuple {}) rs_reveal", cc), rc, minput, true);
                }
            }
        }
    }

    // ---- mpc::utils::share_vector ---------------------------------------------------------------
    let sv_rounds = match tier { "thorough" => 40, "search" => 40, _ => 4 };
    for round in 0..sv_rounds {
        for &st in ALL_ST.iter() {
            let n = match round % 4 { _ if st == BIT && round % 2 == 0 => 1, 0 => 1, 1 => 1 + rng.below(4) as usize, 2 => rng.below(3) as usize, _ => 5 + rng.below(30) as usize };
            let data: Vec<i128> = (0..n).map(|_| if st == BIT { rng.below(2) as i128 } else { boundary_i128(st, &mut rng) }).collect();
            let sd = seed_of(&mut rng);
            let n_bytes = n * ((st.size_in_bits() as usize + 7) / 8); // data_types.rs scalar_size_in_bytes is crate-private
            let mut q = PRNG::new(Some(sd)).unwrap();
            let raw: Vec<Vec<u8>> = (0..5).map(|_| q.get_random_bytes(n_bytes).unwrap()).collect();
            let at = array_type(vec![n as u64], st);
            let rd = |b: &Vec<u8>| Value::from_bytes(b.clone()).to_flattened_array_u128(at.clone()).unwrap_or_default();
            let (r0, r1) = (rd(&raw[0]), rd(&raw[1]));
            let g: Vec<Vec<u128>> = raw[2..5].iter().map(|b| vec_u128_from_bytes(b, st).unwrap_or_default()).collect();
            let input = json!({"st": scalar(st), "n": n, "data": data.iter().take(6).map(|x| z_i128(*x)).collect::<Vec<_>>()});
            let r = { let data = data.clone(); observe(move || { let mut p = PRNG::new(Some(sd))?; share_vector(&mut p, &data, st) }) };
            out.stat(&format!("share_vector:{}:{}", if st == BIT { "Bit" } else { "non-bit" }, r.tag()));
            let t3 = triple(&at);
            if emit {
                if let Some(rc) = opt_res(&r, |vs| { let mut parts = vec![]; for x in vs { parts.push(dec(x, &t3)?); } Some(format!("[{}]", parts.join("; "))) }) {
                    out.case("share_vector", format!("share_vector {} {} {} {} {} {} {}", scalar(st), list_i128(&data), list_u128(&r0), list_u128(&r1), list_u128(&g[0]), list_u128(&g[1]), list_u128(&g[2])), rc, input.clone(), st != BIT && n > 0);
                }
            }
            match &r {
                Outcome::Ok(vs) => {
                    // oracle: layout and reconstruction through the crate's own reveal
                    let p: Vec<Vec<Value>> = vs.iter().map(|x| x.to_vector().unwrap()).collect();
                    let lay = p[0][0] == p[2][0] && p[0][1] == p[1][1] && p[1][2] == p[2][2];
                    let expect = Value::from_flattened_array(&data, st).unwrap();
                    let c = TypedValue { t: t3.clone(), value: Value::from_vector(vec![p[0][0].clone(), p[0][1].clone(), p[1][2].clone()]), name: None };
                    let rv = observe(move || c.secret_share_reveal());
                    let rec = matches!(&rv, Outcome::Ok(x) if x.value == expect);
                    if lay && rec { out.oracle_ok() } else { out.violation("share_vector", input.clone(), format!("layout ok: {}, reconstructs: {}", lay, rec)) }
                }
                Outcome::Err => {
                    // documented-by-code rejections only: empty data, or Bit data of more than one entry
                    if n == 0 || (st == BIT && n != 1) { out.stat("share_vector:rejected-as-modelled") } else { out.violation("share_vector-fails", input.clone(), "share_vector failed".into()) }
                }
                Outcome::Panic => out.violation("share_vector-panics", input.clone(), "share_vector panicked".into()),
            }
        }
    }

    // ---- distribution of one party's view (coarse; exact statement is C14_two_shares_uniform) ----
    // Bit secret, party 1 sees (s1, s2): over many seeds each of the 4 pairs must be about equally
    // frequent for secret 0 and for secret 1.
    let trials: u64 = if tier == "quick" { 800 } else { 4000 };
    for secret in 0..2u64 {
        for party in 0..3usize {
            let mut cnt = [0u64; 4];
            for _ in 0..trials {
                let sd = seed_of(&mut rng);
                let tv = TypedValue::from_scalar(secret, BIT).unwrap();
                let mut p = PRNG::new(Some(sd)).unwrap();
                let l = tv.get_local_shares_for_each_party(&mut p).unwrap();
                let s = slots(&l[party]);
                let a = s[party].to_u64(BIT).unwrap();
                let b = s[(party + 1) % 3].to_u64(BIT).unwrap();
                cnt[(2 * a + b) as usize] += 1;
            }
            let e = trials as f64 / 4.0;
            let sigma = (trials as f64 * 3.0 / 16.0).sqrt();
            let worst = cnt.iter().map(|c| ((*c as f64) - e).abs() / sigma).fold(0.0, f64::max);
            out.stat(&format!("view-distribution:secret{}:party{}:{:?}", secret, party, cnt));
            if worst > 5.5 {
                out.violation("view-not-uniform", json!({"secret": secret, "party": party, "counts": cnt.to_vec()}), format!("a cell deviates {:.1} sigma", worst));
            } else {
                out.oracle_ok();
            }
        }
    }
}

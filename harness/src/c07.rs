//! C07 — inlining preserves Call/Iterate semantics in every mode.
//! (1) Correspondence of Model/Prefix.v with inline/data_structures.rs + inline_common.rs through the
//!     hook `inline::verif_hooks::run_strategy` (recording combiner over symbolic term ids): for every
//!     length and each of the six strategies the Rust combination log, rebuilt into terms, must equal
//!     the model's run over the free term algebra.  Complete per length (the operation is symbolic).
//! (2) Native oracle of the property itself, Rust only: contexts with Call/Iterate are evaluated
//!     natively (the evaluator's own Call/Iterate) and after `inline_operations` in every mode; the
//!     two values must be equal.  A body with Random nodes must be instantiated afresh per copy.
//! (3) Correspondence of Model/Iterate.v: the inlined graph's value for the 2x2-matrix (associative,
//!     non-commutative) and the general u64 body equals the model strategy run on the same inputs.
use crate::coqfmt::*;
use crate::out::Out;
use crate::rng::Rng;
use ciphercore_base::data_types::*;
use ciphercore_base::data_values::Value;
use ciphercore_base::errors::Result;
use ciphercore_base::evaluators::random_evaluate;
use ciphercore_base::graphs::{create_context, Context, Graph, GraphAnnotation, Node, Operation, SliceElement};
use ciphercore_base::inline::inline_ops::{inline_operations, DepthOptimizationLevel, InlineConfig, InlineMode};
use ciphercore_base::inline::verif_hooks::run_strategy;
use serde_json::json;
use std::collections::HashSet;

pub const HEADER: &str = "From CC Require Import Base.Prelude Model.Prefix Model.Iterate.";

/// `observe` for closures capturing graphs/contexts (interior mutability; the captured objects are not
/// used again after a panic)
fn observe_g<T, F: FnOnce() -> Result<T>>(f: F) -> Outcome<T> {
    match std::panic::catch_unwind(std::panic::AssertUnwindSafe(f)) {
        Ok(Ok(x)) => Outcome::Ok(x),
        Ok(Err(_)) => Outcome::Err,
        Err(_) => Outcome::Panic,
    }
}

const STRATEGY: [&str; 6] = ["log_depth_sum", "binary_ascent", "sqrt_trick", "segment_tree", "pick_default", "pick_extreme"];

// ------------------------------------------------------------------------------------------ (1)
fn hook_tie(max_n: u64, out: &mut Out) {
    for n in 0..=max_n {
        for which in 0u8..6 {
            let r = observe(move || run_strategy(which, n));
            let input = json!({"strategy": STRATEGY[which as usize], "n": n});
            let rhs = match &r {
                Outcome::Ok((outs, log)) => {
                    // independent bookkeeping on the log: dead or duplicated combinations (inefficiency
                    // only, not a violation) are made visible in the evidence
                    let mut used: HashSet<u64> = outs.iter().cloned().collect();
                    for (l, r, id) in log.iter().rev() {
                        if used.contains(id) {
                            used.insert(*l);
                            used.insert(*r);
                        }
                    }
                    let dead = log.iter().filter(|(_, _, id)| !used.contains(id)).count();
                    let pairs: HashSet<(u64, u64)> = log.iter().map(|(l, r, _)| (*l, *r)).collect();
                    out.stat_n("log:combinations", log.len() as u64);
                    out.stat_n("log:dead_combinations", dead as u64);
                    out.stat_n("log:duplicate_combinations", (log.len() - pairs.len()) as u64);
                    format!(
                        "decode_ok {} ({})%N ({})%N",
                        n,
                        list(log, |(l, r, id)| format!("({},{},{})", l, r, id)),
                        list_u64(outs)
                    )
                }
                Outcome::Err => "Some Err".to_string(),
                Outcome::Panic => "Some Panic".to_string(),
            };
            out.stat(&format!("hook:{}:{}", STRATEGY[which as usize], r.tag()));
            out.case(
                &format!("sym:{}", STRATEGY[which as usize]),
                format!("Some (sym_run {} {})", which, n),
                rhs,
                input.clone(),
                n >= 2,
            );
            // oracle on the hook output itself (property-level: every output position i is a tree whose
            // leaves, read left to right, are exactly 0..=i; with an associative op that is the prefix sum)
            if let Outcome::Ok((outs, log)) = &r {
                let mut spans: std::collections::HashMap<u64, (u64, u64)> = (0..n).map(|i| (i, (i, i))).collect();
                let mut ok = true;
                for (l, r, id) in log {
                    match (spans.get(l).cloned(), spans.get(r).cloned()) {
                        (Some((a, b)), Some((c, d))) if b + 1 == c => {
                            spans.insert(*id, (a, d));
                        }
                        _ => ok = false,
                    }
                }
                if which == 0 {
                    ok = ok && outs.len() == 1 && spans.get(&outs[0]) == Some(&(0, n - 1));
                } else {
                    ok = ok && outs.len() as u64 == n;
                    for (i, o) in outs.iter().enumerate() {
                        ok = ok && spans.get(o) == Some(&(0, i as u64));
                    }
                }
                if ok {
                    out.oracle_ok();
                } else {
                    out.violation(&format!("prefix-spans:{}", STRATEGY[which as usize]), input, "an output is not the in-order combination of items 0..=i".into());
                }
            } else if !(which == 0 && n == 0) {
                out.violation(&format!("prefix-fails:{}", STRATEGY[which as usize]), input, "strategy failed".into());
            }
        }
    }
}

// ------------------------------------------------------------------------------------------ (2)
#[derive(Clone, Copy, Debug, PartialEq)]
enum Kind {
    General,      // u64 state, s' = s*s + x, no annotation
    Empty,        // empty-tuple state
    AssocMat,     // 2x2 u64 matrices, s' = s x (non-commutative), AssociativeOperation
    AssocMatVoid, // same, empty output (log_depth_sum path)
    OneBit,       // BIT array state, one bit per entry, s' = s*x0 + x1, OneBitState
    OneBitScalar, // BIT scalar state
    OneBitVoid,   // BIT array state, empty output
    SmallState,   // BIT array (b, K), K in 1..4, rows independent, SmallState
    SmallVoid,    // same, empty output
    Nested,       // general body reached through Call inside the iterated graph + outer calls
}
const KINDS: [Kind; 10] = [
    Kind::General, Kind::Empty, Kind::AssocMat, Kind::AssocMatVoid, Kind::OneBit, Kind::OneBitScalar,
    Kind::OneBitVoid, Kind::SmallState, Kind::SmallVoid, Kind::Nested,
];

fn u64s() -> Type {
    scalar_type(UINT64)
}

/// state type, input element type
fn kind_types(kind: Kind, batch: u64, k: u64) -> (Type, Type) {
    match kind {
        Kind::General | Kind::Nested => (u64s(), u64s()),
        Kind::Empty => (tuple_type(vec![]), u64s()),
        Kind::AssocMat | Kind::AssocMatVoid => (array_type(vec![2, 2], UINT64), array_type(vec![2, 2], UINT64)),
        Kind::OneBit | Kind::OneBitVoid => (array_type(vec![batch], BIT), array_type(vec![2, batch], BIT)),
        Kind::OneBitScalar => (scalar_type(BIT), array_type(vec![2], BIT)),
        Kind::SmallState | Kind::SmallVoid => (array_type(vec![batch, k], BIT), array_type(vec![batch, k], BIT)),
    }
}

/// Builds the iterated graph for `kind` in context `c` (finalized), returns it.
fn build_body(c: &Context, kind: Kind, batch: u64, k: u64, with_random: bool) -> Result<Graph> {
    let (st, it) = kind_types(kind, batch, k);
    let inner = if kind == Kind::Nested {
        // h(a, b) = a*a + b, called from the body
        let h = c.create_graph()?;
        let a = h.input(u64s())?;
        let b = h.input(u64s())?;
        let mut o = a.multiply(a.clone())?.add(b)?;
        if with_random {
            o = o.add(h.random(u64s())?)?;
        }
        h.set_output_node(o)?;
        h.finalize()?;
        Some(h)
    } else {
        None
    };
    let g = c.create_graph()?;
    let s = g.input(st.clone())?;
    let x = g.input(it.clone())?;
    let void = |g: &Graph| g.create_tuple(vec![]);
    let (ns, o) = match kind {
        Kind::General => {
            let mut ns = s.multiply(s.clone())?.add(x.clone())?;
            if with_random {
                ns = ns.add(g.random(u64s())?)?;
            }
            let mut o = ns.multiply(x.clone())?.add(s.clone())?;
            if with_random {
                o = o.add(g.random(u64s())?)?;
            }
            (ns, o)
        }
        Kind::Nested => {
            let ns = g.call(inner.clone().unwrap(), vec![s.clone(), x.clone()])?;
            let o = g.call(inner.unwrap(), vec![x.clone(), ns.clone()])?;
            (ns, o)
        }
        Kind::Empty => {
            let mut o = x.multiply(x.clone())?.add(x.clone())?;
            if with_random {
                o = o.add(g.random(u64s())?)?;
            }
            (s.clone(), o)
        }
        Kind::AssocMat | Kind::AssocMatVoid => {
            let mut ns = s.matmul(x.clone())?;
            if with_random {
                ns = ns.add(g.random(st.clone())?)?;
            }
            let o = if kind == Kind::AssocMat { ns.add(x.clone())? } else { void(&g)? };
            (ns, o)
        }
        Kind::OneBit | Kind::OneBitVoid | Kind::OneBitScalar => {
            let x0 = x.get(vec![0])?;
            let x1 = x.get(vec![1])?;
            let ns = s.multiply(x0.clone())?.add(x1.clone())?;
            let o = if kind == Kind::OneBitVoid { void(&g)? } else { ns.multiply(x1)?.add(s.clone())?.add(x0)? };
            (ns, o)
        }
        Kind::SmallState | Kind::SmallVoid => {
            // per row: t = s xor x; u_0 = t_0; u_i = t_i * u_{i-1} + x_i; s'_i = u_{(i+1) mod K}
            let t = s.add(x.clone())?;
            let col = |a: &Node, i: u64| a.get_slice(vec![SliceElement::Ellipsis, SliceElement::SingleIndex(i as i64)]);
            let mut u: Vec<Node> = vec![col(&t, 0)?];
            for i in 1..k {
                let prev = u[(i - 1) as usize].clone();
                u.push(col(&t, i)?.multiply(prev)?.add(col(&x, i)?)?);
            }
            let rot: Vec<Node> = (0..k).map(|i| u[((i + 1) % k) as usize].clone()).collect();
            let ns = g.create_vector(rot[0].get_type()?, rot)?.vector_to_array()?.permute_axes(vec![1, 0])?;
            let o = if kind == Kind::SmallVoid { void(&g)? } else { ns.add(s.clone())? };
            (ns, o)
        }
    };
    g.create_tuple(vec![ns, o])?.set_as_output()?;
    match kind {
        Kind::AssocMat | Kind::AssocMatVoid => {
            g.add_annotation(GraphAnnotation::AssociativeOperation)?;
        }
        Kind::OneBit | Kind::OneBitVoid | Kind::OneBitScalar => {
            g.add_annotation(GraphAnnotation::OneBitState)?;
        }
        Kind::SmallState | Kind::SmallVoid => {
            g.add_annotation(GraphAnnotation::SmallState)?;
        }
        _ => {}
    }
    g.finalize()?;
    Ok(g)
}

/// main(s0, xs) = Iterate(body, s0, xs), wrapped in one Call level for kind Nested.
fn build_context(kind: Kind, n: u64, batch: u64, k: u64, with_random: bool) -> Result<Context> {
    let c = create_context()?;
    let body = build_body(&c, kind, batch, k, with_random)?;
    let (st, it) = kind_types(kind, batch, k);
    let mk = |g: &Graph| -> Result<Node> {
        let s0 = g.input(st.clone())?;
        let xs = g.input(vector_type(n, it.clone()))?;
        g.iterate(body.clone(), s0, xs)
    };
    let main = if kind == Kind::Nested {
        let mid = c.create_graph()?;
        mk(&mid)?.set_as_output()?;
        mid.finalize()?;
        let main = c.create_graph()?;
        let s0 = main.input(st.clone())?;
        let xs = main.input(vector_type(n, it.clone()))?;
        let r1 = main.call(mid.clone(), vec![s0, xs.clone()])?;
        let r2 = main.call(mid, vec![r1.tuple_get(0)?, xs])?;
        main.create_tuple(vec![r1, r2])?.set_as_output()?;
        main
    } else {
        let main = c.create_graph()?;
        mk(&main)?.set_as_output()?;
        main
    };
    main.finalize()?;
    c.set_main_graph(main)?;
    c.finalize()?;
    Ok(c)
}

fn rand_value(t: &Type, rng: &mut Rng) -> Value {
    match t {
        Type::Scalar(st) => {
            if *st == BIT {
                Value::from_scalar(rng.below(2), BIT).unwrap()
            } else {
                Value::from_scalar(pick_u64(rng), *st).unwrap()
            }
        }
        Type::Array(sh, st) => {
            let len: u64 = sh.iter().product();
            let v: Vec<u64> = (0..len).map(|_| if *st == BIT { rng.below(2) } else { pick_u64(rng) }).collect();
            Value::from_flattened_array(&v, *st).unwrap()
        }
        Type::Tuple(ts) => Value::from_vector(ts.iter().map(|t| rand_value(t, rng)).collect()),
        Type::Vector(n, t) => Value::from_vector((0..*n).map(|_| rand_value(t, rng)).collect()),
        _ => unreachable!(),
    }
}
fn pick_u64(rng: &mut Rng) -> u64 {
    match rng.below(8) {
        0 => 0,
        1 => 1,
        2 => u64::MAX,
        3 => 1 << 63,
        4 => rng.below(5),
        _ => rng.next(),
    }
}

fn mode_name(m: &InlineMode) -> &'static str {
    match m {
        InlineMode::Noop => "noop",
        InlineMode::Simple => "simple",
        InlineMode::DepthOptimized(DepthOptimizationLevel::Default) => "depth-default",
        InlineMode::DepthOptimized(DepthOptimizationLevel::Extreme) => "depth-extreme",
    }
}

fn configs() -> Vec<(String, InlineConfig)> {
    let modes = [
        InlineMode::Simple,
        InlineMode::DepthOptimized(DepthOptimizationLevel::Default),
        InlineMode::DepthOptimized(DepthOptimizationLevel::Extreme),
    ];
    let mut v = vec![];
    for m in modes.iter() {
        v.push((mode_name(m).to_string(), InlineConfig { default_mode: m.clone(), override_call_mode: None, override_iterate_mode: None }));
    }
    // per-operation overrides: iterate inlined in a depth mode while calls stay / are simple, and conversely
    for m in modes.iter() {
        v.push((format!("noop+iterate:{}", mode_name(m)), InlineConfig { default_mode: InlineMode::Noop, override_call_mode: None, override_iterate_mode: Some(m.clone()) }));
    }
    v.push(("simple+iterate:depth-default".into(), InlineConfig { default_mode: InlineMode::Simple, override_call_mode: None, override_iterate_mode: Some(modes[1].clone()) }));
    v.push(("depth-extreme+call:noop".into(), InlineConfig { default_mode: modes[2].clone(), override_call_mode: Some(InlineMode::Noop), override_iterate_mode: None }));
    v.push(("depth-default+iterate:noop".into(), InlineConfig { default_mode: modes[1].clone(), override_call_mode: None, override_iterate_mode: Some(InlineMode::Noop) }));
    v
}

fn count_ops(c: &Context) -> (usize, usize, usize) {
    let (mut calls, mut iters, mut rnd) = (0, 0, 0);
    for g in c.get_graphs() {
        for node in g.get_nodes() {
            match node.get_operation() {
                Operation::Call => calls += 1,
                Operation::Iterate => iters += 1,
                Operation::Random(_) => rnd += 1,
                _ => {}
            }
        }
    }
    (calls, iters, rnd)
}
fn count_random_main(c: &Context) -> usize {
    c.get_main_graph().unwrap().get_nodes().iter().filter(|n| matches!(n.get_operation(), Operation::Random(_))).count()
}

fn u64_list_of(v: &Value, t: Type) -> Vec<u64> {
    v.to_flattened_array_u64(t).unwrap()
}

fn semantic(tier: &str, rng: &mut Rng, out: &mut Out) {
    let max_n: u64 = 40;
    let reps = if tier == "quick" { 1 } else { 3 };
    let cfgs = configs();
    for &kind in KINDS.iter() {
        for n in 0..=max_n {
            // quick: every length for the three base modes; overrides on a sub-sample of lengths
            for rep in 0..reps {
                let batch = 1 + rng.below(3);
                let k = 1 + (n + rep) % 4;
                let c = match build_context(kind, n, batch, k, false) {
                    Ok(c) => c,
                    Err(e) => {
                        out.violation("build-context", json!({"kind": format!("{:?}", kind), "n": n}), format!("harness could not build the context: {}", e));
                        continue;
                    }
                };
                let (st, it) = kind_types(kind, batch, k);
                let inputs = vec![rand_value(&st, rng), rand_value(&vector_type(n, it.clone()), rng)];
                let native = {
                    let (g, i) = (c.get_main_graph().unwrap(), inputs.clone());
                    observe_g(move || random_evaluate(g, i))
                };
                out.stat(&format!("native:{:?}:{}", kind, native.tag()));
                let native = match native {
                    Outcome::Ok(v) => v,
                    _ => {
                        out.violation("native-eval-fails", json!({"kind": format!("{:?}", kind), "n": n}), "native evaluation of Iterate failed".into());
                        continue;
                    }
                };
                for (ci, (cname, cfg)) in cfgs.iter().enumerate() {
                    if ci >= 3 && tier == "quick" && !(n <= 2 || n == 15 || n == 16 || n == 17 || n == 33) {
                        continue;
                    }
                    let input = json!({"kind": format!("{:?}", kind), "n": n, "batch": batch, "k": k, "config": cname});
                    let inl = {
                        let (c2, cfg2) = (c.clone(), cfg.clone());
                        observe_g(move || Ok(inline_operations(&c2, cfg2)?.get_context()))
                    };
                    out.stat(&format!("inline:{}:{}", cname, inl.tag()));
                    let ic = match inl {
                        Outcome::Ok(ic) => ic,
                        _ => {
                            out.violation(&format!("inline-fails:{:?}", kind), input, "inline_operations failed on a graph satisfying the strategy's contract".into());
                            continue;
                        }
                    };
                    let (calls, iters, _) = count_ops(&ic);
                    let full = cfg.default_mode != InlineMode::Noop && cfg.override_call_mode.is_none() && cfg.override_iterate_mode.is_none();
                    if full && (calls != 0 || iters != 0 || ic.get_graphs().len() != 1) {
                        out.violation(&format!("inline-leftover:{:?}", kind), input.clone(), format!("{} Call / {} Iterate nodes left, {} graphs", calls, iters, ic.get_graphs().len()));
                    }
                    let after = {
                        let (g, i) = (ic.get_main_graph().unwrap(), inputs.clone());
                        observe_g(move || random_evaluate(g, i))
                    };
                    match after {
                        Outcome::Ok(v) if v == native => out.oracle_ok(),
                        Outcome::Ok(v) => out.violation(
                            &format!("inline-changes-value:{:?}:{}", kind, cname),
                            input.clone(),
                            format!("native {:?} vs inlined {:?}", native, v).chars().take(600).collect(),
                        ),
                        _ => out.violation(&format!("inlined-eval-fails:{:?}:{}", kind, cname), input.clone(), "evaluation of the inlined graph failed".into()),
                    }
                    out.stat(&format!("sem:{:?}", kind));
                    out.stat(&format!("len:{}", n));
                    // (3) Model/Iterate.v tie on the value level
                    if ci < 3 && rep == 0 && matches!(kind, Kind::AssocMat | Kind::AssocMatVoid | Kind::General | Kind::OneBitScalar) {
                        iterate_tie(kind, ci, n, &ic, &inputs, out);
                    }
                }
            }
        }
    }
}

/// lhs: the model strategy the inliner selects for (kind, mode), run on the body's function over Z mod 2^64;
/// rhs: value of the inlined graph computed by /repo's evaluator.
fn iterate_tie(kind: Kind, ci: usize, n: u64, ic: &Context, inputs: &[Value], out: &mut Out) {
    let (g, i) = (ic.get_main_graph().unwrap(), inputs.to_vec());
    let v = match observe_g(move || random_evaluate(g, i)) {
        Outcome::Ok(v) => v,
        _ => return,
    };
    let parts = v.to_vector().unwrap();
    let lvl = if ci == 2 { "LvlExtreme" } else { "LvlDefault" };
    let xs_v = inputs[1].to_vector().unwrap();
    match kind {
        Kind::General => {
            let s0 = inputs[0].to_u64(UINT64).unwrap();
            let xs: Vec<u64> = xs_v.iter().map(|x| x.to_u64(UINT64).unwrap()).collect();
            let fin = parts[0].to_u64(UINT64).unwrap();
            let outs: Vec<u64> = parts[1].to_vector().unwrap().iter().map(|x| x.to_u64(UINT64).unwrap()).collect();
            // no annotation: every mode uses the simple strategy
            out.case(
                "iter:general",
                format!("iterate_simple body_sq {} {}", s0, list_u64(&xs)),
                format!("Ok ({}, {})", fin, list_u64(&outs)),
                json!({"kind": "General", "n": n, "mode": ci}),
                n >= 2,
            );
        }
        Kind::OneBitScalar => {
            let s0 = inputs[0].to_u64(BIT).unwrap();
            let xt = array_type(vec![2], BIT);
            let xs: Vec<String> = xs_v.iter().map(|x| { let a = u64_list_of(x, xt.clone()); format!("({},{})", a[0], a[1]) }).collect();
            let fin = parts[0].to_u64(BIT).unwrap();
            let outs: Vec<u64> = parts[1].to_vector().unwrap().iter().map(|x| x.to_u64(BIT).unwrap()).collect();
            let lhs = if ci == 0 {
                format!("iterate_simple body_bit {} [{}]", s0, xs.join("; "))
            } else {
                format!("iterate_small_state body_bit false 0 {} {} [{}]", lvl, s0, xs.join("; "))
            };
            out.case("iter:onebit", lhs, format!("Ok ({}, {})", fin, list_u64(&outs)), json!({"kind": "OneBitScalar", "n": n, "mode": ci}), n >= 2);
        }
        _ => {
            let mt = array_type(vec![2, 2], UINT64);
            let m = |v: &Value| {
                let a = u64_list_of(v, mt.clone());
                format!("({},{},{},{})", a[0], a[1], a[2], a[3])
            };
            let xs: Vec<String> = xs_v.iter().map(|x| m(x)).collect();
            let fin = m(&parts[0]);
            let void = kind == Kind::AssocMatVoid;
            let outs: Vec<String> = parts[1].to_vector().unwrap().iter().map(|x| if void { "tt".to_string() } else { m(x) }).collect();
            let (body, strat) = if void { ("body_mat_void", "true tt") } else { ("body_mat", "false (0,0,0,0)") };
            let lhs = if ci == 0 {
                format!("iterate_simple {} {} [{}]", body, m(&inputs[0]), xs.join("; "))
            } else {
                format!("iterate_associative {} {} {} {} [{}]", body, strat, lvl, m(&inputs[0]), xs.join("; "))
            };
            out.case(
                if void { "iter:assoc-void" } else { "iter:assoc" },
                lhs,
                format!("Ok ({}, [{}])", fin, outs.join("; ")),
                json!({"kind": format!("{:?}", kind), "n": n, "mode": ci}),
                n >= 2,
            );
        }
    }
}

/// A body that draws randomness is instantiated afresh for every inlined copy: the number of Random
/// nodes of the inlined main graph equals (number of body copies) x (Random nodes per body).
fn randomness(tier: &str, out: &mut Out) {
    let lens: Vec<u64> = if tier == "quick" { vec![0, 1, 2, 3, 7, 15, 16, 17, 33] } else { (0..=40).collect() };
    let modes = [
        InlineMode::Simple,
        InlineMode::DepthOptimized(DepthOptimizationLevel::Default),
        InlineMode::DepthOptimized(DepthOptimizationLevel::Extreme),
    ];
    for &kind in [Kind::General, Kind::Empty, Kind::Nested, Kind::AssocMat].iter() {
        for &n in lens.iter() {
            let c = match build_context(kind, n, 1, 1, true) {
                Ok(c) => c,
                Err(e) => {
                    out.violation("build-context", json!({"kind": format!("{:?}", kind), "n": n, "random": true}), format!("{}", e));
                    continue;
                }
            };
            for (mi, m) in modes.iter().enumerate() {
                let input = json!({"kind": format!("{:?}", kind), "n": n, "mode": mode_name(m), "random": true});
                let ic = {
                    let (c2, m2) = (c.clone(), m.clone());
                    match observe_g(move || Ok(inline_operations(&c2, InlineConfig { default_mode: m2, override_call_mode: None, override_iterate_mode: None })?.get_context())) {
                        Outcome::Ok(ic) => ic,
                        _ => {
                            out.violation("inline-fails:random-body", input, "inline_operations failed".into());
                            continue;
                        }
                    }
                };
                // expected number of copies of the body
                let expected = match kind {
                    Kind::General => 2 * n,              // two Random nodes per body, n copies
                    Kind::Empty => n,                    // one per body
                    Kind::Nested => 2 * (2 * n),         // two outer calls x n steps x two calls of h (one Random each)
                    Kind::AssocMat => {
                        // simple: n copies; depth modes: one copy per combination of the chosen prefix
                        // algorithm on n+1 items (counted by the hook) plus one per output
                        if mi == 0 || n == 0 {
                            n
                        } else {
                            let which = if mi == 2 { 1 } else if n < 16 { 2 } else { 3 };
                            run_strategy(which, n + 1).unwrap().1.len() as u64 + n
                        }
                    }
                    _ => unreachable!(),
                };
                let got = count_random_main(&ic) as u64;
                out.stat(&format!("random-count:{:?}", kind));
                if got == expected {
                    out.oracle_ok();
                } else {
                    out.violation(&format!("random-not-fresh:{:?}:{}", kind, mode_name(m)), input, format!("{} Random nodes after inlining, {} body copies expected", got, expected));
                }
            }
        }
    }
}

pub fn run(tier: &str, seed: u64, out: &mut Out) {
    let mut rng = Rng::new(seed ^ 0xC07);
    let max_n = match tier {
        "quick" => 64,
        "thorough" => 300,
        _ => 0,
    };
    if tier != "search" {
        hook_tie(max_n, out);
    }
    semantic(tier, &mut rng, out);
    randomness(tier, out);
}

//! C19 — joins implement the documented relational semantics, also when compiled.
//! Correspondence of Model/JoinImpl.v and Model/JoinSpec.v with the plaintext evaluation of
//! `Operation::Join` / `Operation::JoinWithColumnMasks` in /repo, a native reference join written
//! from the documentation (graphs.rs:1847-2015), and the compiled secure join checked
//! differentially against it (single global evaluator, several seeds).
use crate::coqfmt::*;
use crate::out::Out;
use crate::rng::Rng;
use ciphercore_base::data_types::*;
use ciphercore_base::data_values::Value;
use ciphercore_base::evaluators::{evaluate_simple_evaluator, random_evaluate};
use ciphercore_base::graphs::{create_context, Context, JoinType, Operation};
use ciphercore_base::inline::inline_common::DepthOptimizationLevel;
use ciphercore_base::inline::inline_ops::{InlineConfig, InlineMode};
use ciphercore_base::mpc::mpc_compiler::{prepare_for_mpc_evaluation, IOStatus};
use ciphercore_base::type_inference::NULL_HEADER;
use serde_json::json;
use std::collections::HashMap;

pub const HEADER: &str =
    "From CC Require Import Base.Prelude Model.JoinTable Model.JoinImpl Model.JoinSpec.";

// ------------------------------------------------------------------------------------ tables
#[derive(Clone, Debug, PartialEq)]
struct Col {
    name: String,
    st: ScalarType,
    row_shape: Vec<u64>,
    mask: Option<Vec<u8>>, // None for the null column and in the plain variant
    rows: Vec<Vec<u128>>,
}
type Table = Vec<Col>;

/// Decoded form of a column, what is compared with Coq and with the reference join.
#[derive(Clone, Debug, PartialEq)]
struct DCol {
    name: String,
    rs: usize,
    mask: Vec<u8>,
    rows: Vec<Vec<u128>>,
}

impl Col {
    fn rs(&self) -> usize {
        self.row_shape.iter().product::<u64>() as usize
    }
    fn n(&self) -> usize {
        self.rows.len()
    }
    fn data_type(&self) -> Type {
        let mut sh = vec![self.n() as u64];
        sh.extend(self.row_shape.iter());
        array_type(sh, self.st)
    }
    fn ty(&self) -> Type {
        match &self.mask {
            Some(_) => tuple_type(vec![array_type(vec![self.n() as u64], BIT), self.data_type()]),
            None => self.data_type(),
        }
    }
    fn value(&self) -> Value {
        let flat: Vec<u128> = self.rows.iter().flatten().cloned().collect();
        let d = Value::from_flattened_array(&flat, self.st).unwrap();
        match &self.mask {
            Some(m) => Value::from_vector(vec![Value::from_flattened_array(m, BIT).unwrap(), d]),
            None => d,
        }
    }
    fn decoded(&self) -> DCol {
        DCol { name: self.name.clone(), rs: self.rs(), mask: self.mask.clone().unwrap_or_default(), rows: self.rows.clone() }
    }
}
fn table_type(t: &Table) -> Type {
    named_tuple_type(t.iter().map(|c| (c.name.clone(), c.ty())).collect())
}
fn table_value(t: &Table) -> Value {
    Value::from_vector(t.iter().map(|c| c.value()).collect())
}
fn coq_name(n: &str) -> String {
    if n == NULL_HEADER { "null_header".to_string() } else { coq_string(n) }
}
fn coq_dtable(t: &[DCol]) -> String {
    list(t, |c| {
        format!(
            "({}, mkcol {} {} {})",
            coq_name(&c.name),
            c.rs,
            list_u8(&c.mask),
            list(&c.rows, |r| list_u128(r))
        )
    })
}
fn coq_table(t: &Table) -> String {
    let d: Vec<DCol> = t.iter().map(|c| c.decoded()).collect();
    coq_dtable(&d)
}
fn coq_keys(keys: &[(String, String)]) -> String {
    list(keys, |(a, b)| format!("({}, {})", coq_string(a), coq_string(b)))
}
fn coq_jt(jt: JoinType) -> &'static str {
    match jt {
        JoinType::Inner => "JInner",
        JoinType::Left => "JLeft",
        JoinType::Union => "JUnion",
        JoinType::Full => "JFull",
    }
}
fn wmask(st: ScalarType) -> u128 {
    let w = st.size_in_bits();
    if w >= 128 { u128::MAX } else { (1u128 << w) - 1 }
}

/// Decodes the output named tuple with the typed accessors, by the node's type.
fn decode(v: &Value, t: &Type, masked: bool) -> ciphercore_base::errors::Result<Vec<DCol>> {
    let cols = v.to_vector()?;
    let nts = t.get_named_types()?;
    let mut res = vec![];
    for (i, (h, ct)) in nts.iter().enumerate() {
        let (mask, dv, dt) = if masked && h != NULL_HEADER {
            let pair = cols[i].to_vector()?;
            let ts = get_types_vector(ct.clone())?;
            let m = pair[0].to_flattened_array_u8((*ts[0]).clone())?;
            (m, pair[1].clone(), (*ts[1]).clone())
        } else {
            (vec![], cols[i].clone(), ct.clone())
        };
        let shape = dt.get_shape();
        let rs = shape[1..].iter().product::<u64>() as usize;
        let wm = wmask(dt.get_scalar_type());
        let flat: Vec<u128> = dv.to_flattened_array_u128(dt.clone())?.iter().map(|x| x & wm).collect();
        let rows: Vec<Vec<u128>> = flat.chunks(rs.max(1)).map(|c| c.to_vec()).collect();
        res.push(DCol { name: h.clone(), rs, mask, rows });
    }
    Ok(res)
}

// ------------------------------------------------------------- reference join (documentation)
// Written from graphs.rs:1847-2015 and type_inference.rs:339-358, row by row: an output row starts
// as the zero row and receives the data "that can be retrieved" from the contributing input rows.
struct RefTable<'a> {
    t: &'a Table,
    masked: bool,
}
impl<'a> RefTable<'a> {
    fn col(&self, h: &str) -> &Col {
        self.t.iter().find(|c| c.name == h).unwrap()
    }
    fn n(&self) -> usize {
        self.t[0].n()
    }
    fn live(&self, i: usize) -> bool {
        self.col(NULL_HEADER).rows[i][0] != 0
    }
    fn mask(&self, h: &str, i: usize) -> u8 {
        if self.masked { self.col(h).mask.as_ref().unwrap()[i] } else { 1 }
    }
    fn key_live(&self, khs: &[String], i: usize) -> bool {
        self.live(i) && khs.iter().all(|h| self.mask(h, i) == 1)
    }
    fn key(&self, khs: &[String], i: usize) -> Vec<u128> {
        khs.iter().flat_map(|h| self.col(h).rows[i].clone()).collect()
    }
    fn find(&self, khs: &[String], key: &[u128]) -> Option<usize> {
        (0..self.n()).find(|&i| self.key_live(khs, i) && self.key(khs, i) == key)
    }
}
struct RefOut {
    cols: Vec<DCol>,
    masked: bool,
}
impl RefOut {
    fn push_zero_row(&mut self) {
        for c in self.cols.iter_mut() {
            c.rows.push(vec![0; c.rs]);
            if self.masked && c.name != NULL_HEADER {
                c.mask.push(0);
            }
        }
    }
    /// overwrite the entry of column `h` in the last row with entry `i` of column `src_h` of `src`
    fn put(&mut self, h: &str, src: &RefTable, src_h: &str, i: usize) {
        let c = self.cols.iter_mut().find(|c| c.name == h).unwrap();
        let last = c.rows.len() - 1;
        if h == NULL_HEADER {
            c.rows[last] = vec![1];
            return;
        }
        if src.mask(src_h, i) == 1 {
            c.rows[last] = src.col(src_h).rows[i].clone();
            if self.masked {
                c.mask[last] = 1;
            }
        }
    }
}
fn ref_join(jt: JoinType, masked: bool, a: &Table, b: &Table, keys: &[(String, String)]) -> Vec<DCol> {
    let (ra, rb) = (RefTable { t: a, masked }, RefTable { t: b, masked });
    let kh0: Vec<String> = keys.iter().map(|k| k.0.clone()).collect();
    let kh1: Vec<String> = keys.iter().map(|k| k.1.clone()).collect();
    let a_names: Vec<String> = a.iter().map(|c| c.name.clone()).collect();
    let b_extra: Vec<&Col> = b.iter().filter(|c| !a_names.contains(&c.name) && !kh1.contains(&c.name)).collect();
    let mut out = RefOut { cols: vec![], masked };
    for c in a.iter().chain(b_extra.iter().cloned()) {
        out.cols.push(DCol { name: c.name.clone(), rs: c.rs(), mask: vec![], rows: vec![] });
    }
    let put_a = |out: &mut RefOut, i: usize| {
        for c in a.iter() {
            out.put(&c.name, &ra, &c.name, i);
        }
    };
    let put_b_extra = |out: &mut RefOut, j: usize| {
        for c in b_extra.iter() {
            out.put(&c.name, &rb, &c.name, j);
        }
    };
    let match_in_b = |i: usize| if ra.key_live(&kh0, i) { rb.find(&kh1, &ra.key(&kh0, i)) } else { None };
    let match_in_a = |j: usize| if rb.key_live(&kh1, j) { ra.find(&kh0, &rb.key(&kh1, j)) } else { None };
    for i in 0..ra.n() {
        out.push_zero_row();
        let m = match_in_b(i);
        match jt {
            JoinType::Inner => {
                if let Some(j) = m {
                    put_a(&mut out, i);
                    put_b_extra(&mut out, j);
                }
            }
            JoinType::Left => {
                if ra.live(i) {
                    put_a(&mut out, i);
                    if let Some(j) = m {
                        put_b_extra(&mut out, j);
                    }
                }
            }
            JoinType::Union | JoinType::Full => {
                if ra.live(i) && m.is_none() {
                    put_a(&mut out, i);
                }
            }
        }
    }
    if jt == JoinType::Union || jt == JoinType::Full {
        for j in 0..rb.n() {
            out.push_zero_row();
            if !rb.live(j) {
                continue;
            }
            if jt == JoinType::Full {
                if let Some(i) = match_in_a(j) {
                    put_a(&mut out, i);
                }
            }
            out.put(NULL_HEADER, &rb, NULL_HEADER, j);
            for (h0, h1) in keys {
                // the key columns carry the second table's own entries (its own masks)
                let c = out.cols.iter_mut().find(|c| &c.name == h0).unwrap();
                let last = c.rows.len() - 1;
                c.rows[last] = vec![0; c.rs];
                if masked {
                    c.mask[last] = 0;
                }
                out.put(h0, &rb, h1, j);
            }
            put_b_extra(&mut out, j);
        }
    }
    out.cols
}

// --------------------------------------------------------------------------------- generator
const KEY_TYPES: [ScalarType; 8] = [BIT, UINT8, INT8, UINT16, INT32, UINT64, INT64, UINT128];
const ROW_SHAPES: [&[u64]; 6] = [&[], &[], &[2], &[3], &[2, 2], &[1]];

fn rand_elem(st: ScalarType, small: bool, rng: &mut Rng) -> u128 {
    let wm = wmask(st);
    if st == BIT {
        return rng.below(2) as u128;
    }
    if small {
        // few values, so that key tuples often agree in some columns and differ in others
        let w = st.size_in_bits();
        let pool = [0u128, 1, 2, wm, 1u128 << (w - 1), (1u128 << (w - 1)) - 1];
        return pool[rng.below(6) as usize] & wm;
    }
    rng.u128() & wm
}
fn rand_row(st: ScalarType, rs: usize, small: bool, rng: &mut Rng) -> Vec<u128> {
    (0..rs).map(|_| rand_elem(st, small, rng)).collect()
}

#[derive(Clone)]
struct KeyCol {
    h0: String,
    h1: String,
    st: ScalarType,
    row_shape: Vec<u64>,
}
#[derive(Clone, Copy, PartialEq, Debug)]
enum RowKind {
    Live(usize),
    Null,
    MaskedKey,
}
struct Instance {
    a: Table,
    b: Table,
    keys: Vec<(String, String)>,
    masked: bool,
    overlap: &'static str,
    live: (usize, usize),
    nulls: (usize, usize),
    masked_keys: (usize, usize),
    null_first_b: bool,
    dup: bool,
}

fn build_table(
    which: usize,
    kcs: &[KeyCol],
    pool: &[Vec<Vec<u128>>],
    kinds: &[RowKind],
    n_payload: usize,
    masked: bool,
    null_first: bool,
    shuffle: bool,
    rng: &mut Rng,
) -> Table {
    let n = kinds.len();
    let mut cols: Table = vec![];
    let mut key_masks: Vec<Vec<u8>> = vec![vec![1; n]; kcs.len()];
    for (r, k) in kinds.iter().enumerate() {
        match k {
            RowKind::MaskedKey => {
                let z = rng.below(kcs.len() as u64) as usize;
                for c in 0..kcs.len() {
                    if c == z || rng.chance(1, 3) {
                        key_masks[c][r] = 0;
                    }
                }
            }
            RowKind::Null => {
                for c in 0..kcs.len() {
                    key_masks[c][r] = rng.below(2) as u8;
                }
            }
            _ => {}
        }
    }
    for (c, kc) in kcs.iter().enumerate() {
        let rs = kc.row_shape.iter().product::<u64>() as usize;
        let rows: Vec<Vec<u128>> = kinds
            .iter()
            .map(|k| match k {
                RowKind::Live(p) => pool[*p][c].clone(),
                // void / masked rows: often the key of some live row (they must be ignored)
                _ => {
                    if !pool.is_empty() && rng.chance(2, 3) {
                        pool[rng.below(pool.len() as u64) as usize][c].clone()
                    } else {
                        rand_row(kc.st, rs, true, rng)
                    }
                }
            })
            .collect();
        cols.push(Col {
            name: if which == 0 { kc.h0.clone() } else { kc.h1.clone() },
            st: kc.st,
            row_shape: kc.row_shape.clone(),
            mask: if masked { Some(key_masks[c].clone()) } else { None },
            rows,
        });
    }
    for p in 0..n_payload {
        let st = *rng.pick(&crate::gen::ALL_ST);
        let row_shape = rng.pick(&ROW_SHAPES).to_vec();
        let rs = row_shape.iter().product::<u64>() as usize;
        let rows = (0..n).map(|_| { let small = rng.chance(1, 2); rand_row(st, rs, small, rng) }).collect();
        let mask = if masked { Some((0..n).map(|_| if rng.chance(4, 5) { 1 } else { 0 }).collect()) } else { None };
        cols.push(Col { name: format!("{}{}", if which == 0 { "pa" } else { "pb" }, p), st, row_shape, mask, rows });
    }
    if shuffle {
        rng.shuffle(&mut cols);
    }
    let null = Col {
        name: NULL_HEADER.to_string(),
        st: BIT,
        row_shape: vec![],
        mask: None,
        rows: kinds.iter().map(|k| vec![if *k == RowKind::Null { 0 } else { 1 }]).collect(),
    };
    let pos = if null_first { 0 } else { rng.below(cols.len() as u64 + 1) as usize };
    cols.insert(pos, null);
    cols
}

fn gen_instance(rng: &mut Rng, max_live: usize, small_types: bool, dup: bool, collide: bool) -> Instance {
    let masked = rng.chance(1, 2);
    let nk = 1 + rng.below(3) as usize;
    let mut kcs = vec![];
    for i in 0..nk {
        let st = if small_types { *rng.pick(&[BIT, UINT8, INT16, UINT32]) } else { *rng.pick(&KEY_TYPES) };
        let mut row_shape = rng.pick(&ROW_SHAPES).to_vec();
        if st == BIT && rng.chance(2, 3) {
            row_shape = vec![2 + rng.below(4)];
        }
        let h0 = format!("k{}", i);
        let h1 = if rng.chance(1, 2) { h0.clone() } else { format!("j{}", i) };
        kcs.push(KeyCol { h0, h1, st, row_shape });
    }
    // pool of distinct key tuples
    let mut pool: Vec<Vec<Vec<u128>>> = vec![];
    let small = rng.chance(3, 4);
    for _ in 0..60 {
        if pool.len() >= 16 {
            break;
        }
        let k: Vec<Vec<u128>> = kcs.iter().map(|kc| rand_row(kc.st, kc.row_shape.iter().product::<u64>() as usize, small, rng)).collect();
        if !pool.contains(&k) {
            pool.push(k);
        }
    }
    let mut la = rng.below(max_live as u64 + 1) as usize;
    let mut lb = rng.below(max_live as u64 + 1) as usize;
    let overlap = *rng.pick(&["disjoint", "partial", "partial", "full"]);
    // indices into the pool of the live rows of each table
    let (ia, ib): (Vec<usize>, Vec<usize>) = match overlap {
        "disjoint" => {
            while la + lb > pool.len() {
                if la >= lb { la -= 1 } else { lb -= 1 }
            }
            ((0..la).collect(), (la..la + lb).collect())
        }
        "full" => {
            la = la.min(pool.len());
            lb = lb.min(pool.len());
            let m = la.max(lb);
            let mut x: Vec<usize> = (0..m).collect();
            rng.shuffle(&mut x);
            let mut y: Vec<usize> = (0..m).collect();
            rng.shuffle(&mut y);
            (x[..la].to_vec(), y[..lb].to_vec())
        }
        _ => {
            la = la.min(pool.len());
            lb = lb.min(pool.len());
            let m = pool.len().min(1 + (la + lb) * 3 / 4).max(la).max(lb);
            let mut x: Vec<usize> = (0..m).collect();
            rng.shuffle(&mut x);
            let mut y: Vec<usize> = (0..m).collect();
            rng.shuffle(&mut y);
            (x[..la].to_vec(), y[..lb].to_vec())
        }
    };
    let mk_kinds = |idx: &Vec<usize>, rng: &mut Rng| -> (Vec<RowKind>, usize, usize) {
        let mut kinds: Vec<RowKind> = idx.iter().map(|p| RowKind::Live(*p)).collect();
        if dup && !idx.is_empty() {
            // precondition deliberately broken: a live key twice (model of the hash map only)
            kinds.push(RowKind::Live(idx[rng.below(idx.len() as u64) as usize]));
        }
        let mut nulls = rng.below(4) as usize;
        let mks = if masked { rng.below(3) as usize } else { 0 };
        if kinds.is_empty() && nulls + mks == 0 {
            nulls = 1;
        }
        for _ in 0..nulls {
            kinds.push(RowKind::Null);
        }
        for _ in 0..mks {
            kinds.push(RowKind::MaskedKey);
        }
        rng.shuffle(&mut kinds);
        (kinds, nulls, mks)
    };
    let (ka, na, ma) = mk_kinds(&ia, rng);
    let (kb, nb, mb) = mk_kinds(&ib, rng);
    let null_first_b = rng.chance(3, 4);
    let (pa, pb) = (rng.below(3) as usize, rng.below(3) as usize);
    let null_first_a = rng.chance(1, 2);
    let (sha, shb) = (rng.chance(1, 2), rng.chance(1, 2));
    let a = build_table(0, &kcs, &pool, &ka, pa, masked, null_first_a, sha, rng);
    let b = build_table(1, &kcs, &pool, &kb, pb, masked, null_first_b, shb, rng);
    let mut keys: Vec<(String, String)> = kcs.iter().map(|k| (k.h0.clone(), k.h1.clone())).collect();
    rng.shuffle(&mut keys);
    let mut a = a;
    if collide {
        // a payload column of the first table named like a key header of the second table
        if let Some(k) = kcs.iter().find(|k| k.h0 != k.h1) {
            if let Some(c) = a.iter_mut().find(|c| c.name.starts_with("pa")) {
                c.name = k.h1.clone();
                if rng.chance(1, 2) {
                    // ... and of the same type as that key column
                    let n = c.rows.len();
                    c.st = k.st;
                    c.row_shape = k.row_shape.clone();
                    let rs = c.rs();
                    c.rows = (0..n).map(|_| rand_row(k.st, rs, true, rng)).collect();
                }
            }
        }
    }
    Instance { a, b, keys, masked, overlap, live: (la, lb), nulls: (na, nb), masked_keys: (ma, mb), null_first_b, dup }
}

/// does table `x` (first table if `x_is_a`) hold a live row with a masked key entry whose stale key
/// data equals, in every key column, the key of a fully live row of the other table?  (such a row
/// must match nothing)
fn has_masked_key_collision(inst: &Instance, x_is_a: bool) -> bool {
    if !inst.masked { return false; }
    let (x, y) = if x_is_a { (&inst.a, &inst.b) } else { (&inst.b, &inst.a) };
    let hx: Vec<&String> = inst.keys.iter().map(|k| if x_is_a { &k.0 } else { &k.1 }).collect();
    let hy: Vec<&String> = inst.keys.iter().map(|k| if x_is_a { &k.1 } else { &k.0 }).collect();
    let col = |t: &Table, h: &String| t.iter().position(|c| &c.name == h);
    let null = |t: &Table| t.iter().position(|c| c.name == NULL_HEADER);
    let (nx, ny) = match (null(x), null(y)) { (Some(a), Some(b)) => (a, b), _ => return false };
    let cx: Vec<usize> = match hx.iter().map(|h| col(x, h)).collect::<Option<Vec<_>>>() { Some(v) => v, None => return false };
    let cy: Vec<usize> = match hy.iter().map(|h| col(y, h)).collect::<Option<Vec<_>>>() { Some(v) => v, None => return false };
    let live = |t: &Table, n: usize, cs: &Vec<usize>, r: usize| t[n].rows[r][0] == 1 && cs.iter().all(|c| t[*c].mask.as_ref().map_or(true, |m| m[r] == 1));
    for r in 0..x[nx].rows.len() {
        let masked_live = x[nx].rows[r][0] == 1 && cx.iter().any(|c| x[*c].mask.as_ref().map_or(false, |m| m[r] == 0));
        if !masked_live { continue; }
        for q in 0..y[ny].rows.len() {
            if live(y, ny, &cy, q) && cx.iter().zip(cy.iter()).all(|(a, b)| x[*a].rows[r] == y[*b].rows[q]) { return true; }
        }
    }
    false
}

// ----------------------------------------------------------------------------------- running
fn observe_u<T, F: FnOnce() -> ciphercore_base::errors::Result<T>>(f: F) -> Outcome<T> {
    match std::panic::catch_unwind(std::panic::AssertUnwindSafe(f)) {
        Ok(Ok(x)) => Outcome::Ok(x),
        Ok(Err(_)) => Outcome::Err,
        Err(_) => Outcome::Panic,
    }
}

fn join_context(inst: &Instance, jt: JoinType) -> ciphercore_base::errors::Result<Context> {
    let c = create_context()?;
    let g = c.create_graph()?;
    let i0 = g.input(table_type(&inst.a))?;
    let i1 = g.input(table_type(&inst.b))?;
    let headers: HashMap<String, String> = inst.keys.iter().cloned().collect();
    let op = if inst.masked { Operation::JoinWithColumnMasks(jt, headers) } else { Operation::Join(jt, headers) };
    let o = g.add_node(vec![i0, i1], vec![], op)?;
    g.set_output_node(o)?;
    g.finalize()?;
    c.set_main_graph(g)?;
    c.finalize()?;
    Ok(c)
}

fn describe(inst: &Instance, jt: JoinType) -> serde_json::Value {
    json!({
        "join": coq_jt(jt), "masked": inst.masked, "keys": inst.keys, "overlap": inst.overlap,
        "a": coq_table(&inst.a), "b": coq_table(&inst.b),
    })
}

fn plaintext(inst: &Instance, jt: JoinType) -> Outcome<Vec<DCol>> {
    let (a, b, masked) = (inst.a.clone(), inst.b.clone(), inst.masked);
    let inst_keys = inst.keys.clone();
    let inst2 = Instance { a: a.clone(), b: b.clone(), keys: inst_keys, masked, overlap: inst.overlap, live: inst.live, nulls: inst.nulls, masked_keys: inst.masked_keys, null_first_b: inst.null_first_b, dup: inst.dup };
    observe(move || {
        let c = join_context(&inst2, jt)?;
        let g = c.get_main_graph()?;
        let t = g.get_output_node()?.get_type()?;
        let v = random_evaluate(g, vec![table_value(&a), table_value(&b)])?;
        decode(&v, &t, masked)
    })
}

const JTS: [JoinType; 4] = [JoinType::Inner, JoinType::Left, JoinType::Union, JoinType::Full];

fn run_plain(inst: &Instance, collide: bool, out: &mut Out) {
    for &jt in JTS.iter() {
        let input = describe(inst, jt);
        let r = plaintext(inst, jt);
        out.stat(&format!("jt:{}", coq_jt(jt)));
        out.stat(&format!("plain:{}:{}", coq_jt(jt), r.tag()));
        let tabs = format!("{} {} {}", coq_table(&inst.a), coq_table(&inst.b), coq_keys(&inst.keys));
        let args = format!("{} {} {}", coq_jt(jt), inst.masked, tabs);
        let sargs = format!("{} {} {}", inst.masked, coq_jt(jt), tabs);
        // non-trivial: some live row on both sides, or a void row / a masked key entry
        let nontrivial = (inst.live.0 > 0 && inst.live.1 > 0) || inst.nulls.0 + inst.nulls.1 > 0 || inst.masked_keys.0 + inst.masked_keys.1 > 0;
        let known_collision_failure = collide && !matches!(r, Outcome::Ok(_));
        if !known_collision_failure {
            // (a failing full join on the header-collision stream is reported by the oracle below;
            // that failure path of /repo — a decode error after two columns got one name — is not mirrored)
        out.case(if inst.dup { "join_impl_dupkeys" } else { "join_impl" }, format!("join_impl {}", args), res(&r, |t| coq_dtable(t)), input.clone(), nontrivial);
        }
        if inst.dup {
            continue; // outside the documented precondition: only the mirrored algorithm is tied
        }
        let full_plain_nullpos = jt == JoinType::Full && !inst.masked && !inst.null_first_b;
        match &r {
            Outcome::Ok(t) => {
                out.case("join_spec", format!("join_spec {}", sargs), coq_dtable(t), input.clone(), nontrivial);
                let exp = ref_join(jt, inst.masked, &inst.a, &inst.b, &inst.keys);
                if *t != exp {
                    let bad: Vec<&String> = t.iter().zip(exp.iter()).filter(|(x, y)| x != y).map(|(x, _)| &x.name).collect();
                    out.violation(&format!("plain-{}-differs-from-documentation", coq_jt(jt)), input.clone(), format!("columns {:?}; observed {} expected {}", bad, coq_dtable(t), coq_dtable(&exp)));
                } else {
                    out.oracle_ok();
                }
            }
            _ => {
                if collide {
                    out.stat(&format!("collide:{}:{}", coq_jt(jt), r.tag()));
                    out.violation(&format!("plain-{}-fails-key-header-of-second-names-column-of-first", coq_jt(jt)), input.clone(), format!("evaluation {} on a join accepted by type inference", r.tag()));
                } else if full_plain_nullpos {
                    // join.rs:435 get_number_of_rows (fixed in /repo by ff0361d); class kept separate
                    out.stat("full-join-plain-null-column-not-first:Err");
                    out.violation("plain-JFull-rejected-null-column-of-second-table-not-first", input.clone(), format!("evaluation {} on a well-typed full join", r.tag()));
                } else {
                    out.violation(&format!("plain-{}-fails", coq_jt(jt)), input.clone(), format!("evaluation {} on a valid join", r.tag()));
                }
            }
        }
    }
}

fn run_compiled(inst: &Instance, jt: JoinType, owners: (u8, u8), seeds: u64, rng: &mut Rng, out: &mut Out) {
    let input = describe(inst, jt);
    let status = |o: u8| if o == 3 { IOStatus::Public } else { IOStatus::Party(o as u64) };
    let exp = ref_join(jt, inst.masked, &inst.a, &inst.b, &inst.keys);
    let c = match join_context(inst, jt) {
        Ok(c) => c,
        Err(_) => return,
    };
    let compiled = std::panic::catch_unwind(std::panic::AssertUnwindSafe(|| {
        prepare_for_mpc_evaluation(
            &c,
            vec![vec![status(owners.0), status(owners.1)]],
            vec![vec![IOStatus::Party(0)]],
            InlineConfig { default_mode: InlineMode::DepthOptimized(DepthOptimizationLevel::Default), ..Default::default() },
        )
    }));
    let mc = match compiled {
        Ok(Ok(mc)) => mc.get_context(),
        Ok(Err(e)) => {
            out.stat("compiled:compile-Err");
            out.violation("compiled-join-does-not-compile", input, format!("{}", e).chars().take(300).collect());
            return;
        }
        Err(_) => {
            out.violation("compiled-join-compile-panics", input, "panic in prepare_for_mpc_evaluation".into());
            return;
        }
    };
    let g = mc.get_main_graph().unwrap();
    let t = g.get_output_node().unwrap().get_type().unwrap();
    out.stat(&format!("compiled:owners:{}{}", owners.0, owners.1));
    out.stat(&format!("compiled:jt:{}", coq_jt(jt)));
    for _ in 0..seeds {
        let mut seed = [0u8; 16];
        for s in seed.iter_mut() {
            *s = rng.next() as u8;
        }
        let (g2, a, b, t2, masked) = (g.clone(), inst.a.clone(), inst.b.clone(), t.clone(), inst.masked);
        let r = observe_u(move || {
            let v = evaluate_simple_evaluator(g2, vec![table_value(&a), table_value(&b)], Some(seed))?;
            decode(&v, &t2, masked)
        });
        out.stat(&format!("compiled:eval:{}", r.tag()));
        match r {
            Outcome::Ok(tb) => {
                if tb != exp {
                    let (mut x, mut y) = (tb.clone(), exp.clone());
                    x.sort_by(|p, q| p.name.cmp(&q.name));
                    y.sort_by(|p, q| p.name.cmp(&q.name));
                    let class = if x == y && tb[0].name == NULL_HEADER {
                        // same columns, only their order differs and the null column comes first
                        "compiled-join-null-column-moved-first".to_string()
                    } else {
                        format!("compiled-{}-wrong-table", coq_jt(jt))
                    };
                    out.violation(&class, input.clone(), format!("seed {:?}: observed {} expected {}", seed, coq_dtable(&tb), coq_dtable(&exp)));
                } else {
                    out.oracle_ok();
                }
            }
            Outcome::Err => {} // a failed cuckoo insertion is a legitimate run-time error
            Outcome::Panic => out.violation("compiled-join-panics", input.clone(), format!("seed {:?}", seed)),
        }
    }
}

pub fn run(tier: &str, seed: u64, out: &mut Out) {
    let mut rng = Rng::new(seed ^ 0xC19);
    let (n_plain, n_dup, n_collide, n_comp, comp_seeds) = match tier {
        "thorough" => (800, 100, 60, 24, 3),
        "search" => (6000, 0, 100, 60, 3),
        _ => (75, 10, 8, 3, 2),
    };
    let n_comp_collide = match tier { "thorough" => 16, "search" => 40, _ => 3 };
    for i in 0..n_plain {
        let max_live = if i % 5 == 0 { 2 } else { 8 };
        let inst = gen_instance(&mut rng, max_live, false, false, false);
        out.stat(&format!("masked:{}", inst.masked));
        out.stat(&format!("overlap:{}", inst.overlap));
        out.stat(&format!("nkeys:{}", inst.keys.len()));
        out.stat(&format!("live_a:{}", inst.live.0));
        out.stat(&format!("live_b:{}", inst.live.1));
        out.stat(&format!("rows_a:{}", inst.a[0].n()));
        out.stat(&format!("void_rows:{}", inst.nulls.0 + inst.nulls.1));
        out.stat(&format!("masked_key_rows:{}", inst.masked_keys.0 + inst.masked_keys.1));
        for c in inst.a.iter().filter(|c| inst.keys.iter().any(|k| k.0 == c.name)) {
            out.stat(&format!("keytype:{}:rs{}", scalar(c.st), c.rs()));
        }
        run_plain(&inst, false, out);
    }
    for _ in 0..n_dup {
        let inst = gen_instance(&mut rng, 4, false, true, false);
        run_plain(&inst, false, out);
    }
    for _ in 0..n_collide {
        let inst = gen_instance(&mut rng, 4, false, false, true);
        out.stat("stream:key-header-collision");
        run_plain(&inst, true, out);
    }
    // compiled joins on the header-collision stream (key columns matched under different names,
    // the first table has a payload column named like the second table's key column)
    for i in 0..n_comp_collide {
        let mut inst = gen_instance(&mut rng, 3, true, false, true);
        for _ in 0..20 {
            if inst.keys.iter().any(|(h0, h1)| h0 != h1 && inst.a.iter().any(|c| &c.name == h1)) { break; }
            inst = gen_instance(&mut rng, 3, true, false, true);
        }
        let jt = [JoinType::Union, JoinType::Inner, JoinType::Left, JoinType::Union][i % 4];
        let owners = [(0u8, 1u8), (3, 2), (1, 0), (2, 3)][(i / 2) % 4];
        out.stat("stream:compiled-key-header-collision");
        run_compiled(&inst, jt, owners, comp_seeds, &mut rng, out);
    }
    // compiled masked joins with one public table holding a live row whose masked key entry carries
    // the key of a live row of the other table (it must match nothing)
    let n_comp_masked = match tier { "thorough" => 16, "search" => 40, _ => 4 };
    for i in 0..n_comp_masked {
        let public_a = i % 2 == 0;
        let mut inst = gen_instance(&mut rng, 3, true, false, false);
        let mut found = has_masked_key_collision(&inst, public_a);
        for _ in 0..400 {
            if found { break; }
            inst = gen_instance(&mut rng, 3, true, false, false);
            found = has_masked_key_collision(&inst, public_a);
        }
        if !found { out.stat("stream:compiled-masked-key-collision:not-generated"); continue; }
        let jt = JTS[(i / 2) % 4];
        let owners = if public_a { (3u8, (i % 3) as u8) } else { ((i % 3) as u8, 3u8) };
        out.stat("stream:compiled-masked-key-collision");
        run_compiled(&inst, jt, owners, comp_seeds, &mut rng, out);
    }
    for i in 0..n_comp {
        let inst = gen_instance(&mut rng, 3, true, false, false);
        let jt = JTS[i % 4];
        let owners = [(0u8, 1u8), (0, 0), (1, 3), (3, 2), (2, 0)][(i / 4) % 5];
        run_compiled(&inst, jt, owners, comp_seeds, &mut rng, out);
    }
}

//! C18 — sorting is a stable sort; permutation application and inversion agree.
//! Correspondence of Model/Sort.v with simple_evaluator.rs (Sort, ApplyPermutation,
//! InversePermutation, Gather) and ops/integer_key_sort.rs, native oracles for the property
//! (sortedness, stability, one row permutation for all columns, apply∘inverse = id), and the
//! differential check compiled-secure-sort = plaintext sort (oracle only, no model).
use crate::coqfmt::*;
use crate::gen::*;
use crate::out::Out;
use crate::rng::Rng;
use ciphercore_base::custom_ops::{run_instantiation_pass, CustomOperation};
use ciphercore_base::data_types::*;
use ciphercore_base::data_values::Value;
use ciphercore_base::errors::Result;
use ciphercore_base::evaluators::{evaluate_simple_evaluator, random_evaluate};
use ciphercore_base::graphs::{create_context, Context, Graph, Node};
use ciphercore_base::inline::inline_ops::{InlineConfig, InlineMode};
use ciphercore_base::mpc::mpc_compiler::{prepare_for_mpc_evaluation, IOStatus};
use ciphercore_base::ops::integer_key_sort::SortByIntegerKey;
use ciphercore_base::random::PRNG;
use ciphercore_base::typed_value::TypedValue;
use serde_json::json;

pub const HEADER: &str = "From CC Require Import Base.Prelude Base.Scalar Model.Sort.";

// ------------------------------------------------------------------------------------------ data
/// One column of a generated table: entries are the elements reduced mod 2^w (own data, not read
/// back through the crate), row-major.
#[derive(Clone)]
struct Col {
    name: String,
    st: ScalarType,
    shape: Vec<u64>,
    data: Vec<u128>,
}
impl Col {
    fn ty(&self) -> Type {
        array_type(self.shape.clone(), self.st)
    }
    fn value(&self) -> Value {
        Value::from_flattened_array(&self.data, self.st).unwrap()
    }
    fn row_size(&self) -> usize {
        self.shape[1..].iter().product::<u64>() as usize
    }
    fn rows(&self) -> Vec<Vec<u128>> {
        let rs = self.row_size();
        (0..self.shape[0] as usize).map(|i| self.data[i * rs..(i + 1) * rs].to_vec()).collect()
    }
}

fn mask(st: ScalarType) -> u128 {
    let w = width(st);
    if w >= 128 {
        u128::MAX
    } else {
        (1u128 << w) - 1
    }
}
/// the integer an element of type st stands for, as an order-preserving i128/u128 pair
fn numeric(st: ScalarType, v: u128) -> (i128, u128) {
    let w = width(st);
    if st.is_signed() {
        let s = if w == 128 {
            v as i128
        } else if (v >> (w - 1)) & 1 == 1 {
            (v as i128) - (1i128 << w)
        } else {
            v as i128
        };
        (s, 0)
    } else {
        (0, v)
    }
}
/// what to_flattened_array_u128 shows for element v (< 2^w) of type st: sign-extended
fn ext128(st: ScalarType, v: u128) -> u128 {
    let w = width(st);
    if st.is_signed() && w < 128 && (v >> (w - 1)) & 1 == 1 {
        v | !mask(st)
    } else {
        v
    }
}

fn rand_elem(st: ScalarType, rng: &mut Rng) -> u128 {
    if st == BIT {
        rng.below(2) as u128
    } else if rng.chance(1, 2) {
        (boundary_i128(st, rng) as u128) & mask(st)
    } else {
        rng.u128() & mask(st)
    }
}

fn payload_col(name: &str, n: u64, rng: &mut Rng) -> Col {
    let st = *rng.pick(&ALL_ST);
    let shape = match rng.below(5) {
        0 | 1 => vec![n],
        2 => vec![n, 1 + rng.below(3)],
        3 => vec![n, 1 + rng.below(2), 1 + rng.below(3)],
        _ => vec![n, 1, 2, 1 + rng.below(2)],
    };
    let total = shape.iter().product::<u64>() as usize;
    // rows are made distinguishable most of the time so that a wrong permutation shows
    let data = (0..total).map(|_| rand_elem(st, rng)).collect();
    Col { name: name.to_string(), st, shape, data }
}

/// key rows of b bits with frequent duplicates: drawn from a pool of 1..=4 distinct rows (70%),
/// uniform (20%), all equal (5%), already sorted/reversed counters (5%)
fn key_rows(n: usize, b: usize, rng: &mut Rng) -> Vec<Vec<u128>> {
    let mode = rng.below(20);
    let rand_row = |rng: &mut Rng| (0..b).map(|_| rng.below(2) as u128).collect::<Vec<u128>>();
    if mode < 14 {
        let k = 1 + rng.below(4) as usize;
        let pool: Vec<Vec<u128>> = (0..k).map(|_| rand_row(rng)).collect();
        (0..n).map(|_| rng.pick(&pool).clone()).collect()
    } else if mode < 18 {
        (0..n).map(|_| rand_row(rng)).collect()
    } else if mode < 19 {
        let r = rand_row(rng);
        (0..n).map(|_| r.clone()).collect()
    } else {
        let rev = rng.chance(1, 2);
        (0..n)
            .map(|i| {
                let v = if rev { n - 1 - i } else { i };
                (0..b).map(|j| ((v >> (b - 1 - j)) & 1) as u128).collect()
            })
            .collect()
    }
}

fn coq_col(c: &Col, entries: &[u128]) -> String {
    format!("({}, {}, {})", coq_string(&c.name), list_u64(&c.shape), list_u128(entries))
}
fn coq_tcol(c: &Col, entries: &[u128]) -> String {
    format!("({}, {}, {}, {})", coq_string(&c.name), scalar(c.st), list_u64(&c.shape), list_u128(entries))
}
fn coq_cols_out(v: &Vec<Vec<u128>>) -> String {
    list(v, |c| list_u128(c))
}
fn shown(c: &Col) -> Vec<u128> {
    c.data.iter().map(|v| ext128(c.st, *v)).collect()
}

fn table_graph<F: FnOnce(&Graph, Node) -> Result<Node>>(cols: &[Col], f: F) -> Result<(Context, Graph)> {
    let c = create_context()?;
    let g = c.create_graph()?;
    let mut elems = vec![];
    for col in cols {
        elems.push((col.name.clone(), g.input(col.ty())?));
    }
    let t = g.create_named_tuple(elems)?;
    let o = f(&g, t)?;
    o.set_as_output()?;
    g.finalize()?;
    c.set_main_graph(g.clone())?;
    c.finalize()?;
    Ok((c, g))
}

fn read_table(v: &Value, cols: &[Col]) -> Result<Vec<Vec<u128>>> {
    let vs = v.to_vector()?;
    let mut r = vec![];
    for (x, c) in vs.iter().zip(cols.iter()) {
        r.push(x.to_flattened_array_u128(c.ty())?);
    }
    Ok(r)
}

/// reference: the stable sorting permutation, by sorting (key, index) pairs — ties are broken by
/// the index explicitly, so no stability assumption enters the oracle
fn reference_perm<K: Ord + Clone>(keys: &[K]) -> Vec<usize> {
    let mut idx: Vec<(K, usize)> = keys.iter().cloned().zip(0..keys.len()).collect();
    idx.sort_unstable();
    idx.into_iter().map(|x| x.1).collect()
}

/// the oracle of the property on one sorted table: `le` compares two key rows of the input
fn oracle_sorted_table<K: Ord + Clone + std::fmt::Debug>(
    out: &mut Out,
    what: &str,
    input: &serde_json::Value,
    cols: &[Col],
    key_ix: usize,
    keys: &[K],
    result: &Vec<Vec<u128>>,
) {
    let n = keys.len();
    let p = reference_perm(keys);
    // 1. sortedness of the output key column, in terms of the input keys it must consist of
    let krows_in = cols[key_ix].rows();
    let rs = cols[key_ix].row_size();
    let kout: Vec<Vec<u128>> = (0..n).map(|i| result[key_ix][i * rs..(i + 1) * rs].iter().map(|v| v & mask(cols[key_ix].st)).collect()).collect();
    // map each output key row back to a K: by matching against the expected row (same K order)
    let mut ok_sorted = true;
    for i in 0..n {
        if kout[i] != krows_in[p[i]] {
            ok_sorted = false;
        }
    }
    for i in 1..n {
        if keys[p[i - 1]] > keys[p[i]] {
            ok_sorted = false; // reference itself not sorted: impossible
        }
    }
    if !ok_sorted {
        out.violation(&format!("{}-key-not-stably-sorted", what), input.clone(), format!("key column {:?}, expected rows in order {:?}", kout, p));
    } else {
        out.oracle_ok();
    }
    // 2. stability + one permutation for every column: every column equals the gather of its
    //    input rows by the reference permutation (ties by input position)
    for (ci, c) in cols.iter().enumerate() {
        let rows = c.rows();
        let exp: Vec<u128> = p.iter().flat_map(|&i| rows[i].iter().map(|v| ext128(c.st, *v)).collect::<Vec<_>>()).collect();
        if result[ci] != exp {
            // distinguish: some permutation of the rows at all?
            let mut a: Vec<Vec<u128>> = rows.iter().map(|r| r.iter().map(|v| ext128(c.st, *v)).collect()).collect();
            let rsz = c.row_size();
            let mut b: Vec<Vec<u128>> = (0..n).map(|i| result[ci][i * rsz..(i + 1) * rsz].to_vec()).collect();
            a.sort();
            b.sort();
            let class = if a != b { "rows-not-a-permutation" } else { "column-permuted-differently-or-unstable" };
            out.violation(&format!("{}-{}", what, class), input.clone(), format!("column {} = {:?}, expected {:?}", c.name, result[ci], exp));
        } else {
            out.oracle_ok();
        }
    }
}

// ------------------------------------------------------------------------------------------ Sort
fn gen_sort_table(rng: &mut Rng, n: usize, b: usize) -> (Vec<Col>, usize) {
    let krows = key_rows(n, b, rng);
    let key = Col { name: "key".into(), st: BIT, shape: vec![n as u64, b as u64], data: krows.concat() };
    let npay = rng.below(4) as usize;
    let mut cols: Vec<Col> = (0..npay).map(|i| payload_col(&format!("c{}", i), n as u64, rng)).collect();
    let key_ix = rng.below(npay as u64 + 1) as usize;
    cols.insert(key_ix, key);
    (cols, key_ix)
}

fn case_sort(rng: &mut Rng, out: &mut Out, n: usize, b: usize) {
    let (cols, key_ix) = gen_sort_table(rng, n, b);
    // 1 in 25: ask for a key that is not there (the graph must be rejected)
    let missing = rng.chance(1, 25);
    let keyname = if missing { "nokey".to_string() } else { "key".to_string() };
    let input = json!({"n": n, "b": b, "key_ix": key_ix, "key": keyname,
        "cols": cols.iter().map(|c| json!({"name": c.name, "type": format!("{}", c.ty()), "data": format!("{:?}", c.data)})).collect::<Vec<_>>()});
    let (cols2, kn) = (cols.clone(), keyname.clone());
    let r = observe(move || {
        let (_c, g) = table_graph(&cols2, |_, t| t.sort(kn))?;
        let v = random_evaluate(g, cols2.iter().map(|c| c.value()).collect())?;
        read_table(&v, &cols2)
    });
    out.stat(&format!("sort:n={}", n));
    out.stat(&format!("sort:b={}", b));
    out.stat(&format!("sort:{}", r.tag()));
    let krows = cols[key_ix].rows();
    let dups = { let mut k = krows.clone(); k.sort(); k.dedup(); k.len() < n };
    if dups { out.stat("sort:duplicate-keys"); }
    for c in &cols { out.stat(&format!("sort:col-rank{}", c.shape.len())); out.stat(&format!("sort:col-st:{}", scalar(c.st))); }
    let lhs = format!("sort_op {} {}", coq_string(&keyname), list(&cols, |c| coq_col(c, &shown(c))));
    out.case("sort", lhs, res(&r, coq_cols_out), input.clone(), n > 1 && (dups || cols.len() > 1));
    match &r {
        Outcome::Ok(t) if !missing => oracle_sorted_table(out, "sort", &input, &cols, key_ix, &krows, t),
        Outcome::Err if missing => out.oracle_ok(),
        _ => out.violation("sort-outcome", input, format!("unexpected outcome {}", r.tag())),
    }
}

// ------------------------------------------------------------------------------------------ SortByIntegerKey
fn case_intkey(rng: &mut Rng, out: &mut Out, n: usize, st: ScalarType) {
    // key values: small pool with duplicates, boundary heavy (min, max, -1, 0 adjacent)
    let k = 1 + rng.below(5) as usize;
    let pool: Vec<u128> = (0..k).map(|_| rand_elem(st, rng)).collect();
    let data: Vec<u128> = (0..n).map(|_| if rng.chance(3, 4) { *rng.pick(&pool) } else { rand_elem(st, rng) }).collect();
    let bad_rank = rng.chance(1, 30);
    let key = if bad_rank {
        Col { name: "key".into(), st, shape: vec![n as u64, 2], data: data.iter().flat_map(|v| vec![*v, *v]).collect() }
    } else {
        Col { name: "key".into(), st, shape: vec![n as u64], data: data.clone() }
    };
    let npay = rng.below(3) as usize;
    let mut cols: Vec<Col> = (0..npay).map(|i| payload_col(&format!("c{}", i), n as u64, rng)).collect();
    let key_ix = rng.below(npay as u64 + 1) as usize;
    cols.insert(key_ix, key);
    let missing = !bad_rank && rng.chance(1, 30);
    let keyname = if missing { "nokey".to_string() } else { "key".to_string() };
    let input = json!({"n": n, "st": scalar(st), "key_ix": key_ix, "key": keyname,
        "cols": cols.iter().map(|c| json!({"name": c.name, "type": format!("{}", c.ty()), "data": format!("{:?}", c.data)})).collect::<Vec<_>>()});
    let (cols2, kn) = (cols.clone(), keyname.clone());
    let r = observe(move || {
        let (c, _g) = table_graph(&cols2, |g, t| g.custom_op(CustomOperation::new(SortByIntegerKey { key: kn }), vec![t]))?;
        let c = run_instantiation_pass(c)?.get_context();
        let v = random_evaluate(c.get_main_graph()?, cols2.iter().map(|c| c.value()).collect())?;
        read_table(&v, &cols2)
    });
    out.stat(&format!("intkey:st:{}", scalar(st)));
    out.stat(&format!("intkey:{}", r.tag()));
    let dups = { let mut k = data.clone(); k.sort(); k.dedup(); k.len() < n };
    let lhs = format!("sort_by_integer_key_op {} {}", coq_string(&keyname), list(&cols, |c| coq_tcol(c, &shown(c))));
    out.case("sort_by_integer_key", lhs, res(&r, coq_cols_out), input.clone(), n > 1 && (dups || st.is_signed()));
    match &r {
        Outcome::Ok(t) if !missing && !bad_rank => {
            let keys: Vec<(i128, u128)> = data.iter().map(|v| numeric(st, *v)).collect();
            oracle_sorted_table(out, "intkey", &input, &cols, key_ix, &keys, t)
        }
        Outcome::Err if missing || bad_rank => out.oracle_ok(),
        _ => out.violation("intkey-outcome", input, format!("unexpected outcome {}", r.tag())),
    }
}

// ------------------------------------------------------------------------------------------ permutations
const UINTS: [ScalarType; 4] = [UINT8, UINT16, UINT32, UINT64];

fn rand_perm(n: usize, rng: &mut Rng) -> Vec<u64> {
    let mut p: Vec<u64> = (0..n as u64).collect();
    match rng.below(6) {
        0 => {}
        1 => p.reverse(),
        _ => rng.shuffle(&mut p),
    }
    p
}
/// a non-permutation of the right length: a repeated image, an out-of-range image, or both
fn spoil_perm(p: &mut Vec<u64>, st: ScalarType, rng: &mut Rng) {
    let n = p.len();
    let i = rng.below(n as u64) as usize;
    match rng.below(4) {
        0 if n > 1 => { let j = (i + 1 + rng.below(n as u64 - 1) as usize) % n; p[i] = p[j]; }
        1 => p[i] = n as u64,
        2 => p[i] = (mask(st) as u64).max(n as u64),
        _ => { p[i] = n as u64 + rng.below(5); if n > 1 { p[(i + 1) % n] = p[i]; } }
    }
}

fn case_apply_perm(rng: &mut Rng, out: &mut Out, n: usize) {
    let x = payload_col("x", n as u64, rng);
    let pst = *rng.pick(&UINTS);
    let mut p = rand_perm(n, rng);
    let valid = !rng.chance(1, 5);
    if !valid { spoil_perm(&mut p, pst, rng); }
    let really_valid = { let mut q = p.clone(); q.sort(); q == (0..n as u64).collect::<Vec<u64>>() };
    let inverse = rng.chance(1, 2);
    let input = json!({"n": n, "x_type": format!("{}", x.ty()), "x": format!("{:?}", x.data), "p_st": scalar(pst), "p": p, "inverse": inverse});
    let run = |inv: bool, x: &Col, p: &Vec<u64>| {
        let (xt, xv, p2) = (x.ty(), x.value(), p.clone());
        observe(move || {
            let c = create_context()?;
            let g = c.create_graph()?;
            let a = g.input(xt.clone())?;
            let pn = g.input(array_type(vec![p2.len() as u64], pst))?;
            let o = if inv { g.apply_inverse_permutation(a, pn)? } else { g.apply_permutation(a, pn)? };
            o.set_as_output()?;
            g.finalize()?;
            c.set_main_graph(g.clone())?;
            c.finalize()?;
            let pv = Value::from_flattened_array(&p2, pst)?;
            random_evaluate(g, vec![xv, pv])?.to_flattened_array_u128(xt)
        })
    };
    let r = run(inverse, &x, &p);
    out.stat(&format!("apply_perm:{}:{}", if really_valid { "valid" } else { "invalid" }, r.tag()));
    out.stat(&format!("apply_perm:inverse={}", inverse));
    let lhs = format!("apply_permutation_op {} {} {} {}", inverse, list_u128(&shown(&x)), list_u64(&x.shape), list_u64(&p));
    out.case("apply_permutation", lhs, res(&r, |a| list_u128(a)), input.clone(), n > 1);
    match (&r, really_valid) {
        (Outcome::Ok(y), true) => {
            // direct statement: out[i] = x[p[i]]  /  out[p[i]] = x[i]
            let rows = x.rows();
            let rs = x.row_size();
            let mut good = true;
            for i in 0..n {
                let (o, s) = if inverse { (p[i] as usize, i) } else { (i, p[i] as usize) };
                let exp: Vec<u128> = rows[s].iter().map(|v| ext128(x.st, *v)).collect();
                if y[o * rs..(o + 1) * rs] != exp[..] { good = false; }
            }
            if good { out.oracle_ok() } else { out.violation("apply-permutation-wrong-rows", input.clone(), format!("got {:?}", y)) }
            // apply then inverse (and inverse then apply) restores the array
            let ycol = Col { name: "y".into(), st: x.st, shape: x.shape.clone(), data: y.iter().map(|v| v & mask(x.st)).collect() };
            let back = run(!inverse, &ycol, &p);
            match back {
                Outcome::Ok(z) if z == shown(&x) => out.oracle_ok(),
                other => out.violation("apply-inverse-not-identity", input.clone(), format!("round trip gave {:?}", other.ok())),
            }
        }
        (Outcome::Err, false) => out.oracle_ok(),
        _ => out.violation("apply-permutation-outcome", input, format!("valid={} outcome {}", really_valid, r.tag())),
    }
}

fn case_inverse_perm(rng: &mut Rng, out: &mut Out, n: usize) {
    let pst = *rng.pick(&UINTS);
    let mut p = rand_perm(n, rng);
    if rng.chance(1, 4) { spoil_perm(&mut p, pst, rng); }
    let really_valid = { let mut q = p.clone(); q.sort(); q == (0..n as u64).collect::<Vec<u64>>() };
    let input = json!({"n": n, "p_st": scalar(pst), "p": p});
    let p2 = p.clone();
    let r = observe(move || {
        let c = create_context()?;
        let g = c.create_graph()?;
        let t = array_type(vec![p2.len() as u64], pst);
        let a = g.input(t.clone())?;
        let o = g.inverse_permutation(a)?;
        o.set_as_output()?;
        g.finalize()?;
        c.set_main_graph(g.clone())?;
        c.finalize()?;
        random_evaluate(g, vec![Value::from_flattened_array(&p2, pst)?])?.to_flattened_array_u64(t)
    });
    out.stat(&format!("inverse_perm:{}:{}", if really_valid { "valid" } else { "invalid" }, r.tag()));
    out.case("inverse_permutation", format!("inverse_permutation_op {}", list_u64(&p)), res(&r, |a| list_u64(a)), input.clone(), n > 1);
    match (&r, really_valid) {
        (Outcome::Ok(q), true) => {
            if (0..n).all(|i| q[p[i] as usize] == i as u64) && q.len() == n { out.oracle_ok() } else { out.violation("inverse-permutation-wrong", input, format!("got {:?}", q)) }
        }
        (Outcome::Err, false) => out.oracle_ok(),
        _ => out.violation("inverse-permutation-outcome", input, format!("valid={} outcome {}", really_valid, r.tag())),
    }
}

fn case_gather(rng: &mut Rng, out: &mut Out) {
    let rank = 1 + rng.below(3) as usize;
    let shape: Vec<u64> = (0..rank).map(|_| 1 + rng.below(5)).collect();
    let st = *rng.pick(&ALL_ST);
    let total = shape.iter().product::<u64>() as usize;
    let x = Col { name: "x".into(), st, shape: shape.clone(), data: (0..total).map(|_| rand_elem(st, rng)).collect() };
    let axis = rng.below(rank as u64) as usize;
    let dim = shape[axis];
    let k = 1 + rng.below(dim) as usize;
    let ishape: Vec<u64> = if k % 2 == 0 && rng.chance(1, 2) { vec![2, k as u64 / 2] } else { vec![k as u64] };
    let pst = *rng.pick(&UINTS);
    let mut idx: Vec<u64> = if rng.chance(1, 2) {
        let mut all: Vec<u64> = (0..dim).collect();
        rng.shuffle(&mut all);
        all.truncate(k);
        all
    } else {
        (0..k).map(|_| rng.below(dim)).collect()
    };
    let bad = rng.chance(1, 8);
    if bad { let i = rng.below(k as u64) as usize; idx[i] = dim + rng.below(3); }
    let input = json!({"x_type": format!("{}", x.ty()), "x": format!("{:?}", x.data), "axis": axis, "indices_shape": ishape, "indices": idx});
    let (xt, xv, idx2, ish2) = (x.ty(), x.value(), idx.clone(), ishape.clone());
    let r = observe(move || {
        let c = create_context()?;
        let g = c.create_graph()?;
        let a = g.input(xt)?;
        let i = g.input(array_type(ish2, pst))?;
        let o = g.gather(a, i, axis as u64)?;
        let ot = o.get_type()?;
        o.set_as_output()?;
        g.finalize()?;
        c.set_main_graph(g.clone())?;
        c.finalize()?;
        random_evaluate(g, vec![xv, Value::from_flattened_array(&idx2, pst)?])?.to_flattened_array_u128(ot)
    });
    out.stat(&format!("gather:rank{}:axis{}:{}", rank, axis, r.tag()));
    let lhs = format!("evaluate_gather {} {} {} {}%nat", list_u128(&shown(&x)), list_u64(&shape), list_u64(&idx), axis);
    out.case("gather", lhs, res(&r, |a| list_u128(a)), input.clone(), total > 1);
    match (&r, bad) {
        (Outcome::Ok(y), false) => {
            // reference by multi-index arithmetic: out[a, j, c] = x[a, idx[j], c]
            let outer = shape[..axis].iter().product::<u64>() as usize;
            let inner = shape[axis + 1..].iter().product::<u64>() as usize;
            let mut exp = vec![];
            for a in 0..outer { for j in 0..k { for c in 0..inner {
                exp.push(ext128(st, x.data[(a * dim as usize + idx[j] as usize) * inner + c]));
            } } }
            if *y == exp { out.oracle_ok() } else { out.violation("gather-wrong", input, format!("got {:?} expected {:?}", y, exp)) }
        }
        (Outcome::Err, true) => out.oracle_ok(),
        _ => out.violation("gather-outcome", input, format!("bad={} outcome {}", bad, r.tag())),
    }
}

// ------------------------------------------------------------------------------------------ compiled secure sort
fn seed16(rng: &mut Rng) -> [u8; 16] {
    let mut s = [0u8; 16];
    s[..8].copy_from_slice(&rng.next().to_le_bytes());
    s[8..].copy_from_slice(&rng.next().to_le_bytes());
    s
}
fn status_name(s: &IOStatus) -> String {
    match s { IOStatus::Public => "Public".into(), IOStatus::Party(i) => format!("P{}", i), IOStatus::Shared => "Shared".into() }
}

/// Compiles the Sort graph for the given owners/outputs, evaluates it on `seeds` evaluator seeds
/// and compares every column with the plaintext evaluation of the same graph.
fn case_compiled(rng: &mut Rng, out: &mut Out, n: usize, b: usize, npay: usize, seeds: usize) {
    let krows = key_rows(n, b, rng);
    let key = Col { name: "key".into(), st: BIT, shape: vec![n as u64, b as u64], data: krows.concat() };
    let mut cols: Vec<Col> = (0..npay).map(|i| payload_col(&format!("c{}", i), n as u64, rng)).collect();
    let key_ix = rng.below(npay as u64 + 1) as usize;
    cols.insert(key_ix, key);
    let statuses: Vec<IOStatus> = cols.iter().enumerate().map(|(i, _)| {
        if i == key_ix {
            match rng.below(6) { 0 => IOStatus::Shared, 1 => IOStatus::Public, k => IOStatus::Party(k % 3) }
        } else {
            match rng.below(5) { 0 => IOStatus::Shared, 1 => IOStatus::Public, k => IOStatus::Party(k % 3) }
        }
    }).collect();
    let outputs: Vec<IOStatus> = match rng.below(5) {
        0 => vec![],
        1 => vec![IOStatus::Party(0), IOStatus::Party(1), IOStatus::Party(2)],
        k => vec![IOStatus::Party(k % 3)],
    };
    let input = json!({"n": n, "b": b, "owners": statuses.iter().map(status_name).collect::<Vec<_>>(),
        "outputs": outputs.iter().map(status_name).collect::<Vec<_>>(),
        "cols": cols.iter().map(|c| json!({"name": c.name, "type": format!("{}", c.ty()), "data": format!("{:?}", c.data)})).collect::<Vec<_>>()});
    out.stat(&format!("compiled:n={}", n));
    out.stat(&format!("compiled:b={}", b));
    out.stat(&format!("compiled:key-owner={}", status_name(&statuses[key_ix])));
    out.stat(&format!("compiled:outputs={}", outputs.len()));
    let seeds_v: Vec<[u8; 16]> = (0..seeds).map(|_| seed16(rng)).collect();
    let share_seed = seed16(rng);
    let (cols2, st2, out2) = (cols.clone(), statuses.clone(), outputs.clone());
    let r = observe(move || {
        let (c, g) = table_graph(&cols2, |_, t| t.sort("key".to_string()))?;
        let plain = read_table(&random_evaluate(g, cols2.iter().map(|c| c.value()).collect())?, &cols2)?;
        let cfg = InlineConfig { default_mode: InlineMode::Simple, ..Default::default() };
        let mc = prepare_for_mpc_evaluation(&c, vec![st2.clone()], vec![out2.clone()], cfg)?.get_context();
        let mg = mc.get_main_graph()?;
        let mut prng = PRNG::new(Some(share_seed))?;
        let mut inputs = vec![];
        for (col, s) in cols2.iter().zip(st2.iter()) {
            if *s == IOStatus::Shared {
                inputs.push(TypedValue::new(col.ty(), col.value())?.secret_share(&mut prng)?.value);
            } else {
                inputs.push(col.value());
            }
        }
        let mut results = vec![];
        for s in seeds_v {
            let v = evaluate_simple_evaluator(mg.clone(), inputs.clone(), Some(s))?;
            let table = if out2.is_empty() {
                // three shares of the named tuple: add them column by column (xor for bits)
                let shares = v.to_vector()?;
                let mut acc: Vec<Vec<u128>> = vec![];
                for sh in shares.iter() {
                    let t = read_table(sh, &cols2)?;
                    if acc.is_empty() { acc = t.iter().zip(cols2.iter()).map(|(c, col)| c.iter().map(|v| v & mask(col.st)).collect()).collect(); } else {
                        for (ci, col) in cols2.iter().enumerate() {
                            for (a, x) in acc[ci].iter_mut().zip(t[ci].iter()) {
                                *a = if col.st == BIT { (*a ^ *x) & 1 } else { a.wrapping_add(*x) & mask(col.st) };
                            }
                        }
                    }
                }
                acc.iter().zip(cols2.iter()).map(|(c, col)| c.iter().map(|v| ext128(col.st, *v)).collect()).collect()
            } else {
                read_table(&v, &cols2)?
            };
            results.push(table);
        }
        Ok((plain, results))
    });
    match r {
        Outcome::Ok((plain, results)) => {
            // the plaintext result itself obeys the property
            oracle_sorted_table(out, "compiled-plain", &input, &cols, key_ix, &krows, &plain);
            for (i, t) in results.iter().enumerate() {
                if *t != plain {
                    out.violation("compiled-sort-differs-from-plaintext", input.clone(), format!("seed #{}: compiled {:?} plaintext {:?}", i, t, plain));
                } else {
                    out.oracle_ok();
                }
            }
            out.stat("compiled:Ok");
        }
        other => {
            out.stat(&format!("compiled:{}", other.tag()));
            out.violation("compiled-sort-fails", input, format!("compile/evaluate outcome {}", other.tag()));
        }
    }
}

// ------------------------------------------------------------------------------------------ driver
pub fn run(tier: &str, seed: u64, out: &mut Out) {
    let mut rng = Rng::new(seed ^ 0xC18);
    let (rounds, compiled_cfgs, compiled_seeds) = match tier {
        "thorough" => (14, 300, 3),
        "search" => (40, 600, 3),
        _ => (1, 30, 2),
    };
    // per-round volume of the non-grid streams (quick is kept near 500 cases)
    let (intkey_reps, perm_reps, gather_reps) = if tier == "quick" { (1, 6, 100) } else { (2, 12, 150) };
    for round in 0..rounds {
        // every (n, b) of the stated grid once per round
        for n in 1..=12usize {
            for b in 1..=10usize {
                case_sort(&mut rng, out, n, b);
            }
        }
        for n in 1..=12usize {
            for &st in ALL_ST.iter() {
                for _ in 0..intkey_reps {
                    case_intkey(&mut rng, out, n, st);
                }
            }
            for _ in 0..perm_reps {
                case_apply_perm(&mut rng, out, n);
                case_inverse_perm(&mut rng, out, n);
            }
        }
        for _ in 0..gather_reps {
            case_gather(&mut rng, out);
        }
        let _ = round;
    }
    // compiled secure sort: widths chosen to hit b odd (short first chunk), b = 1, 2 (no loop),
    // b >= 3 (loop runs), single-row tables
    let mut crng = Rng::new(seed ^ 0xC18C);
    for i in 0..compiled_cfgs {
        let (n, b) = match i {
            0 => (4, 3),
            1 => (5, 2),
            2 => (3, 1),
            3 => (1, 4),
            4 => (6, 5),
            _ => (1 + crng.below(if tier == "quick" { 6 } else { 12 }) as usize, 1 + crng.below(if tier == "quick" { 5 } else { 10 }) as usize),
        };
        let npay = crng.below(3) as usize;
        case_compiled(&mut crng, out, n, b, npay, compiled_seeds);
    }
}

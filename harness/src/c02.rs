//! C02 — each party can run the protocol from its own data and the messages it receives.
//! T-tie: kcheck (Model/Knows.v, proved sound) evaluated in Coq on the real compiler output.
//! Oracle: the three-party executor with junk and independent seeds vs plaintext evaluation.
use crate::coqfmt::*;
use crate::exec3::*;
use crate::export::*;
use crate::gen::*;
use crate::mpcgen::*;
use crate::out::Out;
use crate::progen::*;
use crate::rng::Rng;
use ciphercore_base::data_types::*;
use ciphercore_base::data_values::Value;
use ciphercore_base::evaluators::simple_evaluator::SimpleEvaluator;
use ciphercore_base::graphs::*;
use ciphercore_base::inline::inline_ops::InlineConfig;
use ciphercore_base::mpc::mpc_compiler::{compile_context, IOStatus};
use serde_json::json;

pub const HEADER: &str = "From CC Require Import Base.Prelude Base.Scalar Base.Ty Base.Shape Graph.Value Graph.IR Graph.Eval Model.Knows.";

pub fn status_coq(s: &IOStatus) -> String {
    match s { IOStatus::Party(p) => format!("(StParty {})", p), IOStatus::Public => "StPublic".into(), IOStatus::Shared => "StShared".into() }
}
pub fn cfg_coq(owners: &[IOStatus], outs: &[IOStatus], g: &Graph) -> String {
    let o: Vec<String> = outs.iter().map(|s| if let IOStatus::Party(p) = s { format!("{}", p) } else { "0".into() }).collect();
    let c: Vec<String> = certs(g).iter().map(|(i, p)| format!("({}, {})", i, p)).collect();
    format!("(mkCfg {} [{}] [{}])", list(owners, |s| status_coq(s)), o.join("; "), c.join("; "))
}

/// elementwise x - a - b mod 2^w on array/scalar values
pub fn sub2_pub(x: &Value, a: &Value, b: &Value, t: &Type) -> Value { sub2(x, a, b, t) }
pub fn add3_pub(a: &Value, b: &Value, c: &Value, t: &Type) -> Option<Value> { add3(a, b, c, t) }
pub fn table_value_pub(n: u64, rng: &mut Rng, off: u64) -> Value { table_value(n, rng, off) }
fn sub2(x: &Value, a: &Value, b: &Value, t: &Type) -> Value {
    let st = t.get_scalar_type();
    let get = |v: &Value| -> Vec<u128> { if t.is_scalar() { vec![v.to_u128(st).unwrap()] } else { v.to_flattened_array_u128(t.clone()).unwrap() } };
    let (xs, aa, bb) = (get(x), get(a), get(b));
    let w = st.size_in_bits();
    let m = |v: u128| if w >= 128 { v } else { v & ((1u128 << w) - 1) };
    let r: Vec<u128> = xs.iter().zip(aa.iter()).zip(bb.iter()).map(|((x, a), b)| m(x.wrapping_sub(*a).wrapping_sub(*b))).collect();
    if st == BIT { let r8: Vec<u8> = r.iter().map(|x| (*x & 1) as u8).collect(); return Value::from_flattened_array(&r8, st).unwrap(); }
    Value::from_flattened_array(&r, st).unwrap()
}
fn add3(a: &Value, b: &Value, c: &Value, t: &Type) -> Option<Value> {
    let st = t.get_scalar_type();
    let get = |v: &Value| -> Option<Vec<u128>> { if t.is_scalar() { Some(vec![v.to_u128(st).ok()?]) } else { v.to_flattened_array_u128(t.clone()).ok() } };
    let (aa, bb, cc) = (get(a)?, get(b)?, get(c)?);
    let w = st.size_in_bits();
    let m = |v: u128| if w >= 128 { v } else { v & ((1u128 << w) - 1) };
    let r: Vec<u128> = aa.iter().zip(bb.iter()).zip(cc.iter()).map(|((x, a), b)| m(x.wrapping_add(*a).wrapping_add(*b))).collect();
    if st == BIT { let r8: Vec<u8> = r.iter().map(|x| (*x & 1) as u8).collect(); return Value::from_flattened_array(&r8, st).ok(); }
    Value::from_flattened_array(&r, st).ok()
}

pub fn junk(t: &Type, rng: &mut Rng) -> Value {
    match rng.below(4) { 0 => Value::zero_of_type(t.clone()), 1 => Value::one_of_type(t.clone()).unwrap_or(Value::zero_of_type(t.clone())), _ => gen_value(t, rng) }
}

/// per-party local inputs for an owner vector
pub fn party_inputs(input_types: &[Type], owners: &[IOStatus], plain: &[Value], rng: &mut Rng) -> Vec<[PV; 3]> {
    let mut res = vec![];
    for ((t, o), x) in input_types.iter().zip(owners.iter()).zip(plain.iter()) {
        match o {
            IOStatus::Public => res.push([PV::Val(x.clone()), PV::Val(x.clone()), PV::Val(x.clone())]),
            IOStatus::Party(q) => {
                let mut a: [PV; 3] = [PV::Val(junk(t, rng)), PV::Val(junk(t, rng)), PV::Val(junk(t, rng))];
                a[*q as usize] = PV::Val(x.clone());
                res.push(a);
            }
            IOStatus::Shared => {
                let s0 = gen_value(t, rng);
                let s1 = gen_value(t, rng);
                let s2 = sub2(x, &s0, &s1, t);
                let sh = [s0, s1, s2];
                let mut a: Vec<PV> = vec![];
                for p in 0..3usize {
                    let mut slots = vec![PV::Val(junk(t, rng)), PV::Val(junk(t, rng)), PV::Val(junk(t, rng))];
                    slots[p] = PV::Val(sh[p].clone());
                    slots[(p + 1) % 3] = PV::Val(sh[(p + 1) % 3].clone());
                    a.push(PV::Tup(slots));
                }
                res.push([a[0].clone(), a[1].clone(), a[2].clone()]);
            }
        }
    }
    res
}

pub struct Compiled { pub ctx: Context, pub g: Graph }
pub fn compile(p: &Prog, owners: &[IOStatus], outs: &[IOStatus], mode: InlineConfig) -> Outcome<Compiled> {
    let ctx = p.ctx.clone();
    let (o2, u2) = (owners.to_vec(), outs.to_vec());
    match observe(|| compile_context(ctx, o2, u2, mode, || SimpleEvaluator::new(None))) {
        Outcome::Ok(mc) => { let c = mc.get_context(); let g = c.get_main_graph().unwrap(); Outcome::Ok(Compiled { ctx: c, g }) }
        Outcome::Err => Outcome::Err,
        Outcome::Panic => Outcome::Panic,
    }
}

/// Oracle: every output party ends with the plaintext result (or consistent shares).
pub fn check_outputs(c: &Compiled, src_out_t: &Type, outs: &[IOStatus], r: &Exec3Result, plain_out: &Value, out: &mut Out, desc: &serde_json::Value, class_prefix: &str) -> bool {
    let oid = c.g.get_output_node().unwrap().get_id() as usize;
    let mut ok = true;
    if !outs.is_empty() {
        for s in outs {
            if let IOStatus::Party(q) = s {
                let v = r.vals[*q as usize][oid].extract();
                if v.as_ref() != Some(plain_out) {
                    out.violation(&format!("{}-output-party-wrong-result", class_prefix), desc.clone(), format!("party {} holds {} instead of the plaintext result", q, match v { Some(_) => "a different value", None => "poison" }));
                    ok = false;
                } else { out.oracle_ok(); }
            }
        }
    } else if src_out_t.is_array() || src_out_t.is_scalar() {
        // shared output: slot j as seen by party j and party j-1 must agree; the slots must sum to the result
        let mut slots: Vec<Option<Value>> = vec![];
        for j in 0..3usize {
            let a = r.vals[j][oid].get(j).extract();
            let b = r.vals[(j + 2) % 3][oid].get(j).extract();
            if a.is_none() || a != b { out.violation(&format!("{}-shared-output-inconsistent", class_prefix), desc.clone(), format!("slot {} differs between party {} and party {}", j, j, (j + 2) % 3)); ok = false; }
            slots.push(a);
        }
        if ok {
            let s = add3(slots[0].as_ref().unwrap(), slots[1].as_ref().unwrap(), slots[2].as_ref().unwrap(), src_out_t);
            if s.as_ref() != Some(plain_out) { out.violation(&format!("{}-shared-output-does-not-reconstruct", class_prefix), desc.clone(), "s0+s1+s2 differs from the plaintext result".into()); ok = false; } else { out.oracle_ok(); }
        }
    }
    ok
}

/// a program whose last operation is a truncation by 2^k (small operands: the probabilistic
/// failure of the ABY3 truncation, about |x| / 2^w, is negligible): variant 0: trunc(x),
/// 1: trunc(x*y), 2: trunc(x + y)
pub fn truncate_program(st: ScalarType, k: u32, variant: usize, shape: Vec<u64>) -> Prog {
    let ctx = create_context().unwrap();
    let g = ctx.create_graph().unwrap();
    let t = array_type(shape, st);
    let x = g.input(t.clone()).unwrap();
    let (pre, its) = match variant % 3 {
        0 => (x, vec![t.clone()]),
        1 => { let y = g.input(t.clone()).unwrap(); (x.multiply(y).unwrap(), vec![t.clone(), t.clone()]) }
        _ => { let y = g.input(t.clone()).unwrap(); (x.add(y).unwrap(), vec![t.clone(), t.clone()]) }
    };
    let o = pre.truncate(1u128 << k).unwrap();
    g.set_output_node(o).unwrap();
    g.finalize().unwrap();
    ctx.set_main_graph(g.clone()).unwrap();
    ctx.finalize().unwrap();
    Prog { ctx, g, input_types: its, attempts: vec![] }
}

/// three-party executions of a truncating program: every designated output party ends with a value
/// within one unit of the plaintext result in every element (secure truncation returns floor or
/// floor + 1, property C05); a shared result has consistent slots that add up to such a value
fn run_truncate_program(p: &Prog, st: ScalarType, owners: &[IOStatus], outs: &[IOStatus], mname: &str, mode: InlineConfig, rng: &mut Rng, out: &mut Out, n_exec: usize) {
    let desc = json!({"ops": p.g.get_nodes().iter().map(|n| op_name(&n.get_operation())).collect::<Vec<_>>(), "input_types": p.input_types.iter().map(|t| format!("{}", t)).collect::<Vec<_>>(), "owners": owners.iter().map(status_str).collect::<Vec<_>>(), "outputs": outs.iter().map(status_str).collect::<Vec<_>>(), "inline": mname});
    let c = match compile(p, owners, outs, mode) { Outcome::Ok(c) => c, Outcome::Err => { out.stat("compile:Err"); return; } Outcome::Panic => { out.violation("compiler-panics", desc, "compile_context panicked".into()); return; } };
    let oid = c.g.get_output_node().unwrap().get_id() as usize;
    let private = owners.iter().any(|o| *o != IOStatus::Public);
    out.case("T:kcheck", format!("kcheck {} {} {}", cfg_coq(owners, outs, &c.g), nodes_coq(&c.g), oid), "true".into(), desc.clone(), private);
    let ot = p.g.get_output_node().unwrap().get_type().unwrap();
    let w = st.size_in_bits();
    let m: u128 = if w >= 128 { u128::MAX } else { (1u128 << w) - 1 };
    let close = |a: &Value, b: &Value| -> bool {
        match (a.to_flattened_array_u128(ot.clone()), b.to_flattened_array_u128(ot.clone())) {
            (Ok(x), Ok(y)) => x.len() == y.len() && x.iter().zip(y.iter()).all(|(p, q)| { let d = p.wrapping_sub(*q) & m; d <= 1 || d == m }),
            _ => false,
        }
    };
    for _ in 0..n_exec {
        // small operands, of both signs for signed types
        let plain: Vec<Value> = p.input_types.iter().map(|t| { let n: u64 = t.get_shape().iter().product(); let v: Vec<u128> = (0..n).map(|_| { let x = rng.below(1 << 12) as u128; if st.is_signed() && rng.chance(1, 2) { x.wrapping_neg() & m } else { x } }).collect(); Value::from_flattened_array(&v, st).unwrap() }).collect();
        let pv = eval_all(&p.g, &plain, [3u8; 16]);
        let plain_out = match pv[p.g.get_output_node().unwrap().get_id() as usize].clone().ok() { Some(v) => v, None => continue };
        let ins = party_inputs(&p.input_types, owners, &plain, rng);
        let mut seeds = [[0u8; 16]; 3];
        for s in seeds.iter_mut() { for b in s.iter_mut() { *b = rng.next() as u8; } }
        let r = exec3(&c.g, &ins, seeds);
        if !outs.is_empty() {
            for s in outs {
                if let IOStatus::Party(q) = s {
                    match r.vals[*q as usize][oid].extract() {
                        Some(v) if close(&v, &plain_out) => out.oracle_ok(),
                        v => out.violation("exec3-truncate-output-party-wrong-result", desc.clone(), format!("party {} holds {} (more than one unit from the plaintext result)", q, if v.is_some() { "a different value" } else { "poison" })),
                    }
                }
            }
        } else {
            let mut slots: Vec<Option<Value>> = vec![];
            let mut ok = true;
            for j in 0..3usize {
                let a = r.vals[j][oid].get(j).extract();
                let b = r.vals[(j + 2) % 3][oid].get(j).extract();
                if a.is_none() || a != b { out.violation("exec3-truncate-shared-output-inconsistent", desc.clone(), format!("slot {} differs between party {} and party {}", j, j, (j + 2) % 3)); ok = false; }
                slots.push(a);
            }
            if ok {
                match add3(slots[0].as_ref().unwrap(), slots[1].as_ref().unwrap(), slots[2].as_ref().unwrap(), &ot) {
                    Some(sv) if close(&sv, &plain_out) => out.oracle_ok(),
                    _ => out.violation("exec3-truncate-shared-output-does-not-reconstruct", desc.clone(), "s0+s1+s2 is more than one unit from the plaintext result".into()),
                }
            }
        }
    }
}

pub fn run_program(p: &Prog, owners: &[IOStatus], outs: &[IOStatus], mname: &str, mode: InlineConfig, rng: &mut Rng, out: &mut Out, class_prefix: &str, n_exec: usize, truncating: bool) {
    let its = p.input_types.clone();
    run_program_with(p, owners, outs, mname, mode, rng, out, class_prefix, n_exec, truncating, &move |r: &mut Rng| its.iter().map(|t| gen_value(t, r)).collect())
}
pub fn run_program_with(p: &Prog, owners: &[IOStatus], outs: &[IOStatus], mname: &str, mode: InlineConfig, rng: &mut Rng, out: &mut Out, class_prefix: &str, n_exec: usize, truncating: bool, gen_inputs: &dyn Fn(&mut Rng) -> Vec<Value>) {
    let ops_desc: Vec<String> = p.g.get_nodes().iter().map(|n| op_name(&n.get_operation())).collect();
    let desc = json!({"ops": ops_desc, "input_types": p.input_types.iter().map(|t| format!("{}", t)).collect::<Vec<_>>(), "owners": owners.iter().map(status_str).collect::<Vec<_>>(), "outputs": outs.iter().map(status_str).collect::<Vec<_>>(), "inline": mname});
    let c = match compile(p, owners, outs, mode) { Outcome::Ok(c) => c, Outcome::Err => { out.stat("compile:Err"); return; } Outcome::Panic => { out.stat("compile:Panic"); out.violation("compiler-panics", desc, "compile_context panicked".into()); return; } };
    out.stat("compile:Ok");
    out.stat(&format!("owners:{}", owners.iter().map(status_str).collect::<Vec<_>>().join(",")));
    out.stat(&format!("outputs:{}", outs.iter().map(status_str).collect::<Vec<_>>().join(",")));
    out.stat(&format!("inline:{}", mname));
    let n = c.g.get_nodes().len();
    out.stat_n("compiled_nodes", n as u64);
    let private = owners.iter().any(|o| *o != IOStatus::Public);
    let oid = c.g.get_output_node().unwrap().get_id();
    // T: the verified analysis accepts the compiler's output
    out.case("T:kcheck", format!("kcheck {} {} {}", cfg_coq(owners, outs, &c.g), nodes_coq(&c.g), oid), "true".into(), desc.clone(), private);
    // oracle: three-party executions with junk and independent seeds
    let src_out_t = p.g.get_output_node().unwrap().get_type().unwrap();
    for _ in 0..n_exec {
        let plain: Vec<Value> = gen_inputs(rng);
        let pv = eval_all(&p.g, &plain, [3u8; 16]);
        let plain_out = match pv.last().and_then(|_| pv[p.g.get_output_node().unwrap().get_id() as usize].clone().ok()) { Some(v) => v, None => { out.stat("plain:Err"); continue; } };
        let ins = party_inputs(&p.input_types, owners, &plain, rng);
        let mut seeds = [[0u8; 16]; 3];
        for s in seeds.iter_mut() { for b in s.iter_mut() { *b = rng.next() as u8; } }
        let r = exec3(&c.g, &ins, seeds);
        if truncating { out.stat("exec3:truncating-skipped-exact-compare"); continue; }
        check_outputs(&c, &src_out_t, outs, &r, &plain_out, out, &desc, class_prefix);
    }
}

/// {null: bit[n], k: u32[n], <pay>: u32[n]} with distinct keys drawn from a small pool
fn table_type(n: u64, pay: &str) -> Type {
    named_tuple_type(vec![(ciphercore_base::type_inference::NULL_HEADER.to_owned(), array_type(vec![n], BIT)), ("k".to_owned(), array_type(vec![n], UINT32)), (pay.to_owned(), array_type(vec![n], UINT32))])
}
fn table_value(n: u64, rng: &mut Rng, pool_offset: u64) -> Value {
    let mut keys: Vec<u64> = (0..8).map(|i| 10 * (i + 1 + pool_offset)).collect();
    rng.shuffle(&mut keys);
    let nulls: Vec<u8> = (0..n).map(|_| if rng.chance(4, 5) { 1 } else { 0 }).collect();
    let ks: Vec<u64> = keys[..n as usize].to_vec();
    let pay: Vec<u64> = (0..n).map(|_| 1 + rng.below(1000)).collect();
    Value::from_vector(vec![Value::from_flattened_array(&nulls, BIT).unwrap(), Value::from_flattened_array(&ks, UINT32).unwrap(), Value::from_flattened_array(&pay, UINT32).unwrap()])
}
pub fn join_program(jt: JoinType, n0: u64, n1: u64) -> Prog {
    let ctx = create_context().unwrap();
    let g = ctx.create_graph().unwrap();
    let (t0, t1) = (table_type(n0, "a"), table_type(n1, "b"));
    let i0 = g.input(t0.clone()).unwrap();
    let i1 = g.input(t1.clone()).unwrap();
    let mut h = std::collections::HashMap::new();
    h.insert("k".to_owned(), "k".to_owned());
    let o = g.add_node(vec![i0, i1], vec![], Operation::Join(jt, h)).unwrap();
    g.set_output_node(o).unwrap();
    g.finalize().unwrap();
    ctx.set_main_graph(g.clone()).unwrap();
    ctx.finalize().unwrap();
    Prog { ctx, g, input_types: vec![t0, t1], attempts: vec![] }
}
pub fn sort_program(n: u64, b: u64) -> Prog {
    let ctx = create_context().unwrap();
    let g = ctx.create_graph().unwrap();
    let t = named_tuple_type(vec![("key".to_owned(), array_type(vec![n, b], BIT)), ("pay".to_owned(), array_type(vec![n], UINT32))]);
    let i = g.input(t.clone()).unwrap();
    let o = g.add_node(vec![i], vec![], Operation::Sort("key".to_owned())).unwrap();
    g.set_output_node(o).unwrap();
    g.finalize().unwrap();
    ctx.set_main_graph(g.clone()).unwrap();
    ctx.finalize().unwrap();
    Prog { ctx, g, input_types: vec![t], attempts: vec![] }
}

pub fn run_special(tier: &str, rng: &mut Rng, out: &mut Out) {
    let modes = inline_modes();
    let n_join = match tier { "thorough" => 16, "search" => 24, _ => 2 };
    let jts = [JoinType::Union, JoinType::Inner, JoinType::Left, JoinType::Full];
    for i in 0..n_join {
        let jt = jts[i % 4];
        let (n0, n1) = (2 + rng.below(2), 1 + rng.below(2));
        let p = join_program(jt, n0, n1);
        let owners = match i % 3 { 0 => vec![IOStatus::Party(0), IOStatus::Party(1)], 1 => vec![IOStatus::Party(1), IOStatus::Public], _ => vec![IOStatus::Shared, IOStatus::Party(2)] };
        let owners = if owners.contains(&IOStatus::Shared) { vec![IOStatus::Party(2), IOStatus::Party(0)] } else { owners };
        let outs = vec![IOStatus::Party(((i + 2) % 3) as u64)];
        let (mname, mode) = modes[0].clone();
        out.stat(&format!("special:join-{:?}", jt));
        run_program_with(&p, &owners, &outs, mname, mode, rng, out, &format!("exec3-join-{:?}", jt), 1, false, &move |r: &mut Rng| vec![table_value(n0, r, 0), table_value(n1, r, 1)]);
    }
    let n_sort = match tier { "thorough" => 8, "search" => 12, _ => 1 };
    for i in 0..n_sort {
        let (n, b) = (2 + rng.below(3), 1 + rng.below(3));
        let p = sort_program(n, b);
        let owners = vec![match i % 3 { 0 => IOStatus::Party(1), 1 => IOStatus::Party(0), _ => IOStatus::Party(2) }];
        let outs = vec![IOStatus::Party((i % 3) as u64)];
        let (mname, mode) = modes[i % 3].clone();
        out.stat("special:sort");
        run_program(&p, &owners, &outs, mname, mode, rng, out, "exec3-sort", 1, false);
    }
}

pub fn run(tier: &str, seed: u64, out: &mut Out) {
    let mut rng = Rng::new(seed ^ 0xC02);
    let (n_frag, n_wide) = match tier { "thorough" => (300, 300), "search" => (400, 600), _ => (24, 30) };
    let modes = inline_modes();
    let all_outs = output_subsets();
    run_special(tier, &mut rng, out);
    let int_sts = [UINT8, INT16, UINT32, INT32, UINT64, INT64];
    // broadcasting with public/private mixing (promotion of public operands, planner rules)
    let n_mix = match tier { "thorough" => 180, "search" => 450, _ => 18 };
    let mixed = [vec![IOStatus::Party(0), IOStatus::Public], vec![IOStatus::Public, IOStatus::Party(1)], vec![IOStatus::Shared, IOStatus::Public], vec![IOStatus::Public, IOStatus::Shared], vec![IOStatus::Party(2), IOStatus::Party(0)]];
    for i in 0..n_mix {
        let st = *rng.pick(&int_sts);
        let p = crate::c01::broadcast_mix_program(&mut rng, st, i * 7 + 3);
        let owners = mixed[i % 5].clone();
        let outs = all_outs[(i * 3 + 1) % all_outs.len()].clone();
        let (mname, mode) = modes[i % 3].clone();
        out.stat("stream:broadcast-mix");
        run_program(&p, &owners, &outs, mname, mode, &mut rng, out, "exec3-broadcast-mix", 1, false);
    }
    // secure truncation by a power of two as the last operation (approximate result: own oracle)
    let n_trunc = match tier { "thorough" => 60, "search" => 200, _ => 8 };
    for i in 0..n_trunc {
        let st = [INT64, UINT64, INT32, UINT32][i % 4];
        let k = 1 + rng.below(8) as u32;
        let p = truncate_program(st, k, i / 4, vec![1 + rng.below(3)]);
        let owners: Vec<IOStatus> = (0..p.input_types.len()).map(|j| [IOStatus::Party(((i + j) % 3) as u64), IOStatus::Party(((i + 2 * j + 1) % 3) as u64), IOStatus::Shared][(i / 2 + j) % 3].clone()).collect();
        let outs = all_outs[(i * 5) % all_outs.len()].clone();
        let (mname, mode) = modes[i % 3].clone();
        out.stat("stream:truncate-last");
        run_truncate_program(&p, st, &owners, &outs, mname, mode, &mut rng, out, 2);
    }
    for i in 0..(n_frag + n_wide) {
        let wide = i >= n_frag;
        let st = if i % 7 == 6 { BIT } else { *rng.pick(&int_sts) };
        let ops: Vec<&'static str> = if st == BIT { vec!["add", "mul", "mul", "stack", "get", "reshape", "constant", "sum"] } else if wide { MPC_OPS.to_vec() } else { FRAGMENT_OPS.to_vec() };
        let (ni, no) = (1 + rng.below(3) as usize, 1 + rng.below(6) as usize);
        let p = gen_mpc_program(&mut rng, &ops, ni, no, &[st]);
        let truncating = p.g.get_nodes().iter().any(|n| matches!(n.get_operation(), Operation::Truncate(_)));
        // owner vectors: all 5^n for n = 1, sampled otherwise; outputs: rotate through all 8 subsets
        let ovs: Vec<Vec<IOStatus>> = if ni == 1 && tier != "quick" { owner_vectors(1) } else { (0..if tier == "quick" { 1 } else { 3 }).map(|_| random_owners(ni, &mut rng)).collect() };
        for (k, owners) in ovs.iter().enumerate() {
            let outs = all_outs[(i + k) % all_outs.len()].clone();
            let (mname, mode) = modes[(i + k) % 3].clone();
            run_program(&p, owners, &outs, mname, mode, &mut rng, out, "exec3", 2, truncating);
        }
    }
}

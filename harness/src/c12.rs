//! C12 — contexts survive serialization; malformed input is an error, not a crash.
//! Native oracle on /repo's real code: to_string -> from_str gives a deeply equal context that
//! evaluates identically, a second to_string gives the same text; deserializing mutated text
//! never panics and never yields an ill-formed context.
//! Correspondence with Model/Serde.v on the structural layer (the inner payload as a data
//! structure): `ser` of a model state against Rust's payload, `deser` (replay through the C11
//! `step`) against Rust's from_str on valid payloads and on structural mutants.
use crate::c11::{check_invariants, classify, graph_annot_code, node_annot_code, observe_ctx, random_history, size_estimate, Tags, POOL};
use crate::coqfmt::coq_string;
use crate::out::Out;
use crate::rng::Rng;
use ciphercore_base::custom_ops::{run_instantiation_pass, CustomOperation, Not, Or};
use ciphercore_base::data_types::*;
use ciphercore_base::data_values::Value;
use ciphercore_base::evaluators::evaluate_simple_evaluator;
use ciphercore_base::evaluators::simple_evaluator::SimpleEvaluator;
use ciphercore_base::graphs::{create_context, Context, Graph, GraphAnnotation, NodeAnnotation, Operation};
use ciphercore_base::inline::inline_ops::{inline_operations, DepthOptimizationLevel, InlineConfig, InlineMode};
use ciphercore_base::mpc::mpc_compiler::{prepare_for_mpc_evaluation, IOStatus};
use ciphercore_base::ops::adder::BinaryAdd;
use ciphercore_base::ops::clip::Clip2K;
use ciphercore_base::ops::comparisons::{Equal, GreaterThan, LessThan, NotEqual};
use ciphercore_base::ops::min_max::{Max, Min};
use ciphercore_base::ops::multiplexer::Mux;
use ciphercore_base::optimizer::optimize::optimize_context;
use serde::Deserialize;
use serde_json::{json, Value as J};
use std::collections::HashSet;
use std::panic::{catch_unwind, AssertUnwindSafe};

pub const HEADER: &str = "From CC Require Import Base.Prelude Model.Api Model.Serde.";

type R<T> = ciphercore_base::errors::Result<T>;

// ---- the inner payload as a data structure (mirror of SerializableContextBody) ---------------
#[derive(Deserialize)]
struct PNode {
    node_dependencies: Vec<u64>,
    graph_dependencies: Vec<u64>,
    operation: Operation,
}
#[derive(Deserialize)]
struct PGraph {
    finalized: bool,
    nodes: Vec<PNode>,
    output_node: Option<u64>,
}
#[derive(Deserialize)]
struct PCtx {
    finalized: bool,
    graphs: Vec<PGraph>,
    main_graph: Option<u64>,
    graphs_names: Vec<(u64, String)>,
    nodes_names: Vec<((u64, u64), String)>,
    nodes_annotations: Vec<((u64, u64), Vec<NodeAnnotation>)>,
    graphs_annotations: Vec<(u64, Vec<GraphAnnotation>)>,
}

fn lst<T, F: Fn(&T) -> String>(xs: &[T], f: F) -> String {
    let v: Vec<String> = xs.iter().map(f).collect();
    format!("[{}]", v.join("; "))
}
fn opt<T, F: Fn(&T) -> String>(o: &Option<T>, f: F) -> String {
    match o {
        Some(x) => format!("(Some {})", f(x)),
        None => "None".to_string(),
    }
}
fn b(x: bool) -> &'static str {
    if x { "true" } else { "false" }
}
fn nums(xs: &[u64]) -> String {
    lst(xs, |x| x.to_string())
}

/// Gallina term of type sctx
fn sctx_term(p: &PCtx, tags: &mut Tags) -> String {
    let mut gs = vec![];
    for g in &p.graphs {
        let ns: Vec<String> = g.nodes.iter().map(|n| format!("mkSNode {} {} {}", nums(&n.node_dependencies), nums(&n.graph_dependencies), tags.op(&n.operation))).collect();
        gs.push(format!("mkSGraph {} [{}] {}", b(g.finalized), ns.join("; "), opt(&g.output_node, |x| x.to_string())));
    }
    format!(
        "(mkSCtx {} [{}] {} {} {} {} {})",
        b(p.finalized),
        gs.join("; "),
        opt(&p.main_graph, |x| x.to_string()),
        lst(&p.graphs_names, |(g, s)| format!("({}, {})", g, coq_string(s))),
        lst(&p.nodes_names, |((g, n), s)| format!("(({}, {}), {})", g, n, coq_string(s))),
        lst(&p.nodes_annotations, |((g, n), a)| format!("(({}, {}), {})", g, n, lst(a, |x| node_annot_code(x).to_string()))),
        lst(&p.graphs_annotations, |(g, a)| format!("({}, {})", g, lst(a, |x| graph_annot_code(x).to_string())))
    )
}

/// The type checker's answers along the reconstruction of `p`, obtained by an independent replay
/// through the public API (stops at the first point where the reconstruction must fail).
fn replay_answers(p: &PCtx, tags: &mut Tags) -> String {
    let mut tbl: Vec<String> = vec![];
    let ctx = create_context().unwrap();
    'outer: for (gi, g) in p.graphs.iter().enumerate() {
        let gr = ctx.create_graph().unwrap();
        for (ni, n) in g.nodes.iter().enumerate() {
            let cur = gr.get_nodes();
            if n.node_dependencies.iter().any(|d| *d >= cur.len() as u64) {
                break 'outer;
            }
            let graphs = ctx.get_graphs();
            if n.graph_dependencies.iter().any(|d| *d >= graphs.len() as u64) {
                break 'outer;
            }
            let deps = n.node_dependencies.iter().map(|d| cur[*d as usize].clone()).collect();
            let gdeps = n.graph_dependencies.iter().map(|d| graphs[*d as usize].clone()).collect();
            let in_ty: Option<Type> = match &n.operation { Operation::Input(t) => Some(t.clone()), Operation::Constant(t, _) => Some(t.clone()), _ => None };
            let a_in = match &in_ty {
                None => "None".to_string(),
                Some(t) => format!("(Some {})", opt(&(if t.is_valid() { size_estimate(t) } else { None }), |x| x.to_string())),
            };
            let op = n.operation.clone();
            let r = catch_unwind(AssertUnwindSafe(|| gr.add_node(deps, gdeps, op)));
            match r {
                Ok(Ok(node)) => {
                    let t = node.get_type().unwrap();
                    tbl.push(format!("(({}, {}), mkAns (Some {}) {} {})", gi, ni, tags.ty(&t), opt(&size_estimate(&t), |x| x.to_string()), a_in));
                }
                Ok(Err(e)) => {
                    let mut code = classify("add_node", &e.to_string());
                    if e.to_string().contains("overflow!") {
                        code = if in_ty.as_ref().map_or(false, |t| size_estimate(t).is_some()) { 16 } else { 13 };
                    }
                    let (a_ty, a_sz) = if code == 13 { ("None".to_string(), "None".to_string()) } else {
                        ("(Some 0)".to_string(), match &in_ty { Some(t) => opt(&size_estimate(t), |x| x.to_string()), None => if code == 14 { "None".to_string() } else { "(Some 0)".to_string() } })
                    };
                    tbl.push(format!("(({}, {}), mkAns {} {} {})", gi, ni, a_ty, a_sz, a_in));
                    break 'outer;
                }
                Err(_) => break 'outer,
            }
        }
        if let Some(o) = g.output_node {
            let cur = gr.get_nodes();
            if o >= cur.len() as u64 || gr.set_output_node(cur[o as usize].clone()).is_err() {
                break 'outer;
            }
        }
        if g.finalized && gr.finalize().is_err() {
            break 'outer;
        }
    }
    format!("[{}]", tbl.join("; "))
}

fn node_count(p: &PCtx) -> usize {
    p.graphs.iter().map(|g| g.nodes.len()).sum()
}

#[derive(Debug)]
enum De {
    Ok(Context),
    Err,
    Panic,
}
fn deserialize(text: &str) -> De {
    match catch_unwind(AssertUnwindSafe(|| serde_json::from_str::<Context>(text))) {
        Ok(Ok(c)) => De::Ok(c),
        Ok(Err(_)) => De::Err,
        Err(_) => De::Panic,
    }
}
fn envelope(version: u64, inner: &J) -> String {
    json!({"version": version, "data": inner.to_string()}).to_string()
}
fn split_envelope(text: &str) -> (u64, J) {
    let env: J = serde_json::from_str(text).unwrap();
    (env["version"].as_u64().unwrap(), serde_json::from_str(env["data"].as_str().unwrap()).unwrap())
}

// ---- random values of a type -------------------------------------------------------------------
fn random_value(t: &Type, rng: &mut Rng) -> Value {
    match t {
        Type::Scalar(st) => {
            let w = st.size_in_bits();
            let x = if w == 128 { rng.u128() } else { rng.u128() & ((1u128 << w) - 1) };
            Value::from_flattened_array(&[x], *st).unwrap()
        }
        Type::Array(sh, st) => {
            let n: u64 = sh.iter().product();
            let w = st.size_in_bits();
            let xs: Vec<u128> = (0..n).map(|_| if w == 128 { rng.u128() } else { rng.u128() & ((1u128 << w) - 1) }).collect();
            Value::from_flattened_array(&xs, *st).unwrap()
        }
        Type::Vector(n, e) => Value::from_vector((0..*n).map(|_| random_value(e, rng)).collect()),
        Type::Tuple(ts) => Value::from_vector(ts.iter().map(|e| random_value(e, rng)).collect()),
        Type::NamedTuple(fs) => Value::from_vector(fs.iter().map(|(_, e)| random_value(e, rng)).collect()),
    }
}
fn main_inputs(ctx: &Context, _rng: &mut Rng) -> Option<(Graph, Vec<Value>)> {
    ctx.check_finalized().ok()?;
    let g = ctx.get_main_graph().ok()?;
    // huge declared types (size-limit histories) cannot be materialised: this holds for inputs and
    // for every node the evaluation may reach (Zeros/Ones/Constant of a legal but huge type, also
    // inside called graphs) — an allocation failure aborts the process and cannot be caught
    for gr in ctx.get_graphs() {
        for n in gr.get_nodes() {
            let t = n.get_type().ok()?;
            if size_estimate(&t).map_or(true, |s| s > 1_000_000) {
                return None;
            }
        }
    }
    Some((g, vec![]))
}

// ---- the library's context kinds -----------------------------------------------------------------
fn annotate_all(g: &Graph) -> R<()> {
    let nodes = g.get_nodes();
    let anns = [
        NodeAnnotation::AssociativeOperation,
        NodeAnnotation::Private,
        NodeAnnotation::Send(0, 1),
        NodeAnnotation::Send(2, 0),
        NodeAnnotation::PRFMultiplication,
        NodeAnnotation::PRFB2A,
        NodeAnnotation::PRFTruncate,
        NodeAnnotation::MpcCall,
    ];
    for (i, a) in anns.iter().enumerate() {
        nodes[i % nodes.len()].add_annotation(a.clone())?;
    }
    g.add_annotation(GraphAnnotation::AssociativeOperation)?;
    g.add_annotation(GraphAnnotation::OneBitState)?;
    g.add_annotation(GraphAnnotation::SmallState)?;
    Ok(())
}

fn plain_context(rng: &mut Rng, finalize: bool) -> R<Context> {
    let c = create_context()?;
    let g = c.create_graph()?;
    g.set_name("main graph")?;
    let st = *rng.pick(&[INT32, UINT64, INT64, UINT128, INT128]);
    let t = array_type(vec![2, 3], st);
    let a = g.input(t.clone())?;
    a.set_name("a")?;
    let bb = g.input(t.clone())?;
    bb.set_name("b \"quoted\" \u{e9}")?;
    // 128-bit constants
    let k128 = g.constant(scalar_type(UINT128), Value::from_scalar(u128::MAX - rng.below(1000) as u128, UINT128)?)?;
    let ki128 = g.constant(array_type(vec![2], INT128), Value::from_flattened_array(&[i128::MIN + 5, -1i128], INT128)?)?;
    let s = a.add(bb.clone())?.multiply(a.clone())?.subtract(bb.clone())?;
    let s2 = s.sum(vec![0])?;
    let p = s.permute_axes(vec![1, 0])?;
    let r = p.reshape(array_type(vec![6], st))?;
    let bits = r.a2b()?;
    let back = bits.b2a(st)?;
    let tup = g.create_tuple(vec![s2.clone(), back.clone(), k128.clone(), ki128.clone()])?;
    let named = g.create_named_tuple(vec![("x".to_string(), s2.clone()), ("y".to_string(), back.clone())])?;
    let got = named.named_tuple_get("y".to_string())?;
    let vecn = g.create_vector(array_type(vec![6], st), vec![back.clone(), got.clone()])?;
    let arr = vecn.vector_to_array()?;
    let z = g.zeros(array_type(vec![2, 6], st))?;
    let fin = arr.add(z)?;
    let o = g.create_tuple(vec![tup.tuple_get(0)?, fin, g.random(array_type(vec![2], BIT))?])?;
    o.set_name("out")?;
    o.set_as_output()?;
    annotate_all(&g)?;
    if finalize {
        g.finalize()?;
        g.set_as_main()?;
        c.finalize()?;
    }
    Ok(c)
}

fn call_context(rng: &mut Rng) -> R<Context> {
    let c = create_context()?;
    let st = *rng.pick(&[INT32, UINT64, UINT8]);
    let t = array_type(vec![3], st);
    // callee
    let f = c.create_graph()?;
    f.set_name("f")?;
    let x = f.input(t.clone())?;
    let y = f.input(t.clone())?;
    x.add(y.clone())?.multiply(y)?.set_as_output()?;
    f.finalize()?;
    // iterate body: (state, input) -> (state, output)
    let body = c.create_graph()?;
    let stn = body.input(t.clone())?;
    let inp = body.input(t.clone())?;
    let ns = stn.add(inp.clone())?;
    body.create_tuple(vec![ns.clone(), ns.multiply(inp)?])?.set_as_output()?;
    body.add_annotation(GraphAnnotation::AssociativeOperation)?;
    body.finalize()?;
    let g = c.create_graph()?;
    let a = g.input(t.clone())?;
    a.set_name("a")?;
    let bb = g.input(t.clone())?;
    let called = g.call(f.clone(), vec![a.clone(), bb.clone()])?;
    let called2 = g.call(f, vec![called.clone(), a.clone()])?;
    let v = g.create_vector(t.clone(), vec![a.clone(), bb.clone(), called2.clone()])?;
    let it = g.iterate(body, called, v)?;
    g.create_tuple(vec![it.tuple_get(0)?, it.tuple_get(1)?.vector_to_array()?, called2])?.set_as_output()?;
    g.finalize()?;
    g.set_as_main()?;
    c.finalize()?;
    Ok(c)
}

fn custom_context(rng: &mut Rng) -> R<Context> {
    let c = create_context()?;
    let g = c.create_graph()?;
    let w = 8 * (1 + rng.below(2));
    let t = array_type(vec![2, w], BIT);
    let a = g.input(t.clone())?;
    let bb = g.input(t.clone())?;
    let signed = rng.chance(1, 2);
    let n = g.custom_op(CustomOperation::new(Not {}), vec![a.clone()])?;
    let o = g.custom_op(CustomOperation::new(Or {}), vec![n, bb.clone()])?;
    let s = g.custom_op(CustomOperation::new(BinaryAdd { overflow_bit: false }), vec![o.clone(), bb.clone()])?;
    let gt = g.custom_op(CustomOperation::new(GreaterThan { signed_comparison: signed }), vec![s.clone(), a.clone()])?;
    let lt = g.custom_op(CustomOperation::new(LessThan { signed_comparison: signed }), vec![s.clone(), a.clone()])?;
    let eq = g.custom_op(CustomOperation::new(Equal {}), vec![s.clone(), bb.clone()])?;
    let ne = g.custom_op(CustomOperation::new(NotEqual {}), vec![s.clone(), bb.clone()])?;
    let mn = g.custom_op(CustomOperation::new(Min { signed_comparison: signed }), vec![s.clone(), a.clone()])?;
    let mx = g.custom_op(CustomOperation::new(Max { signed_comparison: signed }), vec![mn.clone(), bb.clone()])?;
    let flag = gt.reshape(array_type(vec![2, 1], BIT))?;
    let mux = g.custom_op(CustomOperation::new(Mux {}), vec![flag, mx.clone(), a.clone()])?;
    let clip = g.custom_op(CustomOperation::new(Clip2K { k: 3 }), vec![mux.clone()])?;
    g.create_tuple(vec![clip, gt, lt, eq, ne, mx])?.set_as_output()?;
    g.finalize()?;
    g.set_as_main()?;
    c.finalize()?;
    Ok(c)
}

fn arith_context(rng: &mut Rng, with_bits: bool) -> R<Context> {
    let c = create_context()?;
    let g = c.create_graph()?;
    let st = *rng.pick(&[INT32, UINT32, INT64]);
    let t = array_type(vec![2], st);
    let a = g.input(t.clone())?;
    a.set_name("a")?;
    let bb = g.input(t.clone())?;
    let k = g.constant(scalar_type(st), Value::from_scalar(rng.below(1000), st)?)?;
    let mut r = a.multiply(bb.clone())?.add(k)?;
    if with_bits {
        r = r.a2b()?.b2a(st)?.add(a)?;
    }
    r.set_as_output()?;
    g.finalize()?;
    g.set_as_main()?;
    c.finalize()?;
    Ok(c)
}

fn compiled(ctx: &Context, rng: &mut Rng) -> R<Context> {
    let ins = vec![match rng.below(3) { 0 => IOStatus::Party(0), 1 => IOStatus::Public, _ => IOStatus::Party(2) }, IOStatus::Party(1)];
    let outs = if rng.chance(1, 2) { vec![IOStatus::Party(0)] } else { vec![IOStatus::Party(0), IOStatus::Party(1), IOStatus::Party(2)] };
    let cfg = InlineConfig { default_mode: InlineMode::Simple, ..Default::default() };
    Ok(prepare_for_mpc_evaluation(ctx, vec![ins], vec![outs], cfg)?.get_context())
}

/// All checks on one valid context.  `model`: also emit the model cases.
fn roundtrip(ctx: &Context, kind: &str, rng: &mut Rng, tags: &mut Tags, out: &mut Out, model: bool, calls: Option<&Vec<String>>) -> Option<String> {
    out.stat(&format!("kind:{}", kind));
    let input = json!({"kind": kind, "graphs": ctx.get_num_graphs(), "nodes": ctx.get_graphs().iter().map(|g| g.get_num_nodes()).sum::<u64>()});
    let text = match catch_unwind(AssertUnwindSafe(|| serde_json::to_string(ctx))) {
        Ok(Ok(t)) => t,
        _ => {
            out.violation("serialize-fails", input, "to_string failed or panicked".into());
            return None;
        }
    };
    // serializing twice gives the same text
    let text_again = serde_json::to_string(ctx).unwrap();
    if text != text_again {
        out.violation("serialize-not-deterministic", input.clone(), "two to_string calls differ".into());
    } else {
        out.oracle_ok();
    }
    let ctx2 = match deserialize(&text) {
        De::Ok(c) => c,
        De::Err => {
            out.violation("roundtrip-fails", input.clone(), "from_str rejects the text to_string produced".into());
            return Some(text);
        }
        De::Panic => {
            out.violation("deserialize-panics", input.clone(), "from_str panics on the text to_string produced".into());
            return Some(text);
        }
    };
    if !ctx.deep_equal(ctx2.clone()) {
        out.violation("roundtrip-not-deep-equal", input.clone(), "deserialized context is not deep_equal".into());
    } else {
        out.oracle_ok();
    }
    // the copy serializes to the same text (canonical table order)
    if serde_json::to_string(&ctx2).unwrap() != text {
        out.violation("reserialize-differs", input.clone(), "to_string of the deserialized context differs".into());
    } else {
        out.oracle_ok();
    }
    match check_invariants(&ctx2, &HashSet::new()) {
        Ok(()) => out.oracle_ok(),
        Err(m) => out.violation("deserialize-ill-formed", input.clone(), m),
    }
    // node types are re-inferred: they must coincide with the original's (also when the original's
    // were supplied by the compiler)
    let mut types_ok = true;
    for (g1, g2) in ctx.get_graphs().iter().zip(ctx2.get_graphs().iter()) {
        for (n1, n2) in g1.get_nodes().iter().zip(g2.get_nodes().iter()) {
            if n1.get_type().ok() != n2.get_type().ok() {
                types_ok = false;
            }
        }
    }
    if !types_ok {
        out.violation("roundtrip-changes-types", input.clone(), "a node type differs after the round trip".into());
    } else {
        out.oracle_ok();
    }
    // equal evaluation on random inputs (same PRNG seed on both sides)
    if let (Some((g1, v1)), Some((g2, _))) = (main_inputs(ctx, &mut rng.clone()), main_inputs(&ctx2, &mut rng.clone())) {
        for _ in 0..2 {
            let seed: [u8; 16] = rng.u128().to_le_bytes();
            let vals: Vec<Value> = g1.get_nodes().iter().filter_map(|n| if let Operation::Input(t) = n.get_operation() { Some(random_value(&t, rng)) } else { None }).collect();
            let _ = v1.len();
            let r1 = catch_unwind(AssertUnwindSafe(|| evaluate_simple_evaluator(g1.clone(), vals.clone(), Some(seed))));
            let r2 = catch_unwind(AssertUnwindSafe(|| evaluate_simple_evaluator(g2.clone(), vals.clone(), Some(seed))));
            match (r1, r2) {
                (Ok(Ok(a)), Ok(Ok(bv))) => {
                    if a != bv {
                        out.violation("roundtrip-evaluates-differently", input.clone(), "evaluation differs after the round trip".into());
                    } else {
                        out.oracle_ok();
                        out.stat("evaluated");
                    }
                }
                (Ok(Err(_)), Ok(Err(_))) => out.stat("evaluation-errs-both"),
                _ => out.violation("roundtrip-evaluates-differently", input.clone(), "one side fails to evaluate".into()),
            }
        }
    }
    // ---- model ----
    if model {
        let (ver, inner) = split_envelope(&text);
        if let Ok(p) = serde_json::from_value::<PCtx>(inner) {
            let n = node_count(&p);
            let x = sctx_term(&p, tags);
            let tbl = replay_answers(&p, tags);
            let obs2 = observe_ctx(&ctx2, tags, &HashSet::new(), &POOL).full();
            let pool = lst(&POOL, |s| coq_string(s));
            out.case("deser_valid", format!("(deser_obs {} {} ({}, {}))%N", pool, tbl, ver, x), format!("(Ok {})%N", obs2), input.clone(), n > 3);
            out.case("ser_of_deser", format!("(rmap ser (deser_env (tc_of {}) ({}, {})))%N", tbl, ver, x), format!("(Ok {})%N", x), input.clone(), n > 3);
            if let Some(cs) = calls {
                out.case("ser_of_history", format!("(ser_env (run [{}]))%N", cs.join("; ")), format!("({}, {})%N", ver, x), input.clone(), !p.graphs_names.is_empty() || !p.nodes_names.is_empty());
            }
        }
    }
    Some(text)
}

// ---- structural mutants of the inner payload -----------------------------------------------------
fn big(rng: &mut Rng, len: u64) -> u64 {
    match rng.below(5) {
        0 => len,
        1 => len + 1 + rng.below(3),
        2 => u64::MAX,
        3 => 1u64 << 32,
        _ => len + 7,
    }
}
/// Applies one structural mutation; returns its name (None: not applicable).
fn mutate(ver: &mut u64, inner: &mut J, rng: &mut Rng) -> Option<&'static str> {
    let ng = inner["graphs"].as_array().map_or(0, |a| a.len()) as u64;
    let pick_graph = |rng: &mut Rng| -> Option<usize> { if ng == 0 { None } else { Some(rng.below(ng) as usize) } };
    match rng.below(22) {
        0 => {
            *ver = *rng.pick(&[0, 1, 3, u64::MAX]);
            Some("wrong-version")
        }
        1 => {
            let t = *rng.pick(&["graphs_names", "nodes_names", "nodes_annotations", "graphs_annotations", "graphs"]);
            let a = inner[t].as_array_mut()?;
            a.pop()?;
            Some("truncated-table")
        }
        2 => {
            let g = pick_graph(rng)?;
            let a = inner["graphs"][g]["nodes"].as_array_mut()?;
            a.pop()?;
            Some("truncated-nodes")
        }
        3 => {
            let a = inner["graphs_names"].as_array_mut()?;
            if a.is_empty() { a.push(json!([0, "m"])); }
            let i = rng.below(a.len() as u64) as usize;
            a[i][0] = json!(big(rng, ng));
            Some("graphs_names-id-out-of-range")
        }
        4 => {
            let a = inner["nodes_names"].as_array_mut()?;
            if a.is_empty() { a.push(json!([[0, 0], "m"])); }
            let i = rng.below(a.len() as u64) as usize;
            let which = rng.below(2) as usize;
            a[i][0][which] = json!(big(rng, if which == 0 { ng } else { 3 }));
            Some("nodes_names-id-out-of-range")
        }
        5 => {
            let a = inner["nodes_annotations"].as_array_mut()?;
            if a.is_empty() { a.push(json!([[0, 0], ["Private"]])); }
            let i = rng.below(a.len() as u64) as usize;
            let which = rng.below(2) as usize;
            a[i][0][which] = json!(big(rng, if which == 0 { ng } else { 3 }));
            Some("nodes_annotations-id-out-of-range")
        }
        6 => {
            let a = inner["graphs_annotations"].as_array_mut()?;
            if a.is_empty() { a.push(json!([0, ["SmallState"]])); }
            let i = rng.below(a.len() as u64) as usize;
            a[i][0] = json!(big(rng, ng));
            Some("graphs_annotations-id-out-of-range")
        }
        7 => {
            inner["main_graph"] = json!(big(rng, ng));
            Some("main-out-of-range")
        }
        8 => {
            let g = pick_graph(rng)?;
            let n = inner["graphs"][g]["nodes"].as_array()?.len() as u64;
            inner["graphs"][g]["output_node"] = json!(big(rng, n));
            Some("output-out-of-range")
        }
        9 | 10 => {
            // dangling / forward node dependency
            let g = pick_graph(rng)?;
            let nodes = inner["graphs"][g]["nodes"].as_array_mut()?;
            if nodes.is_empty() { return None; }
            let i = rng.below(nodes.len() as u64) as usize;
            let deps = nodes[i]["node_dependencies"].as_array_mut()?;
            let v = json!(match rng.below(3) { 0 => i as u64, 1 => i as u64 + 1, _ => u64::MAX });
            if deps.is_empty() { deps.push(v); } else { let k = rng.below(deps.len() as u64) as usize; deps[k] = v; }
            Some("dangling-node-dependency")
        }
        11 => {
            let g = pick_graph(rng)?;
            let nodes = inner["graphs"][g]["nodes"].as_array_mut()?;
            if nodes.is_empty() { return None; }
            let i = rng.below(nodes.len() as u64) as usize;
            let deps = nodes[i]["graph_dependencies"].as_array_mut()?;
            let v = json!(match rng.below(3) { 0 => g as u64, 1 => ng, _ => u64::MAX });
            if deps.is_empty() { deps.push(v); } else { deps[0] = v; }
            Some("bad-graph-dependency")
        }
        12 => {
            // swap two nodes
            let g = pick_graph(rng)?;
            let nodes = inner["graphs"][g]["nodes"].as_array_mut()?;
            if nodes.len() < 2 { return None; }
            let i = rng.below(nodes.len() as u64 - 1) as usize;
            nodes.swap(i, i + 1);
            Some("swapped-nodes")
        }
        13 => {
            // swap the two dependency ids of a node
            let g = pick_graph(rng)?;
            let nodes = inner["graphs"][g]["nodes"].as_array_mut()?;
            let c: Vec<usize> = (0..nodes.len()).filter(|i| nodes[*i]["node_dependencies"].as_array().map_or(false, |d| d.len() >= 2 && d[0] != d[1])).collect();
            if c.is_empty() { return None; }
            let i = c[rng.below(c.len() as u64) as usize];
            nodes[i]["node_dependencies"].as_array_mut()?.swap(0, 1);
            Some("swapped-dependency-ids")
        }
        14 => {
            if ng < 2 { return None; }
            let a = inner["graphs"].as_array_mut()?;
            let i = rng.below(ng - 1) as usize;
            a.swap(i, i + 1);
            Some("swapped-graphs")
        }
        15 => {
            // duplicate a name entry (same key or same name under another key)
            let t = *rng.pick(&["graphs_names", "nodes_names"]);
            let a = inner[t].as_array_mut()?;
            if a.is_empty() { return None; }
            let mut e = a[rng.below(a.len() as u64) as usize].clone();
            if rng.chance(1, 2) {
                if t == "graphs_names" { e[0] = json!(e[0].as_u64().unwrap_or(0).wrapping_add(1) % ng.max(1)); } else { e[0][1] = json!(e[0][1].as_u64().unwrap_or(0) ^ 1); }
            }
            a.push(e);
            Some("duplicate-name")
        }
        16 => {
            let g = pick_graph(rng)?;
            let f = inner["graphs"][g]["finalized"].as_bool()?;
            inner["graphs"][g]["finalized"] = json!(!f);
            Some("flipped-graph-finalized")
        }
        17 => {
            let f = inner["finalized"].as_bool()?;
            inner["finalized"] = json!(!f);
            if rng.chance(1, 2) { inner["main_graph"] = J::Null; }
            Some("flipped-context-finalized")
        }
        18 => {
            let g = pick_graph(rng)?;
            inner["graphs"][g]["output_node"] = J::Null;
            Some("removed-output")
        }
        19 => {
            // replace an operation by another one of the payload (type errors on replay)
            let g = pick_graph(rng)?;
            let nodes = inner["graphs"][g]["nodes"].as_array_mut()?;
            if nodes.len() < 2 { return None; }
            let i = rng.below(nodes.len() as u64) as usize;
            let j = rng.below(nodes.len() as u64) as usize;
            let o = nodes[j]["operation"].clone();
            nodes[i]["operation"] = o;
            Some("replaced-operation")
        }
        20 => {
            let g = pick_graph(rng)?;
            let nodes = inner["graphs"][g]["nodes"].as_array_mut()?;
            if nodes.is_empty() { return None; }
            let i = rng.below(nodes.len() as u64) as usize;
            nodes[i]["operation"] = match rng.below(3) { 0 => json!("NoSuchOperation"), 1 => json!({"Custom": {"body": {"type": "NoSuchCustomOp"}}}), _ => json!({"Input": 5}) };
            Some("unknown-operation")
        }
        _ => {
            // annotate the same key twice / empty annotation list
            let a = inner["nodes_annotations"].as_array_mut()?;
            if a.is_empty() { return None; }
            let e = a[rng.below(a.len() as u64) as usize].clone();
            a.push(e);
            Some("duplicate-annotation-key")
        }
    }
}

fn mutants(text: &str, kind: &str, nmut: usize, rng: &mut Rng, tags: &mut Tags, out: &mut Out, model: bool) {
    let (ver0, inner0) = split_envelope(text);
    let pool = lst(&POOL, |s| coq_string(s));
    for _ in 0..nmut {
        let (mut ver, mut inner) = (ver0, inner0.clone());
        let mut names = vec![];
        for _ in 0..(1 + rng.below(2)) {
            if let Some(m) = mutate(&mut ver, &mut inner, rng) {
                names.push(m);
            }
        }
        if names.is_empty() {
            continue;
        }
        let mname = names.join("+");
        let mtext = envelope(ver, &inner);
        let input = json!({"base": kind, "mutation": mname, "text": if mtext.len() < 3000 { mtext.clone() } else { format!("{}...", &mtext[..3000]) }});
        let r = deserialize(&mtext);
        out.stat(&format!("mutant:{}:{}", names[0], match &r { De::Ok(_) => "Ok", De::Err => "Err", De::Panic => "Panic" }));
        let rhs = match &r {
            De::Panic => {
                out.violation("deserialize-panics", input.clone(), format!("from_str panics on a structural mutant ({})", mname));
                "Panic".to_string()
            }
            De::Err => {
                out.oracle_ok();
                "Err".to_string()
            }
            De::Ok(c) => {
                match check_invariants(c, &HashSet::new()) {
                    Ok(()) => out.oracle_ok(),
                    Err(m) => out.violation("deserialize-ill-formed", input.clone(), format!("{}: {}", mname, m)),
                }
                format!("(Ok {})", observe_ctx(c, tags, &HashSet::new(), &POOL).full())
            }
        };
        if model {
            if let Ok(p) = serde_json::from_value::<PCtx>(inner.clone()) {
                if node_count(&p) <= 400 {
                    let x = sctx_term(&p, tags);
                    let tbl = replay_answers(&p, tags);
                    out.case("deser_mutant", format!("(deser_obs {} {} ({}, {}))%N", pool, tbl, ver, x), format!("{}%N", rhs), input.clone(), true);
                }
            } else {
                out.stat("mutant-rejected-by-text-layer");
            }
        }
    }
    // a well-formed payload under any version other than the current one must be refused
    {
        let inner0 = inner0.to_string();
        for v in [0u64, ver0.wrapping_sub(1), ver0 + 1, ver0 + 2, 42, u64::MAX] {
            if v == ver0 { continue; }
            let mtext = json!({"version": v, "data": inner0}).to_string();
            match deserialize(&mtext) {
                De::Panic => out.violation("deserialize-panics", json!({"base": kind, "version": v}), "from_str panics on a wrong version".into()),
                De::Ok(_) => out.violation("deserialize-accepts-wrong-version", json!({"base": kind, "version": v.to_string(), "current": ver0}), "a context serialized under another format version is accepted".into()),
                De::Err => out.oracle_ok(),
            }
        }
    }
    // garbage payloads in a well-formed envelope
    for g in ["{not json", "", "null", "[]", "{}", "{\"finalized\":true}", "\u{0}\u{1}"] {
        let mtext = json!({"version": ver0, "data": g}).to_string();
        match deserialize(&mtext) {
            De::Panic => out.violation("deserialize-panics", json!({"base": kind, "payload": g}), "from_str panics on a garbage payload".into()),
            De::Ok(_) => out.violation("deserialize-accepts-garbage", json!({"base": kind, "payload": g}), "garbage payload accepted".into()),
            De::Err => out.oracle_ok(),
        }
    }
}

fn byte_mutants(text: &str, kind: &str, n: usize, rng: &mut Rng, out: &mut Out) {
    let bytes = text.as_bytes();
    for _ in 0..n {
        let mut v = bytes.to_vec();
        let m = rng.below(5);
        let pos = rng.below(v.len() as u64) as usize;
        match m {
            0 => v.truncate(pos),
            1 => v[pos] = rng.next() as u8,
            2 => { v.remove(pos); }
            3 => v.insert(pos, *rng.pick(&[b'"', b'\\', b'{', b'[', b'9', b',', b'-', 0u8, 0xff])),
            _ => {
                // mutate a digit: ids and versions change
                let digits: Vec<usize> = (0..v.len()).filter(|i| v[*i].is_ascii_digit()).collect();
                if !digits.is_empty() {
                    let p = digits[rng.below(digits.len() as u64) as usize];
                    v[p] = b'0' + rng.below(10) as u8;
                }
            }
        }
        let r = match String::from_utf8(v.clone()) {
            Ok(s) => deserialize(&s),
            Err(_) => match catch_unwind(AssertUnwindSafe(|| serde_json::from_slice::<Context>(&v))) {
                Ok(Ok(c)) => De::Ok(c),
                Ok(Err(_)) => De::Err,
                Err(_) => De::Panic,
            },
        };
        out.stat(&format!("bytes:{}", match &r { De::Ok(_) => "Ok", De::Err => "Err", De::Panic => "Panic" }));
        let input = json!({"base": kind, "mutation": m, "pos": pos});
        match r {
            De::Panic => out.violation("deserialize-panics", input, "from_str panics on a byte-level mutant".into()),
            De::Err => out.oracle_ok(),
            De::Ok(c) => match check_invariants(&c, &HashSet::new()) {
                Ok(()) => out.oracle_ok(),
                Err(msg) => out.violation("deserialize-ill-formed", input, msg),
            },
        }
    }
}

fn custom_op_json(out: &mut Out) {
    let ops: Vec<CustomOperation> = vec![
        CustomOperation::new(Not {}),
        CustomOperation::new(Or {}),
        CustomOperation::new(BinaryAdd { overflow_bit: true }),
        CustomOperation::new(GreaterThan { signed_comparison: true }),
        CustomOperation::new(LessThan { signed_comparison: false }),
        CustomOperation::new(Equal {}),
        CustomOperation::new(NotEqual {}),
        CustomOperation::new(Min { signed_comparison: true }),
        CustomOperation::new(Max { signed_comparison: false }),
        CustomOperation::new(Mux {}),
        CustomOperation::new(Clip2K { k: 7 }),
    ];
    for op in ops {
        let s = serde_json::to_string(&op).unwrap();
        match catch_unwind(AssertUnwindSafe(|| serde_json::from_str::<CustomOperation>(&s))) {
            Ok(Ok(op2)) if op2 == op => out.oracle_ok(),
            _ => out.violation("roundtrip-fails-custom-op", json!({"json": s}), "a custom operation does not survive its own serde form".into()),
        }
    }
    // mpc_truncate.rs:28 TruncateMPC { scale: u128 } is crate-private; its serde form is what a
    // compiled-but-not-instantiated context contains
    for s in [r#"{"body":{"type":"TruncateMPC","scale":2}}"#, r#"{"body":{"type":"TruncateMPC","scale":340282366920938463463374607431768211455}}"#] {
    match catch_unwind(AssertUnwindSafe(|| serde_json::from_str::<CustomOperation>(s))) {
        Ok(Ok(op)) => {
            out.stat("TruncateMPC-json:Ok");
            if serde_json::to_string(&op).unwrap() == s { out.oracle_ok() } else { out.violation("roundtrip-fails-TruncateMPC-u128", json!({"json": s}), "serde form changes".into()) }
        }
        Ok(Err(e)) => out.violation("roundtrip-fails-TruncateMPC-u128", json!({"json": s}), format!("from_str::<CustomOperation> of the serde form of TruncateMPC: {}", e)),
        Err(_) => out.violation("deserialize-panics", json!({"json": s}), "panic".into()),
    }
    }
}

pub fn run(tier: &str, seed: u64, out: &mut Out) {
    if std::env::var("C12_DEBUG").is_ok() { std::panic::set_hook(Box::new(|i| eprintln!("PANIC {}", i))); }
    let mut rng = Rng::new(seed ^ 0xC12);
    let mut tags = Tags::new();
    let (rounds, nmut, nbytes, nhist) = match tier { "thorough" => (3, 24, 150, 100), "search" => (10, 80, 400, 300), _ => (1, 9, 30, 24) };
    let with_model = tier != "search";
    custom_op_json(out);
    for round in 0..rounds {
        let mut kinds: Vec<(String, R<Context>)> = vec![];
        kinds.push(("plain-unfinalized".into(), plain_context(&mut rng, false)));
        kinds.push(("plain".into(), plain_context(&mut rng, true)));
        let callc = call_context(&mut rng);
        kinds.push(("call-iterate".into(), callc.clone()));
        let cust = custom_context(&mut rng);
        kinds.push(("custom-ops".into(), cust.clone()));
        if let Ok(c) = &cust {
            kinds.push(("instantiated".into(), run_instantiation_pass(c.clone()).map(|m| m.get_context())));
        }
        if let Ok(c) = &callc {
            for (nm, mode) in [("inlined-noop", InlineMode::Noop), ("inlined-simple", InlineMode::Simple), ("inlined-depth", InlineMode::DepthOptimized(DepthOptimizationLevel::Default))] {
                let cfg = InlineConfig { default_mode: mode, ..Default::default() };
                kinds.push((nm.into(), inline_operations(c, cfg).map(|m| m.get_context())));
            }
        }
        for with_bits in [false, true] {
            let ar = arith_context(&mut rng, with_bits);
            if let Ok(c) = &ar {
                let comp = compiled(c, &mut rng);
                if let Ok(cc) = &comp {
                    kinds.push((format!("optimised{}", if with_bits { "-a2b" } else { "" }), SimpleEvaluator::new(None).and_then(|e| optimize_context(cc, e)).map(|m| m.get_context())));
                }
                kinds.push((format!("compiled{}", if with_bits { "-a2b" } else { "" }), comp));
            }
        }
        for (kind, r) in kinds {
            match r {
                Err(e) => {
                    out.stat(&format!("build-failed:{}", kind));
                    out.note(&format!("build-failed:{}", kind), json!(e.to_string()));
                }
                Ok(ctx) => {
                    let nodes: u64 = ctx.get_graphs().iter().map(|g| g.get_num_nodes()).sum();
                    out.stat(&format!("nodes:{}", match nodes { 0..=19 => "0-19", 20..=99 => "20-99", 100..=999 => "100-999", _ => "1000+" }));
                    // the model cases carry the whole payload as a term: bounded sizes
                    let model = with_model && nodes <= 400;
                    if let Some(text) = roundtrip(&ctx, &kind, &mut rng, &mut tags, out, model, None) {
                        mutants(&text, &kind, if nodes <= 100 { nmut } else { nmut / 4 }, &mut rng, &mut tags, out, with_model && nodes <= 150);
                        byte_mutants(&text, &kind, if text.len() < 100_000 { nbytes } else { nbytes / 5 }, &mut rng, out);
                    }
                }
            }
        }
    }
    // contexts from random API histories (several graphs, names, annotations, unfinalized parts)
    for hi in 0..nhist {
        let ncalls = 10 + rng.below(60) as usize;
        let (ctxs, calls) = random_history(&mut rng, ncalls, 1, hi % 2 == 0, &mut tags, out, "h:");
        if let Some(text) = roundtrip(&ctxs[0], "history", &mut rng, &mut tags, out, with_model, Some(&calls[0])) {
            mutants(&text, "history", if tier == "quick" { 3 } else { 6 }, &mut rng, &mut tags, out, with_model);
            byte_mutants(&text, "history", 10, &mut rng, out);
        }
    }
    out.stat_n("distinct_ops", tags.ops.len() as u64);
    out.stat_n("distinct_types", tags.tys.len() as u64);
}

HOOK_COMMITS = []
NOT_APPLICABLE = {}
CHECKS = {
 "C13": {
  "text": "Coq theorems over the Gallina mirror of bytes.rs/data_values.rs: write-then-read of every integer list for every non-bit scalar type gives x mod 2^w sign-extended (all ten readers), bit arrays of every length pack/unpack with no stray bits, check_type accepts exactly the matching layouts; the mirror is tied to /repo on every run by evaluating it in Coq on the same inputs the Rust code ran on.",
  "design_ref": "DESIGN.md section 5, C13",
  "note": "Trusted: Coq kernel; the correspondence cases (generated, not exhaustive) tie Model/Bytes.v to the Rust code; JSON text layer (serde_json) is tested only. Assumes Rust integer arguments lie in [-2^127, 2^128).",
  "technique": "Coq proof (induction over lists/type trees, lia) + differential correspondence model vs code via vm_compute",
 },
}

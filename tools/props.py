"""Per-property tables used by runner.py."""

TRUSTED_COMMON = [
    "Coq 8.16.1 kernel (coqc, full .vo build, vm_compute; no native_compute, no -type-in-type, no disabled checks)",
    "harness/ (Rust): generators, Gallina printers of observed values, native oracles",
    "tools/runner.py: sharding, parsing of `failing cases` output, verdict logic",
    "the hand-mirrored relation between each coq/Model/*.v definition and the Rust function it cites, checked only by the correspondence cases of this run",
]

# axioms a property's theorems may depend on (Print Assumptions); everything else is a failure
AXIOM_ALLOW = {}

PROPS = {
    "C13": {
        "rule": "cases: 11 scalar types x boundary-heavy integer lists (lengths 1..70, bit arrays of ragged length) "
                "through from_flattened_array and the ten typed readers, raw byte readers on arbitrary bytes, "
                "check_type/zero/one on random type trees; distinct = distinct model expression; "
                "non-trivial = a negative element, an element >= 2^64, a ragged bit array, a mismatched type or a nested type",
        "trusted": ["serde_json text layer (arbitrary_precision) for the JSON form: tested, not modelled"],
        "assumes": ["Rust integer arguments lie in [-2^127, 2^128) (union of i128 and u128)"],
    },
}

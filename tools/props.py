"""Per-property tables used by runner.py: one JSON file per property under tools/props/."""
import json, os, glob
_D = os.path.join(os.path.dirname(os.path.abspath(__file__)), "props")

TRUSTED_COMMON = [
    "Coq 8.16.1 kernel (coqc, full .vo build, vm_compute; no native_compute, no -type-in-type, no disabled checks)",
    "harness/ (Rust): generators, Gallina printers of observed values and exported graphs, native oracles",
    "tools/runner.py: sharding, parsing of `failing cases` output, verdict logic",
    "the hand-mirrored relation between each coq/Model/*.v definition and the Rust function it cites, checked only by the correspondence cases of this run",
]
PROPS = {}
for f in sorted(glob.glob(os.path.join(_D, "C*.json"))):
    PROPS[os.path.basename(f)[:-5]] = json.load(open(f))
AXIOM_ALLOW = {k: v.get("axiom_allow", []) for k, v in PROPS.items()}

#!/usr/bin/env python3
"""register_mutant.py <prop> <id> <what> <needs> : copies /tmp/mut/<prop>/deliver into seeded/<id>/"""
import json, os, shutil, sys
prop, mid, what, needs = sys.argv[1:5]
src = f"/tmp/mut/{prop}/deliver"
dst = f"/verif/seeded/{mid}"
os.makedirs(dst, exist_ok=True)
shutil.copy(f"{src}/patch.diff", dst)
if os.path.exists(f"{src}/NOTES.md"): shutil.copy(f"{src}/NOTES.md", dst)
for name in os.listdir(src):
    p = os.path.join(src, name)
    if os.path.isdir(p) and name.startswith("demo"):
        shutil.copytree(p, os.path.join(dst, name), dirs_exist_ok=True, ignore=shutil.ignore_patterns("target"))
    elif name.startswith("demo") and os.path.isfile(p):
        shutil.copy(p, dst)
json.dump({"id": mid, "properties": [prop], "origin": "independent sub-agent given only the property text and a scratch worktree of /repo", "what": what, "needs_to_manifest": needs, "passes_existing_tests": "yes (452+1+256 passed with the change; run by the sub-agent, log in its notes)", "demonstration": "demo/ : fails with the change, passes without (run by the sub-agent in both directions)", "ran": "tools/seeded.py " + mid}, open(f"{dst}/meta.json", "w"), indent=1)
print("registered", mid)

#!/bin/bash
# Re-checks the compiled property modules with Coq's independent checker and records the axioms
# they rely on (coqchk -o).  Slow (minutes per module): run on demand, not on every check.
# usage: tools/coqchk.sh [C01 C02 ...]   (requires a finished build: ./check --setup)
cd "$(dirname "$0")/../coq" || exit 1
mkdir -p ../coqchk
props=${@:-$(ls Props/C*.v | sed 's#Props/##; s#\.v##')}
for p in $props; do
  /usr/bin/time -f "%es" timeout 3600 coqchk -o -silent -Q . CC CC.Props.$p > ../coqchk/$p.txt 2>&1
  echo "$p rc=$? $(tail -1 ../coqchk/$p.txt)"
done

#!/bin/bash
# Runs every claimed quick check on the unchanged tree with several seeds (no evidence written):
# a check that alarms for some seed on the unchanged tree is a false alarm to be fixed.
# usage: tools/seed_sweep.sh "2 3 4" [props...]
cd "$(dirname "$0")/.."
seeds=${1:-"2 3 4"}; shift
props=${@:-$(python3 -c "import json;print(' '.join(c['property_id'] for c in json.load(open('MANIFEST.json'))['checks']))")}
for s in $seeds; do for p in $props; do
  t0=$(date +%s)
  out=$(VERIF_SEED=$s VERIF_NO_EVIDENCE=1 ./check $p --tier ${TIER:-quick} 2>&1); rc=$?
  echo "seed=$s $p rc=$rc $(( $(date +%s) - t0 ))s $(echo "$out" | grep -c '^VIOLATION') violations"
  if [ $rc -ne 0 ]; then echo "$out" | grep '^VIOLATION' | head -5; fi
done; done

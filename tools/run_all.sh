#!/bin/bash
# runs every claimed check of MANIFEST.json in the given tier (default quick), sequentially
cd "$(dirname "$0")/.."
tier=${1:-quick}
for p in $(python3 -c "import json; print(' '.join(c['property_id'] for c in json.load(open('MANIFEST.json'))['checks']))"); do
  s=$(date +%s)
  ./check $p --tier $tier > .work_$p.log 2>&1; rc=$?
  echo "$p rc=$rc $(( $(date +%s) - s ))s $(grep -c '^VIOLATION' .work_$p.log) violations $(grep -c '^KNOWN-FINDING' .work_$p.log) known"
  rm -f .work_$p.log
done

"""Driver for ./check: builds, runs the ties, decides, writes evidence.  DESIGN.md section 1."""
import json, os, re, shutil, subprocess, sys, time, hashlib
from concurrent.futures import ThreadPoolExecutor

ROOT = os.path.dirname(os.path.dirname(os.path.abspath(__file__)))
COQ = os.path.join(ROOT, "coq")
HARNESS = os.path.join(ROOT, "harness")
# The registered checks always build against /repo.  VERIF_REPO lets the seeded-change runner
# point the same machinery at a scratch worktree without touching /repo.
REPO = os.environ.get("VERIF_REPO", "/repo")
WORKROOT = os.path.join(ROOT, ".work")
EVID = os.path.join(ROOT, "evidence")
REPLAYS = os.path.join(ROOT, "replays")
NCPU = 16
GUARD = "ciphercore_verif"

FORBIDDEN = re.compile(
    r"\bAdmitted\b|\badmit\b|\bAxiom\b|\bAxioms\b|\bParameter\b|\bParameters\b|\bConjecture\b|"
    r"Unset\s+Guard|bypass_check|type-in-type|impredicative-set|Admit\s+Obligations|"
    r"Unset\s+Positivity|Unset\s+Universe\s+Checking|native_compute")

import props as PROPS  # per-property tables


def sh(cmd, cwd=None, env=None, timeout=None):
    e = dict(os.environ)
    e.update({"CARGO_NET_OFFLINE": "true"})
    if env:
        e.update(env)
    t0 = time.time()
    try:
        p = subprocess.run(cmd, cwd=cwd, env=e, shell=isinstance(cmd, str), stdout=subprocess.PIPE,
                           stderr=subprocess.STDOUT, timeout=timeout, text=True, errors="replace")
        return p.returncode, p.stdout, time.time() - t0
    except subprocess.TimeoutExpired as ex:
        out = ex.stdout if isinstance(ex.stdout, str) else (ex.stdout or b"").decode(errors="replace")
        return 124, out + "\n[timeout]", time.time() - t0


# ------------------------------------------------------------------------------------------ builds
def harness_dir():
    if REPO == "/repo":
        return HARNESS
    alt = os.path.join(WORKROOT, "alt_harness")
    os.makedirs(os.path.join(alt, ".cargo"), exist_ok=True)
    sh(["rsync", "-a", "--delete", os.path.join(HARNESS, "src") + "/", os.path.join(alt, "src") + "/"])
    toml = open(os.path.join(HARNESS, "Cargo.toml")).read().replace("/repo/", REPO.rstrip("/") + "/")
    if not os.path.exists(os.path.join(alt, "Cargo.toml")) or open(os.path.join(alt, "Cargo.toml")).read() != toml:
        open(os.path.join(alt, "Cargo.toml"), "w").write(toml)
    shutil.copy(os.path.join(HARNESS, "Cargo.lock"), os.path.join(alt, "Cargo.lock"))
    shutil.copy(os.path.join(HARNESS, ".cargo", "config.toml"), os.path.join(alt, ".cargo", "config.toml"))
    return alt


def build_harness(release=False):
    cmd = ["cargo", "build", "--offline"] + (["--release"] if release else [])
    rc, out, dt = sh(cmd, cwd=harness_dir(), env={"RUSTFLAGS": f"--cfg {GUARD}"}, timeout=3000)
    return rc == 0, out, dt


def harness_bin(release=False):
    return os.path.join(harness_dir(), "target", "release" if release else "debug", "ccverif")


def ensure_makefile():
    """_CoqProject lists every .v under coq/{Base,Graph,Model,Proofs,Props}; regenerated when the set changes."""
    files = []
    for sub in ("Base", "Graph", "Model", "Proofs", "Props"):
        for d, _, fs in os.walk(os.path.join(COQ, sub)):
            for f in sorted(fs):
                if f.endswith(".v") and not f.startswith("."):
                    files.append(os.path.relpath(os.path.join(d, f), COQ))
    files.sort()
    content = ("-Q . CC\n-arg -w -arg -deprecated-hint-without-locality,-deprecated-instance-without-locality\n"
               + "\n".join(files) + "\n")
    cp = os.path.join(COQ, "_CoqProject")
    mk = os.path.join(COQ, "Makefile")
    old = open(cp).read() if os.path.exists(cp) else ""
    if old != content or not os.path.exists(mk):
        open(cp, "w").write(content)
        sh(["coq_makefile", "-f", "_CoqProject", "-o", "Makefile"], cwd=COQ)


def build_coq(targets):
    """Full .vo build of the given targets (and everything they depend on)."""
    ensure_makefile()
    rc, out, dt = sh(["make", "-j%d" % NCPU] + targets, cwd=COQ, timeout=3400)
    return rc == 0, out, dt


def forbidden_scan():
    hits = []
    for d, _, fs in os.walk(COQ):
        for f in fs:
            if f.endswith(".v"):
                p = os.path.join(d, f)
                src = open(p, errors="replace").read()
                src_nc = strip_comments(src)
                for m in FORBIDDEN.finditer(src_nc):
                    hits.append(f"{os.path.relpath(p, ROOT)}: {m.group(0)}")
    return hits


def strip_comments(s):
    out, depth, i, n = [], 0, 0, len(s)
    instr = False
    while i < n:
        if depth == 0 and s[i] == '"':
            instr = not instr
            out.append(s[i]); i += 1; continue
        if not instr and s.startswith("(*", i):
            depth += 1; i += 2; continue
        if not instr and depth > 0 and s.startswith("*)", i):
            depth -= 1; i += 2; continue
        if depth == 0:
            out.append(s[i])
        i += 1
    return "".join(out)


def theorem_names(prop):
    p = os.path.join(COQ, "Props", f"{prop}.v")
    if not os.path.exists(p):
        return []
    src = strip_comments(open(p).read())
    return re.findall(r"^\s*(?:Theorem|Lemma|Corollary)\s+([A-Za-z0-9_']+)", src, re.M)


def check_assumptions(prop, work):
    """Print Assumptions for every theorem of Props/<prop>.v, compared with the allow-list."""
    names = theorem_names(prop)
    if not names:
        return False, {}, "no theorems found in Props/%s.v" % prop
    f = os.path.join(work, "assum.v")
    with open(f, "w") as w:
        w.write(f"From CC Require Import Props.{prop}.\n")
        for n in names:
            w.write(f'Goal True. idtac "@@@ {n}". exact I. Qed.\nPrint Assumptions {n}.\n')
    rc, out, _ = sh(["coqc", "-noglob", "-Q", COQ, "CC", f], cwd=work, timeout=600)
    if rc != 0:
        return False, {}, out[-2000:]
    res = {}
    allow = set(PROPS.AXIOM_ALLOW.get(prop, []))
    bad = []
    blocks = out.split("@@@ ")[1:]
    for b in blocks:
        lines = b.strip().splitlines()
        name = lines[0].strip()
        body = "\n".join(lines[1:])
        if "Closed under the global context" in body:
            res[name] = []
        else:
            axs = re.findall(r"^([A-Za-z0-9_.']+)\s*:", body, re.M)
            res[name] = axs
            for a in axs:
                if a not in allow:
                    bad.append(f"{name} depends on {a}")
    if set(res) != set(names):
        return False, res, "Print Assumptions output incomplete"
    if bad:
        return False, res, "; ".join(bad)
    return True, res, ""


# ------------------------------------------------------------------------------------------ cases
def read_jsonl(path):
    cases, viols, notes, summary = [], [], {}, None
    with open(path) as f:
        for line in f:
            line = line.strip()
            if not line:
                continue
            r = json.loads(line)
            t = r.get("t")
            if t == "case":
                cases.append(r)
            elif t == "violation":
                viols.append(r)
            elif t == "note":
                notes[r["key"]] = r["value"]
            elif t == "summary":
                summary = r
    return cases, viols, notes, summary


def shard_cases(cases, nshards):
    shards = [[] for _ in range(nshards)]
    sizes = [0] * nshards
    for c in sorted(cases, key=lambda c: -(len(c["lhs"]) + len(c["rhs"]) + len(c.get("vernac", "")))):
        i = sizes.index(min(sizes))
        shards[i].append(c)
        sizes[i] += len(c["lhs"]) + len(c["rhs"]) + len(c.get("vernac", "")) + 50
    return [s for s in shards if s]


def write_cases_v(path, header, shard):
    """Boolean cases become one `failing cases` evaluation; `vernac` cases are generated proof
    obligations (complete Section/Goal/Qed text) that must compile: a failing one fails the file
    and is then isolated by the per-case re-run."""
    with open(path, "w") as w:
        w.write(header + "\n")
        for c in shard:
            if c.get("vernac"):
                w.write(f"(* obligation {c['id']} *)\n{c['vernac']}\n")
        boolean = [c for c in shard if not c.get("vernac")]
        w.write("Definition cases : list (N * bool) := [\n")
        w.write(";\n".join(f" ({c['id']}%N, eqb ({c['lhs']}) ({c['rhs']}))" for c in boolean))
        w.write("\n].\nEval vm_compute in (failing cases).\n")


def run_shard(args):
    work, idx, header, shard, timeout = args
    f = os.path.join(work, f"cases_{idx}.v")
    write_cases_v(f, header, shard)
    # large exported terms (thousands of nodes) overflow coqc's default stack while parsing
    rc, out, dt = sh(f"ulimit -s unlimited 2>/dev/null || ulimit -s 1000000 2>/dev/null; exec coqc -noglob -Q {COQ} CC {f}",
                     cwd=work, timeout=timeout)
    ids = [c["id"] for c in shard]
    if rc != 0 or ": list N" not in out:
        # find which case breaks compilation: bisect lazily by single-case files (bounded)
        return {"ok": False, "ids": ids, "failing": None, "log": out[-3000:], "dt": dt}
    # `= [3%N; 17%N] : list N`; with N_scope open the numerals print bare, so take every integer
    # between the last "=" and the type annotation
    body = out[out.rfind("="):]
    body = body[:body.rfind(": list N")]
    failing = [int(x) for x in re.findall(r"(\d+)", body)]
    return {"ok": True, "ids": ids, "failing": failing, "log": "", "dt": dt}


def show_case(work, header, c, tag):
    if c.get("vernac"):
        return c.get("rhs", "")
    f = os.path.join(work, f"show_{tag}.v")
    with open(f, "w") as w:
        w.write(header + "\n")
        w.write(f"Eval vm_compute in ({c['lhs']}).\n")
    rc, out, _ = sh(["coqc", "-noglob", "-Q", COQ, "CC", f], cwd=work, timeout=300)
    return out.strip()[-4000:]


def coq_check_cases(work, header, cases, timeout):
    if not cases:
        return [], [], 0.0
    nsh = min(NCPU, max(1, len(cases) // 8))
    shards = shard_cases(cases, nsh)
    t0 = time.time()
    with ThreadPoolExecutor(max_workers=NCPU) as ex:
        results = list(ex.map(run_shard, [(work, i, header, s, timeout) for i, s in enumerate(shards)]))
    failing, broken = [], []
    byid = {c["id"]: c for c in cases}

    def resolve(sub, log, tag):
        """a shard that did not evaluate (ill-typed or diverging case, or a time-out on a loaded
        machine): split it into smaller shards, and finally run each case on its own, so that one
        bad case does not hide the others and a slow machine does not turn into an alarm"""
        nonlocal failing, broken
        if len(sub) > 64:
            chunks = [sub[i:i + 64] for i in range(0, len(sub), 64)]
            with ThreadPoolExecutor(max_workers=NCPU) as ex:
                rs = list(ex.map(run_shard, [(work, f"{tag}s{j}", header, ch, timeout * 2) for j, ch in enumerate(chunks)]))
            for j, (ch, rr) in enumerate(zip(chunks, rs)):
                if rr["ok"]:
                    failing += rr["failing"]
                else:
                    resolve(ch, rr["log"], f"{tag}s{j}")
            return
        with ThreadPoolExecutor(max_workers=NCPU) as ex:
            rs = list(ex.map(run_shard, [(work, f"iso{c['id']}", header, [c], timeout * 2) for c in sub]))
        for c, rr in zip(sub, rs):
            if rr["ok"]:
                failing += rr["failing"]
            elif c.get("vernac"):
                failing.append(c["id"])          # the generated obligation is not provable
                c["rhs"] = "(obligation does not check) " + rr["log"][-1500:]
            else:
                broken.append((c["id"], rr["log"]))

    for k, r in enumerate(results):
        if r["ok"]:
            failing += r["failing"]
        else:
            resolve([byid[i] for i in r["ids"]], r["log"], f"r{k}")
    return sorted(set(failing)), broken, time.time() - t0


# ------------------------------------------------------------------------------------------ findings
def load_known():
    p = os.path.join(ROOT, "KNOWN_FINDINGS.json")
    if not os.path.exists(p):
        return []
    return json.load(open(p)).get("findings", [])


def is_known(prop, cls, known):
    for k in known:
        if k.get("status") == "open" and k.get("property") == prop and k.get("class") == cls:
            return k
    return None


def write_replay(prop, tier, seed, name, payload):
    os.makedirs(REPLAYS, exist_ok=True)
    h = hashlib.sha1(json.dumps(payload, sort_keys=True, default=str).encode()).hexdigest()[:10]
    p = os.path.join(REPLAYS, f"{prop}_{name}_{h}.json")
    payload = dict(payload)
    payload.update({"property": prop, "tier": tier, "seed": seed})
    with open(p, "w") as w:
        json.dump(payload, w, indent=1, default=str)
    return p


# ------------------------------------------------------------------------------------------ main
def setup():
    os.makedirs(EVID, exist_ok=True)
    ensure_makefile()
    sh(["make", "clean"], cwd=COQ)
    ok, out, dt = build_coq([])
    print(f"[setup] coq full build: {'ok' if ok else 'FAILED'} in {dt:.0f}s")
    if not ok:
        print(out[-3000:])
    ok2, out2, dt2 = build_harness()
    print(f"[setup] harness build: {'ok' if ok2 else 'FAILED'} in {dt2:.0f}s")
    if not ok2:
        print(out2[-3000:])
    return 0 if ok and ok2 else 1


def run_property(prop, tier, seed, replay=None):
    t0 = time.time()
    cfg = PROPS.PROPS[prop]
    work = os.path.join(WORKROOT, prop)
    shutil.rmtree(work, ignore_errors=True)
    os.makedirs(work, exist_ok=True)
    os.makedirs(EVID, exist_ok=True)
    known = load_known()
    violation_lines, known_lines, broken = [], [], []   # broken: list of (what, detail)
    log = lambda s: print(f"[{prop}] {s}", flush=True)

    # 1. harness against /repo's current working tree, hooks on
    okh, outh, dth = build_harness()
    log(f"harness build {'ok' if okh else 'FAILED'} ({dth:.0f}s)")
    if not okh:
        broken.append(("harness-build", "the harness no longer builds against /repo (API of a tied function changed?)\n" + outh[-3000:]))

    # 2. proofs
    target = [f"Props/{prop}.vo"] + cfg.get("extra_targets", [])
    okc, outc, dtc = build_coq(target)
    log(f"coq build of {' '.join(target)} {'ok' if okc else 'FAILED'} ({dtc:.0f}s)")
    thms = theorem_names(prop)
    if not okc:
        broken.append(("proof-build", outc[-3000:]))
    hits = forbidden_scan()
    if hits:
        broken.append(("forbidden-construct", "; ".join(hits[:20])))
    assum = {}
    if okc:
        oka, assum, msg = check_assumptions(prop, work)
        log(f"Print Assumptions on {len(thms)} theorems: {'ok' if oka else 'FAILED ' + msg}")
        if not oka:
            broken.append(("assumptions", msg))

    # 3. ties
    cases, viols, notes, summary = [], [], {}, None
    failing, broken_cases, dtcases = [], [], 0.0
    if okh:
        outfile = os.path.join(work, "harness.jsonl")
        rc, outr, dtr = sh([harness_bin(), prop, tier, str(seed), outfile], cwd=work,
                           timeout=cfg.get("harness_timeout", 3000))
        log(f"harness run rc={rc} ({dtr:.0f}s)")
        if rc != 0 or not os.path.exists(outfile):
            broken.append(("harness-run", outr[-3000:]))
        else:
            cases, viols, notes, summary = read_jsonl(outfile)
            if summary is None:
                broken.append(("harness-run", "harness did not finish (crash?)\n" + outr[-2000:]))
            header = notes.get("header", "From CC Require Import Base.Prelude.")
            # the modules the case files import (they need not be dependencies of Props/<id>.vo)
            mods = []
            for line in header.replace("\r", "").split("\n"):
                line = line.strip()
                if line.startswith("From CC Require Import") or line.startswith("From CC Require Export"):
                    mods += line[len("From CC Require Import"):].rstrip(".").split()
            tie_targets = [x.replace(".", "/") + ".vo" for x in mods if os.path.exists(os.path.join(COQ, x.replace(".", "/") + ".v"))]
            if tie_targets:
                okt, outt, dtt = build_coq(tie_targets)
                if not okt:
                    broken.append(("model-build", outt[-3000:]))
            if okc or cfg.get("ties_without_proofs", True):
                failing, broken_cases, dtcases = coq_check_cases(work, header, cases, cfg.get("case_timeout", 1200))
                log(f"{len(cases)} cases evaluated in Coq ({dtcases:.0f}s): {len(failing)} disagree, {len(broken_cases)} unchecked")
    byid = {c["id"]: c for c in cases}

    # 4. decide
    oracle_found = []
    for v in viols:
        k = is_known(prop, v["class"], known)
        if k:
            known_lines.append(f"KNOWN-FINDING: property={prop} {k.get('what', v['class'])}")
        else:
            oracle_found.append(v)
    shown = {}
    for i in failing[:5]:
        shown[i] = show_case(work, notes.get("header", ""), byid[i], i)
    if failing:
        broken.append(("correspondence", f"{len(failing)} case(s) where model and /repo differ; kinds: " +
                       ", ".join(sorted({byid[i]['kind'] for i in failing}))))
    if broken_cases:
        broken.append(("correspondence-unchecked", f"{len(broken_cases)} case(s) could not be evaluated in Coq: " +
                       broken_cases[0][1][-800:]))

    nviol = 0
    if oracle_found:
        # a concrete failing input of the property itself, observed on the real code
        bycls = {}
        for v in oracle_found:
            bycls.setdefault(v["class"], []).append(v)
        for cls, vs in bycls.items():
            p = write_replay(prop, tier, seed, re.sub(r"[^A-Za-z0-9]+", "-", cls),
                             {"kind": "failing-input", "class": cls, "count": len(vs), "first": vs[0],
                              "broken": [b[0] for b in broken],
                              "how_to_replay": f"./check {prop} --tier {tier}  with VERIF_SEED={seed}"})
            violation_lines.append(f"VIOLATION property={prop} replay={p}")
            nviol += len(vs)
    elif broken:
        # proof obligation or tie broken, no failing input yet: search with a larger budget
        found = None
        if okh and tier != "search" and cfg.get("search", True):
            outfile2 = os.path.join(work, "search.jsonl")
            rc, outr, dtr = sh([harness_bin(), prop, "search", str(seed + 1), outfile2], cwd=work,
                               timeout=cfg.get("search_timeout", 900))
            if rc == 0 and os.path.exists(outfile2):
                _, v2, _, _ = read_jsonl(outfile2)
                v2 = [v for v in v2 if not is_known(prop, v["class"], known)]
                if v2:
                    found = v2[0]
            log(f"search for a failing input: {'found' if found else 'none found'} ({dtr:.0f}s)")
        payload = {"kind": "broken-obligation", "broken": [{"what": b[0], "detail": b[1]} for b in broken],
                   "theorems": thms,
                   "disagreeing_cases": [{"case": {k: (byid[i].get(k, "") if len(str(byid[i].get(k, ""))) < 4000 else str(byid[i].get(k, ""))[:4000] + '...') for k in ("id", "kind", "lhs", "rhs", "vernac", "input")},
                                          "model_value": shown.get(i)} for i in failing[:5]]}
        if found:
            payload["failing_input"] = found
            p = write_replay(prop, tier, seed, "failing-input", payload)
            violation_lines.append(f"VIOLATION property={prop} replay={p}")
        else:
            p = write_replay(prop, tier, seed, "broken", payload)
            violation_lines.append(f"VIOLATION property={prop} replay={p} no-failing-input-found")
        nviol += 1

    # 5. evidence
    n_t = sum(1 for c in cases if c["kind"].startswith("T:"))
    n_t_ok = sum(1 for c in cases if c["kind"].startswith("T:") and c["id"] not in failing
                 and c["id"] not in {b[0] for b in broken_cases})
    obligations = len(thms) + n_t
    discharged = (len(thms) if (okc and not any(b[0] in ("assumptions", "forbidden-construct") for b in broken)) else 0) + n_t_ok
    stats = (summary or {}).get("stats", {})
    ev = {
        "property_id": prop, "tier": tier if tier in ("quick", "thorough") else "quick", "seed": seed,
        "level": "proof",
        "coverage": {
            "obligations": obligations, "discharged": discharged,
            "checker_cmd": f"make -C coq -j{NCPU} {' '.join(target)} ; coqc -Q coq CC .work/{prop}/assum.v ; coqc -Q coq CC .work/{prop}/cases_*.v",
            "trusted_base": PROPS.TRUSTED_COMMON + cfg.get("trusted", []),
            "theorems": thms,
            "print_assumptions": {k: (v if v else "Closed under the global context") for k, v in assum.items()},
            "translation_obligations_checked_on_exported_terms": n_t,
            "evaluations": len(cases),
            "traces_validated_against_impl": max(0, len(cases) - n_t - len(failing) - len(broken_cases)),
            "distinct_nontrivial": (summary or {}).get("distinct_nontrivial", 0),
            "rule": cfg.get("rule", ""),
            "samples": (summary or {}).get("samples", [])[:12],
            "input_distribution": stats,
            "correspondence_disagreements": len(failing),
            "correspondence_unchecked": len(broken_cases),
            "oracle_checks": stats.get("oracle_checks", 0),
            "oracle_violations": len(viols),
            "known_findings_matched": len(known_lines),
            "exhaustive": bool(cfg.get("exhaustive", False)),
            "timing_s": {"harness_build": round(dth, 1), "coq_build": round(dtc, 1), "cases_in_coq": round(dtcases, 1)},
        },
        "assumptions": cfg.get("assumes", []),
        "wall_s": round(time.time() - t0, 2),
        "violations": nviol,
    }
    if not os.environ.get("VERIF_NO_EVIDENCE"):      # seeded-change runs must not overwrite evidence
        with open(os.path.join(EVID, f"{prop}.json"), "w") as w:
            json.dump(ev, w, indent=1)
    for l in sorted(set(known_lines)):
        print(l)
    for l in violation_lines:
        print(l)
    log(f"done in {time.time()-t0:.0f}s: obligations {discharged}/{obligations}, cases {len(cases)}, violations {nviol}")
    if not os.environ.get("VERIF_KEEP_WORK"):
        shutil.rmtree(work, ignore_errors=True)
    return 1 if violation_lines else 0


def main(argv):
    if not argv or argv[0] in ("-h", "--help"):
        print(__doc__ if __doc__ else "usage: ./check Cxx [--tier quick|thorough] | --setup")
        return 2
    if argv[0] == "--setup":
        return setup()
    prop = argv[0]
    tier = os.environ.get("VERIF_TIER", "quick")
    replay = None
    i = 1
    while i < len(argv):
        if argv[i] == "--tier":
            tier = argv[i + 1]; i += 2
        elif argv[i] == "--replay":
            replay = argv[i + 1]; i += 2
        else:
            i += 1
    seed = int(os.environ.get("VERIF_SEED", "20260923") or 0)
    if prop not in PROPS.PROPS:
        print(f"unknown property {prop}")
        return 2
    if replay:
        r = json.load(open(replay))
        seed, tier = r.get("seed", seed), r.get("tier", tier)
        print(f"[{prop}] replaying {replay}: seed={seed} tier={tier}; recorded: {json.dumps(r.get('first') or r.get('failing_input') or r.get('broken'), default=str)[:1500]}")
    return run_property(prop, tier, seed, replay)

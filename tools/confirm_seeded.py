#!/usr/bin/env python3
"""Confirms a seeded change in a scratch worktree of /repo (never /repo itself): the change applies
and compiles, the repository's whole test suite still passes with it, and the demonstration
(seeded/<id>/demo, a stand-alone crate using the worktree's ciphercore-base by path) passes
without the change and fails with it.  Writes seeded/<id>/confirmed.json.
Usage: tools/confirm_seeded.py <id> ...   (scratch: /tmp/confirm, removed at the end)"""
import json, os, shutil, subprocess, sys, time
ROOT = os.path.dirname(os.path.dirname(os.path.abspath(__file__)))
SEEDED = os.path.join(ROOT, "seeded")
WT = "/tmp/confirm"
ENV = dict(os.environ, CARGO_NET_OFFLINE="true")


def sh(cmd, cwd, env=None, timeout=7200):
    t0 = time.time()
    try:
        p = subprocess.run(cmd, cwd=cwd, env=env or ENV, capture_output=True, text=True, timeout=timeout)
        return p.returncode, (p.stdout + p.stderr), round(time.time() - t0)
    except subprocess.TimeoutExpired:
        return 124, "timeout", round(time.time() - t0)


def main(ids):
    head = subprocess.run(["git", "-C", "/repo", "rev-parse", "HEAD"], capture_output=True, text=True).stdout.strip()
    if not os.path.isdir(WT):
        subprocess.run(["git", "-C", "/repo", "worktree", "add", "--detach", WT, head], capture_output=True)
    for i in ids:
        d = os.path.join(SEEDED, i)
        subprocess.run(["git", "-C", WT, "checkout", "--detach", head], capture_output=True)
        subprocess.run(["git", "-C", WT, "checkout", "--", "."], capture_output=True)
        shutil.rmtree(os.path.join(WT, "deliver"), ignore_errors=True)
        res = {"id": i, "repo_head": head}
        demo = os.path.join(d, "demo")
        demo_rs = os.path.join(d, "demo.rs")
        has_demo = os.path.isdir(demo) or os.path.exists(demo_rs)
        denv = dict(ENV, CARGO_TARGET_DIR="/tmp/confirm_target_demo")
        tdir = os.path.join(WT, "ciphercore-base", "tests")
        if os.path.isdir(demo):
            shutil.copytree(demo, os.path.join(WT, "deliver", "demo"), ignore=shutil.ignore_patterns("target"))
            # the demonstrations refer to the worktree's crates by relative paths of varying depth
            ct = os.path.join(WT, "deliver", "demo", "Cargo.toml")
            txt = open(ct).read()
            import re
            txt = re.sub(r'path\s*=\s*"[^"]*ciphercore-(base|utils)"', lambda m: 'path = "%s/ciphercore-%s"' % (WT, m.group(1)), txt)
            txt = re.sub(r'/tmp/mut/[A-Za-z0-9]+/', WT + '/', txt)
            open(ct, "w").write(txt)
            demo_cmd, demo_cwd = ["cargo", "run", "--offline", "-j", "8"], os.path.join(WT, "deliver", "demo")
            if not os.path.exists(os.path.join(demo, "src", "main.rs")):
                demo_cmd = ["cargo", "test", "--offline", "-j", "8"]   # a test-only demonstration crate
        elif has_demo:
            # an integration-test file: run it as ciphercore-base/tests/seeded_demo.rs
            os.makedirs(tdir, exist_ok=True)
            shutil.copy(demo_rs, os.path.join(tdir, "seeded_demo.rs"))
            demo_cmd, demo_cwd = ["cargo", "test", "--offline", "-j", "8", "-p", "ciphercore-base", "--test", "seeded_demo"], WT
        if has_demo:
            rc, out, dt = sh(demo_cmd, demo_cwd, denv)
            res["demo_without_change"] = {"exit": rc, "wall_s": dt, "tail": out[-600:]}
            if os.path.exists(os.path.join(tdir, "seeded_demo.rs")):
                os.remove(os.path.join(tdir, "seeded_demo.rs"))
        a = subprocess.run(["git", "-C", WT, "apply", os.path.join(d, "patch.diff")], capture_output=True, text=True)
        res["applies"] = a.returncode == 0
        if a.returncode == 0:
            tenv = dict(ENV, CARGO_TARGET_DIR="/tmp/confirm_target")
            rc, out, dt = sh(["cargo", "test", "--workspace", "--no-fail-fast", "--offline", "-j", "12"], WT, tenv)
            oks = [l for l in out.splitlines() if l.startswith("test result:")]
            res["test_suite_with_change"] = {"exit": rc, "wall_s": dt, "result_lines": oks}
            if has_demo:
                if os.path.exists(demo_rs) and not os.path.isdir(demo):
                    os.makedirs(tdir, exist_ok=True)
                    shutil.copy(demo_rs, os.path.join(tdir, "seeded_demo.rs"))
                rc, out, dt = sh(demo_cmd, demo_cwd, denv)
                res["demo_with_change"] = {"exit": rc, "wall_s": dt, "tail": out[-600:]}
                shutil.rmtree(tdir, ignore_errors=True) if not os.path.exists(os.path.join(d, "keep_tests_dir")) and os.path.exists(os.path.join(tdir, "seeded_demo.rs")) and len(os.listdir(tdir)) == 1 else None
        subprocess.run(["git", "-C", WT, "checkout", "--", "."], capture_output=True)
        shutil.rmtree(os.path.join(WT, "deliver"), ignore_errors=True)
        res["confirmed"] = bool(res.get("applies") and res.get("test_suite_with_change", {}).get("exit") == 0
                                and (not has_demo or (res["demo_without_change"]["exit"] == 0 and res["demo_with_change"]["exit"] != 0)))
        json.dump(res, open(os.path.join(d, "confirmed.json"), "w"), indent=1)
        print(i, "confirmed" if res["confirmed"] else "NOT CONFIRMED", {k: (v.get("exit") if isinstance(v, dict) else v) for k, v in res.items() if k not in ("id", "repo_head")}, flush=True)
    subprocess.run(["git", "-C", "/repo", "worktree", "remove", "--force", WT], capture_output=True)
    shutil.rmtree("/tmp/confirm_target", ignore_errors=True)
    shutil.rmtree("/tmp/confirm_target_demo", ignore_errors=True)


if __name__ == "__main__":
    main(sys.argv[1:])

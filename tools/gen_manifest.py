#!/usr/bin/env python3
"""Regenerates MANIFEST.json from tools/manifest_entries.py (claimed checks) and properties.jsonl."""
import json, os, sys
ROOT = os.path.dirname(os.path.dirname(os.path.abspath(__file__)))
sys.path.insert(0, os.path.join(ROOT, "tools"))
import props as P
class M: pass
M.CHECKS={k:v['manifest'] for k,v in P.PROPS.items() if v.get('claimed')}
M.NOT_APPLICABLE={k:v['not_applicable'] for k,v in P.PROPS.items() if v.get('not_applicable')}
M.HOOK_COMMITS=json.load(open(os.path.join(ROOT,'tools','hooks.json')))['source_commits']
ids = [json.loads(l)["id"] for l in open(os.path.join(ROOT, "properties.jsonl")) if l.strip()]
checks = []
for pid in ids:
    if pid in M.CHECKS:
        e = M.CHECKS[pid]
        checks.append({
            "property_id": pid,
            "quick_cmd": f"./check {pid} --tier quick",
            "thorough_cmd": f"./check {pid} --tier thorough",
            "evidence_file": f"evidence/{pid}.json",
            "replay_cmd_template": f"./check {pid} --replay {{path}}",
            "engine": "coq-dev+ccverif",
            "level_claimed": {"category": "proof", "text": e["text"], "design_ref": e["design_ref"]},
            "level_note": e["note"],
            "technique": e["technique"],
        })
na = [{"property_id": pid, "reason": M.NOT_APPLICABLE.get(pid, "not claimed yet: check under construction in this development (see DESIGN.md section 9 build order)")}
      for pid in ids if pid not in M.CHECKS]
man = {
    "version": 1,
    "setup_cmd": "./check --setup",
    "hooks": {"guard": "ciphercore_verif", "enable": "RUSTFLAGS=\"--cfg ciphercore_verif\" (set by ./check when it builds harness/ against /repo)",
              "baseline_off_cmd": "cd /repo && cargo test --workspace --no-fail-fast --offline",
              "source_commits": M.HOOK_COMMITS, "add_only": True},
    "engines": [
        {"name": "coq-dev", "path": "coq/", "serves_properties": sorted(M.CHECKS), "kind_free_text": "Coq 8.16.1 development: Gallina models (Model/), proofs (Proofs/), property theorems (Props/)"},
        {"name": "ccverif", "path": "harness/", "serves_properties": sorted(M.CHECKS), "kind_free_text": "Rust harness running /repo's code on generated inputs and exporting observations and graphs as Gallina terms"},
        {"name": "runner", "path": "tools/runner.py", "serves_properties": sorted(M.CHECKS), "kind_free_text": "build, Print Assumptions allow-list, sharded coqc evaluation of correspondence cases, verdicts, evidence"},
    ],
    "checks": checks,
    "not_applicable": na,
    "notes": "Technique: machine-checked proof in Coq 8.16.1; every check = theorems over a Gallina model + a per-run tie of the model to /repo (see DESIGN.md).",
}
json.dump(man, open(os.path.join(ROOT, "MANIFEST.json"), "w"), indent=1)
print("wrote MANIFEST.json:", len(checks), "checks,", len(na), "not claimed")

#!/usr/bin/env python3
"""Runs the registered checks against each seeded change under /verif/seeded/<id>/ (apply patch to
/repo, run ./check <prop> --tier quick for each property it breaks, undo) and records the outcome
in seeded/<id>/result.json.  Usage: tools/seeded.py [id ...]"""
import json, os, subprocess, sys, time
ROOT = os.path.dirname(os.path.dirname(os.path.abspath(__file__)))
SEEDED = os.path.join(ROOT, "seeded")
ids = sys.argv[1:] or sorted(os.listdir(SEEDED))
for i in ids:
    d = os.path.join(SEEDED, i)
    if not os.path.isdir(d) or not os.path.exists(os.path.join(d, "patch.diff")):
        continue
    meta = json.load(open(os.path.join(d, "meta.json")))
    # a scratch worktree of /repo's HEAD: /repo itself is never touched
    SR = "/tmp/seedrepo"
    if not os.path.isdir(SR):
        subprocess.run(["git", "-C", "/repo", "worktree", "add", "--detach", SR, "HEAD"], capture_output=True)
    subprocess.run(["git", "-C", SR, "checkout", "--detach", subprocess.run(["git", "-C", "/repo", "rev-parse", "HEAD"], capture_output=True, text=True).stdout.strip()], capture_output=True)
    subprocess.run(["git", "-C", SR, "checkout", "--", "."], capture_output=True)
    a = subprocess.run(["git", "-C", SR, "apply", os.path.join(d, "patch.diff")], capture_output=True, text=True)
    if a.returncode != 0:
        print(i, "patch does not apply:", a.stderr[:300]); continue
    res = {"id": i, "checks": []}
    try:
        for prop in meta.get("properties", []):
            t0 = time.time()
            env = dict(os.environ); env["VERIF_REPO"] = SR; env["VERIF_NO_EVIDENCE"] = "1"
            p = subprocess.run([os.path.join(ROOT, "check"), prop, "--tier", "quick"], cwd=ROOT, capture_output=True, text=True, env=env)
            lines = [l for l in p.stdout.splitlines() if l.startswith("VIOLATION") or l.startswith("KNOWN-FINDING")]
            res["checks"].append({"property": prop, "exit": p.returncode, "lines": lines, "wall_s": round(time.time() - t0)})
            print(i, prop, "exit", p.returncode, lines[:2])
    finally:
        subprocess.run(["git", "-C", SR, "checkout", "--", "."])
    res["detected"] = all(c["exit"] == 1 and any(l.startswith("VIOLATION") for l in c["lines"]) for c in res["checks"])
    json.dump(res, open(os.path.join(d, "result.json"), "w"), indent=1)

(* C01 deep model, context level, semantics: the ring reading of Model/MpcCompileSem.v extended to the
   main graph emitted by [compile_to_mpc_context] (Model/MpcCompileCtx.v):
   - a Random node (the PRF keys party i draws, generate_prf_key_triple) is the opaque value [RKey];
   - the Call node evaluates the computation graph, read by [deval], on the values of its arguments
     and returns the value of the computation graph's output node;
   - PRF nodes of the main graph are atoms [matom] indexed by their node id (independent of the
     atoms [atom] of the computation graph), so a statement about this reading holds for all PRF
     values of both graphs; NOP (with or without a Send annotation) is the identity.
   Evaluation is a left fold over the node list.  Definitions only. *)
From CC Require Import Base.Prelude Base.Scalar Base.Ty Base.Shape Graph.Value Graph.IR Graph.Eval Graph.Typing
  Model.RingEval Model.MpcCompile Model.MpcCompileSem Model.MpcCompileCtx.

Section CtxEval.
  Variable R : Type.
  Variables (r0 : R) (radd rmul rsub : R -> R -> R).
  Variable atom : Z -> R.          (* PRF nodes of the computation graph *)
  Variable matom : Z -> R.         (* PRF nodes of the main graph *)
  Variable catom : value -> R.
  Variable one : R.
  Variable lin : op -> R -> R.
  Variable bil : op -> R -> R -> R.
  Variable nlin : op -> list R -> R.
  Variable cg : list node.         (* the computation graph (graph dependency of the Call node) *)
  Variable coo : Z.                (* its output node *)

  Notation rval := (rval R).

  Definition ceval_node (i : Z) (o : op) (vs : list rval) : option rval :=
    match o with
    | ORandom _ => match vs with [] => Some (RKey R) | _ => None end
    | OCall =>
        match deval R r0 radd rmul rsub atom catom one lin bil nlin cg vs with
        | Some env => match znth env coo with Ok v => Some v | _ => None end
        | None => None
        end
    | _ => deval_node R r0 radd rmul rsub matom catom one lin bil nlin i o vs
    end.

  Definition cstep (st : option (dstate R)) (nd : node) : option (dstate R) :=
    match st with
    | None => None
    | Some (env, ins) =>
        match n_op nd with
        | OInput _ =>
            match ins with
            | v :: ins' => Some (env ++ [v], ins')
            | [] => None
            end
        | o =>
            match mapM (fun d => znth env d) (n_deps nd) with
            | Ok vs => match ceval_node (zlen env) o vs with
                       | Some v => Some (env ++ [v], ins)
                       | None => None
                       end
            | _ => None
            end
        end
    end.

  Definition ceval_from (nodes : list node) (st : option (dstate R)) : option (dstate R) := fold_left cstep nodes st.
  Definition ceval (nodes : list node) (ins : list rval) : option (list rval) :=
    match ceval_from nodes (Some ([], ins)) with Some (env, _) => Some env | None => None end.

  (* ---------- vocabulary of the context-level statement ---------- *)
  (* inputs of the main graph for an input status vector: the plain value for an input owned by a
     party or public, ANY three values for an input that arrives shared (its meaning, the source
     input, is their sum) *)
  Inductive ctx_inrel : list iostatus -> list rval -> list rval -> Prop :=
  | ctx_inrel_nil sts : ctx_inrel sts [] []
  | ctx_inrel_party sts i x s m : ctx_inrel sts s m ->
                                  ctx_inrel (IOParty i :: sts) (RLeaf R x :: s) (RLeaf R x :: m)
  | ctx_inrel_public sts v s m : ctx_inrel sts s m -> ctx_inrel (IOPublic :: sts) (v :: s) (v :: m)
  | ctx_inrel_shared sts x a b c s m : radd (radd a b) c = x -> ctx_inrel sts s m ->
                                       ctx_inrel (IOShared :: sts) (RLeaf R x :: s) (T3 R a b c :: m).
End CtxEval.

(* the position of the Call node of a main graph (-1 if there is none) *)
Fixpoint call_index_from (nodes : list node) (i : Z) : Z :=
  match nodes with
  | [] => -1
  | nd :: r => match n_op nd with OCall => i | _ => call_index_from r (i + 1) end
  end.
Definition call_index (nodes : list node) : Z := call_index_from nodes 0.

(* is_output_private of compile_to_mpc_context: the output node of the computation graph carries
   the Private annotation *)
Definition output_annotated_private (cg : list node) (coo : Z) : bool :=
  match znth cg coo with Ok nd => existsb (annot_eqb APrivate) (n_annots nd) | _ => false end.

(* C07 model, part 1: the generic logarithmic-depth combination strategies of the inliner,
   inline/data_structures.rs:10-132 and inline/inline_common.rs:26-43.
   Definitions only; proofs are in Proofs/PrefixProofs.v.

   Conventions of this file.
   - A Rust `Vec<T>` is a `list T`; `v[i]` is [arr_get] (Panic when out of range, like the Rust
     index), `v[i] = x` is [arr_set] (Panic when out of range).  The in-place loops become
     monadic folds ([foldM]) over the list of indices IN THE ORDER THE RUST LOOP VISITS THEM,
     each step reading the current array and producing the updated one.
   - `combine_op.combine(a, b)?` is a total function [op : T -> T -> T].  The Rust combiner may
     also fail (`Result`); the recording combiner of the hook and the pure combiners never do,
     and a failing graph-building combiner aborts the whole inlining with an error (no graph
     is produced), so failure of the combiner is outside the property and is not modelled.
   - `usize` arithmetic: all subtractions below are on indices for which the Rust code has
     established the minuend is larger (commented at each site), so nat subtraction never
     truncates on a reachable path.
   - `while` loops get explicit fuel and [OutOfFuel]; the theorems prove it is not reached. *)
From Coq Require Import FMapPositive.
From CC Require Import Base.Prelude.
Local Open Scope nat_scope.

(* ------------------------------------------------------------------ arrays and loops *)
Section Arr.
  Context {A : Type}.
  (* v[i] *)
  Definition arr_get (l : list A) (i : nat) : result A :=
    match nth_error l i with Some x => Ok x | None => Panic end.
  Fixpoint set_nth (l : list A) (i : nat) (x : A) : list A :=
    match l, i with
    | [], _ => []
    | _ :: r, O => x :: r
    | y :: r, S i' => y :: set_nth r i' x
    end.
  (* v[i] = x *)
  Definition arr_set (l : list A) (i : nat) (x : A) : result (list A) :=
    if i <? length l then Ok (set_nth l i x) else Panic.
End Arr.

(* for b in l { a = f(a, b)? } *)
Fixpoint foldM {A B} (f : A -> B -> result A) (l : list B) (a : A) : result A :=
  match l with
  | [] => Ok a
  | b :: r => let* a' := f a b in foldM f r a'
  end.

(* DepthOptimizationLevel, inline_common.rs:18 *)
Inductive depth_level := LvlDefault | LvlExtreme.

Section Prefix.
  Context {T : Type} (op : T -> T -> T).

  (* data_structures.rs:19-29 and :107-116: one halving round,
     for i in (0..len).step_by(2) { if i+1 >= len { push(v[i]) } else { push(op(v[i], v[i+1])) } }.
     Both indices are in range by the loop guard, so the round is structural. *)
  Fixpoint pair_up (l : list T) : list T :=
    match l with
    | x :: y :: r => op x y :: pair_up r
    | _ => l
    end.

  (* data_structures.rs:18 while combined_items.len() > 1 { ... }; :32 Ok(combined_items[0]) *)
  Fixpoint lds_loop (fuel : nat) (l : list T) : result T :=
    if length l <=? 1 then arr_get l 0
    else match fuel with
         | O => OutOfFuel
         | S f => lds_loop f (pair_up l)
         end.

  (* data_structures.rs:10 log_depth_sum *)
  Definition log_depth_sum (items : list T) : result T :=
    match items with
    | [] => Err                                   (* :14 "Cannot combine empty vector" *)
    | _ => lds_loop (length items) items
    end.

  (* data_structures.rs:51-54, one pass:
     for i in (depth..len).rev() { c[i] = op(c[i - depth], c[i]) }      (i >= depth) *)
  Definition ascent_step (depth : nat) (c : list T) (i : nat) : result (list T) :=
    let* a := arr_get c (i - depth) in
    let* b := arr_get c i in
    arr_set c i (op a b).
  Definition ascent_pass (depth : nat) (c : list T) : result (list T) :=
    foldM (ascent_step depth) (rev (seq depth (length c - depth))) c.

  (* data_structures.rs:50-56  while depth < len { pass; depth *= 2 } *)
  Fixpoint ascent_loop (fuel depth : nat) (c : list T) : result (list T) :=
    if depth <? length c then
      match fuel with
      | O => OutOfFuel
      | S f => let* c' := ascent_pass depth c in ascent_loop f (depth * 2) c'
      end
    else Ok c.

  (* data_structures.rs:40 prefix_sums_binary_ascent *)
  Definition prefix_sums_binary_ascent (items : list T) : result (list T) :=
    match items with
    | [] => Ok []
    | _ => ascent_loop (length items) 1 items
    end.

  (* data_structures.rs:75-80  for i in 0..len { if i % bs != 0 { c[i] = op(c[i-1], c[i]) } }
     (i % bs != 0 implies i >= 1) *)
  Definition sqrt_step1 (bs : nat) (c : list T) (i : nat) : result (list T) :=
    if negb (i mod bs =? 0) then
      let* a := arr_get c (i - 1) in
      let* b := arr_get c i in
      arr_set c i (op a b)
    else Ok c.
  (* data_structures.rs:82-87  for i in bs..len { c[i] = op(c[i - i % bs - 1], c[i]) }
     (i >= bs >= 1 implies i - i % bs >= bs >= 1) *)
  Definition sqrt_step2 (bs : nat) (c : list T) (i : nat) : result (list T) :=
    let* a := arr_get c (i - i mod bs - 1) in
    let* b := arr_get c i in
    arr_set c i (op a b).
  (* the two passes for a given block size *)
  Definition prefix_sums_blocks (bs : nat) (items : list T) : result (list T) :=
    let n := length items in
    let* c := foldM (sqrt_step1 bs) (seq 0 n) items in
    foldM (sqrt_step2 bs) (seq bs (n - bs)) c.

  (* `(len as f64).sqrt() as usize`: modelled as the integer floor square root (exact for
     len < 2^52, where the correctly rounded f64 square root truncates to it; trusted).
     Computed on N; PrefixProofs.isqrt_spec proves it is the floor square root. *)
  Definition isqrt (n : nat) : nat := N.to_nat (N.sqrt (N.of_nat n)).
  (* data_structures.rs:72 *)
  Definition sqrt_block_size (n : nat) : nat := Nat.max 1 (isqrt n).

  (* data_structures.rs:65 prefix_sums_sqrt_trick *)
  Definition prefix_sums_sqrt_trick (items : list T) : result (list T) :=
    match items with
    | [] => Ok []
    | _ => prefix_sums_blocks (sqrt_block_size (length items)) items
    end.

  (* data_structures.rs:104-119: layers[0] = items; while layers[layer].len() > 1
     { layers.push(halving round of layers[layer]) }.  Result: bottom layer first. *)
  Fixpoint build_layers (fuel : nat) (cur : list T) : result (list (list T)) :=
    if length cur <=? 1 then Ok [cur]
    else match fuel with
         | O => OutOfFuel
         | S f => let* rest := build_layers f (pair_up cur) in Ok (cur :: rest)
         end.

  (* data_structures.rs:122-129, for one layer `lo` = layers[i] given `up` = layers[i+1]:
     for j in 1..lo.len() { if j % 2 == 1 { lo[j] = up[j/2] } else { lo[j] = op(up[(j-1)/2], lo[j]) } } *)
  Definition descend_step (up : list T) (lo : list T) (j : nat) : result (list T) :=
    if j mod 2 =? 1 then
      let* v := arr_get up (j / 2) in
      arr_set lo j v
    else
      let* a := arr_get up ((j - 1) / 2) in
      let* b := arr_get lo j in
      arr_set lo j (op a b).
  Definition descend_pass (up lo : list T) : result (list T) :=
    foldM (descend_step up) (seq 1 (length lo - 1)) lo.

  (* data_structures.rs:121  for i in (0..layers.len() - 1).rev(): layer i is rewritten from the
     ALREADY REWRITTEN layer i+1, top first; as a right fold over the bottom-first list. *)
  Fixpoint descend (layers : list (list T)) : result (list (list T)) :=
    match layers with
    | [] => Ok []
    | lo :: rest =>
        match rest with
        | [] => Ok [lo]
        | _ =>
            let* rest' := descend rest in
            let* up := arr_get rest' 0 in
            let* lo' := descend_pass up lo in
            Ok (lo' :: rest')
        end
    end.

  (* data_structures.rs:96 prefix_sums_segment_tree *)
  Definition prefix_sums_segment_tree (items : list T) : result (list T) :=
    match items with
    | [] => Ok []
    | _ =>
        let* layers := build_layers (length items) items in
        let* layers' := descend layers in
        arr_get layers' 0                                     (* :131 layers[0] *)
    end.

  (* inline_common.rs:26 pick_prefix_sum_algorithm.  [inputs_len] is the caller's vector length,
     which is NOT always the length of the list the algorithm is then applied to (the
     associative inliner applies it to inputs_len + 1 items). *)
  Definition pick_prefix_sum_algorithm (inputs_len : nat) (lvl : depth_level)
    : list T -> result (list T) :=
    match lvl with
    | LvlExtreme => prefix_sums_binary_ascent
    | LvlDefault =>
        if inputs_len <? 16 then prefix_sums_sqrt_trick else prefix_sums_segment_tree
    end.
End Prefix.

(* ------------------------------------------------------------------ symbolic runs
   The free term algebra: the model run with [Comb] as the combiner yields the exact
   combination tree of every output, which the harness compares with the trees rebuilt from the
   (left, right, new id) log that /repo's functions produce with a recording combiner
   (inline.rs verif_hooks::run_strategy). *)
Inductive term := Leaf (i : N) | Comb (l r : term).

Fixpoint term_eqb (a b : term) : bool :=
  match a, b with
  | Leaf i, Leaf j => N.eqb i j
  | Comb a1 a2, Comb b1 b2 => term_eqb a1 b1 && term_eqb a2 b2
  | _, _ => false
  end.
#[global] Instance Eqb_term : Eqb term := term_eqb.

Definition leaves (n : nat) : list term := map (fun i => Leaf (N.of_nat i)) (seq 0 n).

(* inline.rs verif_hooks::run_strategy(which, n) with the recording combiner replaced by [Comb] *)
Definition sym_run (which n : nat) : result (list term) :=
  let items := leaves n in
  match which with
  | 0 => let* r := log_depth_sum Comb items in Ok [r]
  | 1 => prefix_sums_binary_ascent Comb items
  | 2 => prefix_sums_sqrt_trick Comb items
  | 3 => prefix_sums_segment_tree Comb items
  | 4 => pick_prefix_sum_algorithm Comb n LvlDefault items
  | _ => pick_prefix_sum_algorithm Comb n LvlExtreme items
  end.

(* Decoder of the Rust observation: ids 0..n are the leaves, every log entry (l, r, id) defines
   id := Comb l r (l, r defined earlier); the outputs are ids.  An undefined or redefined id makes
   the decoding fail ([None]), which never equals [Some] model result. *)
Definition id_key (i : N) : positive := N.succ_pos i.
Fixpoint decode_log (tbl : PositiveMap.t term) (log : list (N * N * N)) : option (PositiveMap.t term) :=
  match log with
  | [] => Some tbl
  | (l, r, i) :: rest =>
      match PositiveMap.find (id_key l) tbl, PositiveMap.find (id_key r) tbl,
            PositiveMap.find (id_key i) tbl with
      | Some tl, Some tr, None => decode_log (PositiveMap.add (id_key i) (Comb tl tr) tbl) rest
      | _, _, _ => None
      end
  end.
Fixpoint lookup_all (tbl : PositiveMap.t term) (ids : list N) : option (list term) :=
  match ids with
  | [] => Some []
  | i :: r => match PositiveMap.find (id_key i) tbl, lookup_all tbl r with
              | Some t, Some ts => Some (t :: ts)
              | _, _ => None
              end
  end.
Definition decode_run (n : nat) (log : list (N * N * N)) (outs : list N) : option (list term) :=
  let tbl0 := fold_left (fun m i => PositiveMap.add (id_key (N.of_nat i)) (Leaf (N.of_nat i)) m)
                        (seq 0 n) (PositiveMap.empty term) in
  match decode_log tbl0 log with
  | Some tbl => lookup_all tbl outs
  | None => None
  end.
(* what the hook returns: Ok (outputs) or Err; [None] = undecodable observation *)
Definition decode_ok (n : nat) (log : list (N * N * N)) (outs : list N) : option (result (list term)) :=
  option_map Ok (decode_run n log outs).

(* evaluation of a term under an interpretation of the combiner and of the leaves *)
Fixpoint term_eval {T} (op : T -> T -> T) (env : N -> T) (t : term) : T :=
  match t with
  | Leaf i => env i
  | Comb l r => op (term_eval op env l) (term_eval op env r)
  end.

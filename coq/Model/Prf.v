(* C15 model: random.rs (PRNG, Prf, PrfSession) and the evaluator's PRF / Random arms
   (simple_evaluator.rs:546-552, 633-645, 1050-1060, 1231-1270).  Definitions only; proofs are
   in Proofs/PrfProofs.v.

   AES-128 is a Section variable [aes : key -> block -> block]:
     key   = the 16 seed bytes (list Z, as given to Aes128::new(GenericArray::from_slice(..)));
     block = the 128-bit block read as a little-endian number, which is exactly how
             generate_one_batch writes the counter ([self.input.to_le_bytes()]); the output
             block is turned back into 16 bytes by [le_bytes 16].
   Integers are unbounded Z, machine widths are explicit [mod 2^w]; nat only for byte counts,
   buffer positions and fuel. *)
From CC Require Import Base.Prelude Base.Scalar Base.Ty Model.Bytes.

(* ------------------------------------------------------------------ state-passing helpers *)
Section MapS.
  Context {St A B : Type} (f : A -> St -> result (B * St)).
  (* `for x in xs { v.push(f(x)?) }` on a `&mut self` receiver *)
  Fixpoint mapS (l : list A) (s : St) : result (list B * St) :=
    match l with
    | [] => Ok ([], s)
    | x :: xs => let* (y, s1) := f x s in let* (ys, s2) := mapS xs s1 in Ok (y :: ys, s2)
    end.
End MapS.
Section RepS.
  Context {St B : Type} (g : St -> result (B * St)).
  (* the same loop over get_types_vector(Vector(n, t)) = n copies of t *)
  Fixpoint repS (k : nat) (s : St) : result (list B * St) :=
    match k with
    | O => Ok ([], s)
    | S k' => let* (y, s1) := g s in let* (ys, s2) := repS k' s1 in Ok (y :: ys, s2)
    end.
End RepS.

(* `*bytes.last_mut().unwrap() >>= k` under `if !bytes.is_empty()` *)
Fixpoint shr_last (bs : list Z) (k : Z) : list Z :=
  match bs with
  | [] => []
  | [b] => [b / 2 ^ k]
  | b :: r => b :: shr_last r k
  end.

Fixpoint upd (a : list Z) (i : nat) (v : Z) : list Z :=
  match a, i with
  | [], _ => []
  | _ :: r, O => v :: r
  | x :: r, S i' => x :: upd r i' v
  end.
(* Vec::swap: panics when an index is out of range *)
Definition swap (a : list Z) (i j : nat) : result (list Z) :=
  match nth_error a i, nth_error a j with
  | Some x, Some y => Ok (upd (upd a i y) j x)
  | _, _ => Panic
  end.

(* slice indexing l[a..b]: panics unless a <= b <= len *)
Definition slice {A} (l : list A) (a b : nat) : result (list A) :=
  if ((a <=? b) && (b <=? length l))%nat then Ok (firstn (b - a) (skipn a l)) else Panic.

(* ------------------------------------------------------------------ consumers of a byte source
   Everything in random.rs that turns random bytes into typed values is written against two
   primitives of the receiver: [bytes s n] (generate_random_bytes / get_random_bytes) and
   [number s k] (generate_random_number, k bytes read as a little-endian integer).  PRNG,
   PrfSession and the buffer-free specification stream (end of this file) instantiate them. *)
Section Consumers.
  Context {St : Type}.
  Variable bytes : St -> nat -> result (list Z * St).
  Variable number : St -> nat -> result (Z * St).

  (* random.rs:257-268 (PrfSession) = random.rs:78-92 (PRNG): Scalar / Array arm *)
  Definition gen_leaf (t : ty) (s : St) : result (bvalue * St) :=
    let* bit_size := size_in_bits t in
    let byte_size := (bit_size + 7) / 8 in
    let bits_to_flush := 8 * byte_size - bit_size in
    let* (bs, s') := bytes s (Z.to_nat byte_size) in
    Ok (BBytes (shr_last bs bits_to_flush), s').

  (* random.rs:255 recursively_generate_value = random.rs:76 get_random_value *)
  Fixpoint gen_value (t : ty) (s : St) : result (bvalue * St) :=
    match t with
    | TScalar _ | TArray _ _ => gen_leaf t s
    | TVector n t1 =>
        let* (vs, s') := repS (gen_value t1) (Z.to_nat n) s in Ok (BVec vs, s')
    | TTuple ts =>
        let* (vs, s') := mapS gen_value ts s in Ok (BVec vs, s')
    | TNamed fs =>
        let* (vs, s') := mapS (fun p => gen_value (snd p)) fs s in Ok (BVec vs, s')
    end.

  (* random.rs:315-331 generate_u32_in_range.
     modulus.next_power_of_two().trailing_zeros() = log2_up modulus for modulus >= 1 (and 0 for 0);
     (max_rand_value + 1) % 0 is a division-by-zero panic. *)
  Fixpoint u32_loop (fuel : nat) (need : nat) (bound m : Z) (s : St) : result (Z * St) :=
    match fuel with
    | O => OutOfFuel
    | S f =>
        let* (r, s') := number s need in
        if r <=? bound then Ok (r mod m, s') else u32_loop f need bound m s'
    end.
  Definition u32_need_bytes (m : Z) : Z := (Z.log2_up m + 7) / 8 + 1.
  Definition u32_bound (m : Z) : Z :=
    let max_rand_value := 2 ^ (u32_need_bytes m * 8) - 1 in
    let num_biased := (max_rand_value + 1) mod m in
    max_rand_value - num_biased.
  Definition u32_in_range (fuel : nat) (m : Z) (s : St) : result (Z * St) :=
    if m =? 0 then Panic else
    u32_loop fuel (Z.to_nat (u32_need_bytes m)) (u32_bound m) m s.

  (* random.rs:169-172: for i in 1..n { j = generate_u32_in_range(i+1); a.swap(i, j) } *)
  Fixpoint fy_loop (fuel : nat) (cnt : nat) (i : nat) (a : list Z) (s : St) : result (list Z * St) :=
    match cnt with
    | O => Ok (a, s)
    | S c =>
        let* (j, s1) := u32_in_range fuel (Z.of_nat i + 1) s in
        let* a1 := swap a i (Z.to_nat j) in
        fy_loop fuel c (S i) a1 s1
    end.

  (* vec_u64_from_bytes(&get_random_bytes(8)?, UINT64)?[0] *)
  Definition read_u64 (s : St) : result (Z * St) :=
    let* (bs, s') := bytes s 8 in
    let* v := vec_u64_from_bytes U64 bs in
    match v with x :: _ => Ok (x, s') | [] => Panic end.

  (* random.rs:109-126 get_random_in_range; u64::MAX % 0 is a division-by-zero panic *)
  Fixpoint in_range_loop (fuel : nat) (bound m : Z) (s : St) : result (Z * St) :=
    match fuel with
    | O => OutOfFuel
    | S f =>
        let* (r, s') := read_u64 s in
        if r <=? bound then Ok (r mod m, s') else in_range_loop f bound m s'
    end.
  Definition in_range_bound (m : Z) : Z :=
    let rem := ((u64_max mod m) + 1) mod m in u64_max - rem.
  Definition get_random_in_range (fuel : nat) (modulus : option Z) (s : St) : result (Z * St) :=
    match modulus with
    | Some m => if m =? 0 then Panic else in_range_loop fuel (in_range_bound m) m s
    | None => read_u64 s
    end.

  (* simple_evaluator.rs:546-552 shuffle_array:
     for i in (1..len).rev() { j = get_random_in_range(Some(i+1)); array.swap(j, i) } *)
  Fixpoint shuffle_loop (fuel : nat) (i : nat) (a : list Z) (s : St) : result (list Z * St) :=
    match i with
    | O => Ok (a, s)
    | S i' =>
        let* (j, s1) := get_random_in_range fuel (Some (Z.of_nat i + 1)) s in
        let* a1 := swap a (Z.to_nat j) i in
        shuffle_loop fuel i' a1 s1
    end.
  Definition shuffle_array (fuel : nat) (a : list Z) (s : St) : result (list Z * St) :=
    shuffle_loop fuel (length a - 1) a s.
End Consumers.

Definition iota (n : nat) : list Z := map Z.of_nat (seq 0 n).

(* operations on a PRNG (random.rs:46-127) and the two evaluator arms that use the evaluator's
   own PRNG (simple_evaluator.rs:1050-1060) *)
Inductive prng_op :=
| OpBytes (n : Z)                 (* get_random_bytes *)
| OpValue (t : ty)                (* get_random_value; Operation::Random(t) *)
| OpInRange (m : option Z)        (* get_random_in_range *)
| OpShuffle (n : Z).              (* Operation::RandomPermutation(n) *)
Inductive prng_out :=
| OutBytes (b : list Z) | OutValue (v : bvalue) | OutNum (x : Z).
Definition prng_out_eqb (a b : prng_out) : bool :=
  match a, b with
  | OutBytes x, OutBytes y => eqb x y
  | OutValue x, OutValue y => eqb x y
  | OutNum x, OutNum y => eqb x y
  | _, _ => false
  end.
#[global] Instance Eqb_prng_out : Eqb prng_out := prng_out_eqb.

Section PrngOps.
  Context {St : Type}.
  Variable bytes : St -> nat -> result (list Z * St).
  Definition prng_step (fuel : nat) (op : prng_op) (s : St) : result (prng_out * St) :=
    match op with
    | OpBytes n => let* (b, s') := bytes s (Z.to_nat n) in Ok (OutBytes b, s')
    | OpValue t => let* (v, s') := gen_value bytes t s in Ok (OutValue v, s')
    | OpInRange m => let* (x, s') := get_random_in_range bytes fuel m s in Ok (OutNum x, s')
    | OpShuffle n =>
        let* (a, s') := shuffle_array bytes fuel (iota (Z.to_nat n)) s in
        let* b := vec_u64_to_bytes U64 a in Ok (OutValue (BBytes b), s')
    end.
  (* a sequence of operations on one generator; the observation stops at the first failure
     (a failing Rust call leaves the generator partly advanced; that state is not modelled) *)
  Fixpoint prng_run (fuel : nat) (ops : list prng_op) (s : St) : list (result prng_out) :=
    match ops with
    | [] => []
    | op :: r =>
        match prng_step fuel op s with
        | Ok (o, s') => Ok o :: prng_run fuel r s'
        | Err => [Err] | Panic => [Panic] | OutOfFuel => [OutOfFuel]
        end
    end.
End PrngOps.

(* ------------------------------------------------------------------ AES-keyed part *)
Record session := mkS {
  s_input : Z;          (* u128 counter *)
  s_buf : list Z;       (* buffer *)
  s_next : nat;         (* next_byte *)
  s_cur : nat;          (* current_buffer_size *)
  s_nsz : nat }.        (* next_buffer_size *)
Definition set_next (s : session) (k : nat) : session :=
  mkS (s_input s) (s_buf s) k (s_cur s) (s_nsz s).

Definition BLOCK_SIZE : nat := 16.
Definition BUFFER_SIZE : nat := 512.
Definition INITIAL_BUFFER_SIZE : nat := 64.
Definition SEED_SIZE : nat := 16.

(* random.rs:184-197 PrfSession::new; `(input as u128) << 64` *)
Definition session_new (iv : Z) (initial_buffer_size : nat) : session :=
  let sz := ((initial_buffer_size + BLOCK_SIZE - 1) / BLOCK_SIZE * BLOCK_SIZE)%nat in
  mkS ((iv * 2 ^ 64) mod 2 ^ 128) (repeat 0 sz) sz sz sz.

(* Prf { aes } (random.rs:138): the key schedule of the 16 key bytes and nothing else *)
Record prf_obj := mkPrf { prf_key : list Z }.

(* one call of an evaluator's PRF / PermutationFromPRF arm; the key is dependencies_values[0] *)
Inductive prf_call :=
| CallPRF (key : bvalue) (iv : Z) (t : ty)
| CallPerm (key : bvalue) (iv : Z) (n : Z).
Definition call_key (c : prf_call) : bvalue :=
  match c with CallPRF k _ _ | CallPerm k _ _ => k end.

(* SimpleEvaluator.prfs : HashMap<Vec<u8>, Prf> as an association list *)
Definition evaluator := list (list Z * prf_obj).
Fixpoint cache_find (k : list Z) (ev : evaluator) : option prf_obj :=
  match ev with
  | [] => None
  | (k', p) :: r => if list_eqb Z.eqb k k' then Some p else cache_find k r
  end.
(* evaluator instances by number; an absent number is a fresh SimpleEvaluator *)
Definition instances := list (nat * evaluator).
Fixpoint inst_find (i : nat) (m : instances) : evaluator :=
  match m with
  | [] => []
  | (i', e) :: r => if (i =? i')%nat then e else inst_find i r
  end.

Section Prf.
  Variable aes : list Z -> Z -> Z.

  (* one block of encrypt_padded_b2b::<NoPadding> (ECB: every 16-byte block on its own) *)
  Definition enc_block (key : list Z) (c : Z) : list Z := le_bytes 16 (aes key c).

  (* random.rs:199-218 generate_one_batch.  i_bytes[i..i+16] panics when next_buffer_size is
     not a multiple of 16 (never the case after PrfSession::new). *)
  Definition generate_one_batch (key : list Z) (s : session) : result session :=
    let n := s_nsz s in
    if negb (n mod BLOCK_SIZE =? 0)%nat then Panic else
    let nb := (n / BLOCK_SIZE)%nat in
    let buf := flat_map (fun j => enc_block key ((s_input s + Z.of_nat j) mod 2 ^ 128)) (seq 0 nb) in
    let nsz' := if (n <? BUFFER_SIZE)%nat then Nat.min BUFFER_SIZE (n * 2) else n in
    Ok (mkS ((s_input s + Z.of_nat nb) mod 2 ^ 128) buf 0 n nsz').

  (* random.rs:226-243 fill_random_bytes.  The while loop ends after at most need/16 + 2 rounds
     when the buffer size is positive; fuel = need + 2 (a zero-size buffer loops forever in
     Rust: OutOfFuel here). *)
  Fixpoint fill (key : list Z) (fuel : nat) (s : session) (need : nat) (acc : list Z)
    : result (list Z * session) :=
    match fuel with
    | O => OutOfFuel
    | S f =>
        if (need =? 0)%nat then Ok (acc, s) else
        let* ready := slice (s_buf s) (s_next s) (s_cur s) in
        if (need <=? length ready)%nat then
          Ok (acc ++ firstn need ready, set_next s (s_next s + need))
        else
          let* s' := generate_one_batch key (set_next s 0) in
          fill key f s' (need - length ready) (acc ++ ready)
    end.
  (* random.rs:220 generate_random_bytes *)
  Definition sess_bytes (key : list Z) (s : session) (n : nat) : result (list Z * session) :=
    fill key (n + 2) s n [].

  (* random.rs:275-296 generate_random_number_const::<NEED_BYTES>.
     current_buffer_size - next_byte underflows (debug panic) when next_byte is larger. *)
  Definition sess_number_const (key : list Z) (need : nat) (s : session) : result (Z * session) :=
    if (s_cur s <? s_next s)%nat then Panic else
    let use_bytes := Nat.min (s_cur s - s_next s) need in
    let* part1 := slice (s_buf s) (s_next s) (s_next s + use_bytes) in
    let mask := if (need =? 8)%nat then u64_max else 2 ^ (Z.of_nat need * 8) - 1 in
    if (use_bytes =? need)%nat then
      Ok (Z.land (from_le_bytes (part1 ++ repeat 0 (8 - need))) mask,
          set_next s (s_next s + use_bytes))
    else
      let* s1 := generate_one_batch key s in
      let k := (need - use_bytes)%nat in
      let* part2 := slice (s_buf s1) 0 k in
      Ok (Z.land (from_le_bytes (part1 ++ part2 ++ repeat 0 (8 - need))) mask, set_next s1 k).
  (* random.rs:299-311 generate_random_number *)
  Definition sess_number (key : list Z) (s : session) (need : nat) : result (Z * session) :=
    if ((1 <=? need) && (need <=? 8))%nat then sess_number_const key need s else Err.

  (* random.rs:160 Prf::output_value (&mut self is only read) *)
  Definition prf_output_value (p : prf_obj) (iv : Z) (t : ty) : result bvalue :=
    let* (v, _) := gen_value (sess_bytes (prf_key p)) t (session_new iv INITIAL_BUFFER_SIZE) in
    Ok v.

  (* random.rs:164-176 Prf::output_permutation *)
  Definition prf_output_permutation (fuel : nat) (p : prf_obj) (iv n : Z) : result bvalue :=
    if 2 ^ 30 <? n then Err else
    let s := session_new iv (Nat.min BUFFER_SIZE (Z.to_nat n)) in
    let a := iota (Z.to_nat n) in
    let* (a', _) := fy_loop (sess_number (prf_key p)) fuel (Z.to_nat n - 1) 1 a s in
    let* b := vec_u64_to_bytes U64 a' in
    Ok (BBytes b).

  (* random.rs:141-152 Prf::new(Some(key)) *)
  Definition prf_new (key16 : list Z) : prf_obj := mkPrf key16.

  Definition prf_run (fuel : nat) (p : prf_obj) (c : prf_call) : result bvalue :=
    match c with
    | CallPRF _ iv t => prf_output_value p iv t
    | CallPerm _ iv n => prf_output_permutation fuel p iv n
    end.

  (* simple_evaluator.rs:1231-1270: PRF and PermutationFromPRF arms.
     access_bytes panics on a vector value; key[0..SEED_SIZE] panics on a short key; a failing
     first call returns before e.insert(prf). *)
  Definition eval_prf_node (fuel : nat) (ev : evaluator) (c : prf_call) : result bvalue * evaluator :=
    match call_key c with
    | BVec _ => (Panic, ev)
    | BBytes key =>
        match cache_find key ev with
        | None =>
            if (length key <? SEED_SIZE)%nat then (Panic, ev) else
            let prf := prf_new (firstn SEED_SIZE key) in
            match prf_run fuel prf c with
            | Ok v => (Ok v, (key, prf) :: ev)
            | r => (r, ev)
            end
        | Some prf => (prf_run fuel prf c, ev)
        end
    end.

  (* a history of calls, each addressed to one evaluator instance *)
  Fixpoint run_history (fuel : nat) (h : list (nat * prf_call)) (m : instances)
    : list (result bvalue) :=
    match h with
    | [] => []
    | (i, c) :: r =>
        let '(v, e') := eval_prf_node fuel (inst_find i m) c in
        v :: run_history fuel r ((i, e') :: m)
    end.

  (* random.rs:46-127 PRNG { aes, random_source: PrfSession::new(0, BUFFER_SIZE) } *)
  Record prng := mkPrng { prng_key : list Z; prng_sess : session }.
  Definition prng_new (seed : list Z) : prng := mkPrng seed (session_new 0 BUFFER_SIZE).
  (* random.rs:65 get_random_bytes, on the pair (key, session) *)
  Definition prng_bytes (g : prng) (n : nat) : result (list Z * prng) :=
    let* (b, s') := sess_bytes (prng_key g) (prng_sess g) n in Ok (b, mkPrng (prng_key g) s').
  Definition prng_observe (fuel : nat) (seed : list Z) (ops : list prng_op) : list (result prng_out) :=
    prng_run prng_bytes fuel ops (prng_new seed).
End Prf.

(* ------------------------------------------------------------------ the table form of AES used
   by the generated cases: (key as LE number, first counter, consecutive output blocks as LE
   numbers); a block outside the table reads as 0. *)
Definition aes_table := list (Z * Z * list Z).
Fixpoint mk_aes (tab : aes_table) (key : list Z) (c : Z) : Z :=
  match tab with
  | [] => 0
  | (k, base, outs) :: r =>
      if (k =? from_le_bytes key) && (base <=? c) && (c <? base + Z.of_nat (length outs))
      then nth (Z.to_nat (c - base)) outs 0
      else mk_aes r key c
  end.

(* ------------------------------------------------------------------ specification: the block
   stream, read without any buffer.  Byte i of the stream of (key, iv) is byte (i mod 16) of
   AES_key((iv << 64) + i / 16 mod 2^128). *)
Section Spec.
  Variable aes : list Z -> Z -> Z.
  Definition ctr (iv : Z) (j : Z) : Z := (iv * 2 ^ 64 + j) mod 2 ^ 128.
  Definition stream_byte (key : list Z) (iv : Z) (i : nat) : Z :=
    nth (i mod 16) (enc_block aes key (ctr iv (Z.of_nat (i / 16)))) 0.
  Definition seg (f : nat -> Z) (p n : nat) : list Z := map f (seq p n).

  (* the two primitives on a position in a stream f *)
  Definition pure_bytes (f : nat -> Z) (p n : nat) : result (list Z * nat) :=
    Ok (seg f p n, (p + n)%nat).
  Definition pure_number (f : nat -> Z) (p need : nat) : result (Z * nat) :=
    if ((1 <=? need) && (need <=? 8))%nat then Ok (from_le_bytes (seg f p need), (p + need)%nat)
    else Err.

  (* the pure functions of (key, iv, type) and (key, iv, n) *)
  Definition spec_value (key : list Z) (iv : Z) (t : ty) : result bvalue :=
    let* (v, _) := gen_value (pure_bytes (stream_byte key iv)) t 0%nat in Ok v.
  Definition spec_permutation (fuel : nat) (key : list Z) (iv n : Z) : result bvalue :=
    if 2 ^ 30 <? n then Err else
    let* (a', _) := fy_loop (pure_number (stream_byte key iv)) fuel (Z.to_nat n - 1) 1
                            (iota (Z.to_nat n)) 0%nat in
    let* b := vec_u64_to_bytes U64 a' in
    Ok (BBytes b).
  Definition spec_call (fuel : nat) (c : prf_call) : result bvalue :=
    match call_key c with
    | BVec _ => Panic
    | BBytes key =>
        if (length key <? SEED_SIZE)%nat then Panic else
        match c with
        | CallPRF _ iv t => spec_value (firstn SEED_SIZE key) iv t
        | CallPerm _ iv n => spec_permutation fuel (firstn SEED_SIZE key) iv n
        end
    end.
  Definition spec_prng (fuel : nat) (seed : list Z) (ops : list prng_op) : list (result prng_out) :=
    prng_run (pure_bytes (stream_byte seed 0)) fuel ops 0%nat.
End Spec.

(* C19: tables as the join operations see them, and the result-type rule of
   type_inference.rs:339-358.  Shared by Model/JoinImpl.v (the mirrored algorithm) and
   Model/JoinSpec.v (the relational specification).  Definitions only.

   A table is the decoded form of a named tuple of arrays: a list of named columns in the order
   of the named tuple.  A column is a list of rows, a row the flattened list of the scalar
   elements of one entry (an array of shape [n; d1; ..; dk] has n rows of d1*..*dk elements;
   that number is [c_rs], `ColumnType::get_row_size_in_elements`, join_utils.rs:115).
   The null column is the column named [null_header]; it is a bit array of shape [n], so its rows
   are the singletons [[b]].  In the masked variant (JoinWithColumnMasks) every other column is a
   pair (mask, data) and [c_mask] holds the mask bits; in the plain variant [c_mask] is []. *)
From CC Require Import Base.Prelude.

(* type_inference.rs:281 NULL_HEADER *)
Definition null_header : string := "row_mask_sentinel_639bcf36-a1b0-11ed-b93a-423c7c497182".

Definition row := list Z.
Record column := mkcol { c_rs : nat; c_mask : list Z; c_rows : list row }.
Definition table := list (string * column).
(* graphs.rs JoinType *)
Inductive jtype := JInner | JLeft | JUnion | JFull.
(* the `headers` argument: (header of the first table, header of the second table); the Rust
   HashMap has no order, the list order here fixes the order in which key columns are concatenated *)
Definition keymap := list (string * string).

#[global] Instance Eqb_column : Eqb column :=
  fun c d => eqb (c_rs c) (c_rs d) && eqb (c_mask c) (c_mask d) && eqb (c_rows c) (c_rows d).

Definition names {A} (t : list (string * A)) : list string := map fst t.
Definition mem (h : string) (l : list string) : bool := existsb (String.eqb h) l.
Fixpoint lookup {A} (h : string) (l : list (string * A)) : option A :=
  match l with
  | [] => None
  | (k, v) :: r => if String.eqb h k then Some v else lookup h r
  end.
Definition is_null (h : string) : bool := String.eqb h null_header.

(* headers with the row size of their type: all that the join needs of a column type *)
Definition types_of (t : table) : list (string * nat) :=
  map (fun p => (fst p, c_rs (snd p))) t.

(* type_inference.rs:339-358: the columns of the first table in their order (null column
   included, wherever it stands), then the columns of the second table that are neither named like
   a column of the first (so its null column is dropped) nor key columns of the second. *)
Definition result_headers (a b : table) (keys : keymap) : list (string * nat) :=
  types_of a ++
  filter (fun p => negb (mem (fst p) (names a)) && negb (mem (fst p) (map snd keys))) (types_of b).

Definition swap_keys (keys : keymap) : keymap := map (fun p => (snd p, fst p)) keys.

(* C01 bridge: the decidable side conditions under which the ring reading [reval_Z]
   (Model/RingEvalInst.v) of a node list provably agrees with the evaluator model
   [eval_graph_nodes] (Graph/Eval.v).  Definitions only; every predicate is a boolean function the
   harness can evaluate on an exported graph / tape (correspondence kinds T:wf-ring-graph).

   A graph of the elementwise fragment has one common leaf type T (array or scalar): every
   arithmetic node, constant and PRF output has exactly this type; PRF keys (any non-tuple type
   different from T, bit[128] in practice) are opaque; tuples of these are built by CreateTuple and
   taken apart by TupleGet.  The ring is (Z_2^w)^n with w = width of T's scalar type and
   n = number of elements of T's shape. *)
From CC Require Import Base.Prelude Base.Scalar Base.Ty Base.Shape Graph.Value Graph.IR Graph.Eval
  Model.RingEval Model.RingEvalInst.

Definition is_tuple_ty (t : ty) : bool := match t with TTuple _ => true | _ => false end.
Definition is_input_op (o : op) : bool := match o with OInput _ => true | _ => false end.

(* the common type: a leaf all of whose dimensions are positive (so n >= 1) *)
Definition wf_ring_type (T : ty) : bool := is_leaf T && forallb (fun d => 0 <? d) (dims T).
Definition ring_w (T : ty) : Z := width (st_of T).
Definition ring_n (T : ty) : nat := Z.to_nat (prod_list (dims T)).

(* type recorded for the earlier node d ([tys] = types of the nodes before the current one, so a
   hit also says that the dependency points backwards) *)
Definition ty_at (tys : list ty) (d : Z) : option ty :=
  if d <? 0 then None else nth_error tys (Z.to_nat d).
Definition ty_at_is (tys : list ty) (d : Z) (T : ty) : bool :=
  match ty_at tys d with Some t => ty_eqb t T | None => false end.
Fixpoint tys_at (tys : list ty) (ds : list Z) : option (list ty) :=
  match ds with
  | [] => Some []
  | d :: r => match ty_at tys d, tys_at tys r with
              | Some t, Some ts => Some (t :: ts)
              | _, _ => None
              end
  end.

(* one node, given the recorded types of its predecessors *)
Definition node_ok (T : ty) (tys : list ty) (nd : node) : bool :=
  match n_op nd, n_deps nd with
  | OInput _, _ => true                                   (* value and shape come from the tape *)
  | OZeros t0, [] | OOnes t0, [] => ty_eqb t0 T && ty_eqb (n_ty nd) T
  | OConstant t0 (VArr es), [] => ty_eqb t0 T && ty_eqb (n_ty nd) T && (length es =? ring_n T)%nat
  | ORandom _, [] => negb (ty_eqb (n_ty nd) T) && negb (is_tuple_ty (n_ty nd))     (* a key *)
  | OPRF _ _, [k] => ty_eqb (n_ty nd) T && match ty_at tys k with Some _ => true | None => false end
  | OAdd, [a; b] | OSubtract, [a; b] | OMultiply, [a; b] =>
      ty_eqb (n_ty nd) T && ty_at_is tys a T && ty_at_is tys b T
  | ONOP, [a] => match ty_at tys a with Some t => ty_eqb (n_ty nd) t | None => false end
  | OCreateTuple, ds => match tys_at tys ds with Some ts => ty_eqb (n_ty nd) (TTuple ts) | None => false end
  | OTupleGet j, [a] =>
      match ty_at tys a with
      | Some (TTuple ts) => (0 <=? j) && match nth_error ts (Z.to_nat j) with
                                         | Some t => ty_eqb (n_ty nd) t
                                         | None => false
                                         end
      | _ => false
      end
  | _, _ => false
  end.

Fixpoint wf_ring_nodes (T : ty) (tys : list ty) (nodes : list node) : bool :=
  match nodes with
  | [] => true
  | nd :: r => node_ok T tys nd && wf_ring_nodes T (tys ++ [n_ty nd]) r
  end.

(* the graph side condition of C01_ring_reading_agrees_with_eval *)
Definition wf_ring_graph (T : ty) (nodes : list node) : bool :=
  wf_ring_type T && wf_ring_nodes T [] nodes.

(* a tape value fits the recorded type of its node as far as the reading looks at it: n elements
   where the type is T, component-wise for tuples, anything elsewhere (keys) *)
Fixpoint ring_shape_ok (T : ty) (t : ty) (v : value) {struct v} : bool :=
  if ty_eqb t T then match v with VArr es => (length es =? ring_n T)%nat | VTup _ => false end
  else match t, v with
       | TTuple ts, VTup vs =>
           (fix go (vs : list value) (ts : list ty) {struct vs} : bool :=
              match vs, ts with
              | [], [] => true
              | v1 :: vs', t1 :: ts' => ring_shape_ok T t1 v1 && go vs' ts'
              | _, _ => false
              end) vs ts
       | TTuple _, VArr _ => false
       | _, _ => true
       end.

(* the tape side condition: every Input / Random / PRF node (positions counted from i) has an entry
   of the right shape *)
Fixpoint wf_ring_tape_from (T : ty) (i : nat) (nodes : list node) (tape : Z -> option value) : bool :=
  match nodes with
  | [] => true
  | nd :: r =>
      (if from_tape (n_op nd) then
         match tape (Z.of_nat i) with Some v => ring_shape_ok T (n_ty nd) v | None => false end
       else true)
      && wf_ring_tape_from T (S i) r tape
  end.
Definition wf_ring_tape (T : ty) (nodes : list node) (tape : Z -> option value) : bool :=
  wf_ring_tape_from T 0 nodes tape.

(* the inputs the evaluator model reads from the tape, in node order: what the reading is given
   as its input list *)
Fixpoint tape_inputs_from (i : nat) (nodes : list node) (tape : Z -> option value) : list value :=
  match nodes with
  | [] => []
  | nd :: r =>
      (if is_input_op (n_op nd) then match tape (Z.of_nat i) with Some v => [v] | None => [] end else [])
      ++ tape_inputs_from (S i) r tape
  end.
Definition tape_inputs (nodes : list node) (tape : Z -> option value) : list value :=
  tape_inputs_from 0 nodes tape.

(* every node value of the reading matches the evaluator's (the statement of the bridge, as a
   boolean; [reading_mismatch] = -1 is the same thing as computed by the `ring-reading` tie) *)
Definition reading_agrees (T : ty) (tape : Z -> option value) (nodes : list node) (vals : list value) : bool :=
  reading_mismatch (ring_w T) (ring_n T) tape nodes (tape_inputs nodes tape) vals =? -1.

(* C13 model: byte codecs of bytes.rs:176-402 and typed readers/writers of
   data_values.rs:221-1226.  Definitions only; proofs are in Proofs/BytesProofs.v.
   Integers are unbounded Z; machine widths appear as explicit mod 2^w.
   A Rust integer argument of any standard type lies in [-2^127, 2^128). *)
From CC Require Import Base.Prelude Base.Scalar Base.Ty.

Definition rust_int (x : Z) : Prop := - 2 ^ 127 <= x < 2 ^ 128.

(* bytes.rs:199 as_u128: try_into, and for a negative signed x: !(!x as u128).
   !x on a signed integer is -x-1; ! on u128 is 2^128-1-y. *)
Definition as_u128 (x : Z) : Z :=
  if 0 <=? x then x else 2 ^ 128 - 1 - (- x - 1).
(* bytes.rs:176 as_u64, for arguments of at most 64 bits *)
Definition as_u64 (x : Z) : Z :=
  if 0 <=? x then x else 2 ^ 64 - 1 - (- x - 1).

(* u128::to_le_bytes().take(n) *)
Fixpoint le_bytes (n : nat) (x : Z) : list Z :=
  match n with O => [] | S n' => x mod 256 :: le_bytes n' (x / 256) end.
(* res += (xi as u128) << (i*8) over the chunk *)
Fixpoint from_le_bytes (bs : list Z) : Z :=
  match bs with [] => 0 | b :: r => b + 256 * from_le_bytes r end.

(* slice.chunks(k): last chunk may be shorter *)
Fixpoint chunks {A} (fuel k : nat) (l : list A) : list (list A) :=
  match fuel with
  | O => []
  | S f => match l with [] => [] | _ => firstn k l :: chunks f k (skipn k l) end
  end.
(* slice.chunks_exact(k): remainder dropped (callers check len % k == 0 first) *)
Fixpoint chunks_exact {A} (fuel k : nat) (l : list A) : list (list A) :=
  match fuel with
  | O => []
  | S f => if (length l <? k)%nat then [] else firstn k l :: chunks_exact f k (skipn k l)
  end.

(* bytes.rs:236-257: one packed byte; a non-bit entry is an error *)
Fixpoint pack_byte (i : Z) (bits : list Z) : result Z :=
  match bits with
  | [] => Ok 0
  | b :: r => if (b =? 0) || (b =? 1)
              then let* rest := pack_byte (i + 1) r in Ok (b * 2 ^ i + rest)
              else Err
  end.

Definition nbytes (st : scalar) : nat := Z.to_nat (byte_len st).

(* bytes.rs:226 vec_to_bytes *)
Definition vec_to_bytes (st : scalar) (xs : list Z) : result (list Z) :=
  match st with
  | Bit => mapM (pack_byte 0) (chunks (length xs) 8 xs)
  | _ => Ok (flat_map (fun x => le_bytes (nbytes st) (as_u128 x)) xs)
  end.

(* bytes.rs:273 vec_u64_to_bytes (arguments convertible to u64) *)
Definition vec_u64_to_bytes (st : scalar) (xs : list Z) : result (list Z) :=
  match st with
  | Bit => mapM (pack_byte 0) (chunks (length xs) 8 xs)
  | _ => Ok (flat_map (fun x => le_bytes (Nat.min (nbytes st) 8) (as_u64 x)) xs)
  end.

Definition unpack_byte (b : Z) : list Z :=
  map (fun i => (b / 2 ^ i) mod 2) [0; 1; 2; 3; 4; 5; 6; 7].

(* bytes.rs:363 vec_u128_from_bytes; [acc] = 128 for the u128 reader.
   res |= sign_mask is written with Z.lor as in the source. *)
Definition vec_from_bytes (acc : Z) (st : scalar) (x : list Z) : result (list Z) :=
  match st with
  | Bit => Ok (flat_map unpack_byte x)
  | _ =>
      let bl := nbytes st in
      let pad := signed st && (byte_len st <? acc / 8) in
      let sign_mask := if pad then Z.lxor (2 ^ acc - 1) (2 ^ (byte_len st * 8) - 1) else 0 in
      if negb (Z.of_nat (length x) mod byte_len st =? 0) then Err else
      Ok (map (fun chunk =>
                 let res := from_le_bytes chunk in
                 if pad && (res / 2 ^ (byte_len st * 8 - 1) =? 1)
                 then Z.lor res sign_mask else res)
              (chunks_exact (length x) bl x))
  end.
Definition vec_u128_from_bytes := vec_from_bytes 128.
(* bytes.rs:322 vec_u64_from_bytes, meaningful for types of at most 8 bytes *)
Definition vec_u64_from_bytes := vec_from_bytes 64.

(* data_values.rs:990 check_type *)
Fixpoint check_type_raw (v : bvalue) (t : ty) {struct v} : bool :=
  match t with
  | TScalar _ | TArray _ _ =>
      match v, size_in_bits_raw t with
      | BBytes b, Ok s => Z.of_nat (length b) =? (s + 7) / 8
      | _, _ => false
      end
  | TVector n t1 =>
      match v with
      | BVec vs => (Z.of_nat (length vs) =? n) && forallb (fun c => check_type_raw c t1) vs
      | _ => false
      end
  | TTuple ts =>
      match v with
      | BVec vs =>
          (fix go (vs : list bvalue) (ts : list ty) : bool :=
             match vs, ts with
             | [], [] => true
             | c :: vs', t :: ts' => check_type_raw c t && go vs' ts'
             | _, _ => false end) vs ts
      | _ => false
      end
  | TNamed fs =>
      match v with
      | BVec vs =>
          (fix go (vs : list bvalue) (fs : list (string * ty)) : bool :=
             match vs, fs with
             | [], [] => true
             | c :: vs', f :: fs' => check_type_raw c (snd f) && go vs' fs'
             | _, _ => false end) vs fs
      | _ => false
      end
  end.
(* get_size_in_bits(t)? comes first: an invalid or overflowing type is an error *)
Definition check_type (v : bvalue) (t : ty) : result bool :=
  let* _ := size_in_bits t in Ok (check_type_raw v t).

Definition is_array (t : ty) : bool := match t with TArray _ _ => true | _ => false end.
Definition scalar_of (t : ty) : scalar :=
  match t with TScalar s | TArray _ s => s | _ => Bit end.
Definition dims_of (t : ty) : list Z :=
  match t with TArray sh _ => sh | _ => [] end.

(* data_values.rs:337 from_flattened_array *)
Definition from_flattened_array (st : scalar) (xs : list Z) : result bvalue :=
  rmap BBytes (vec_to_bytes st xs).

(* data_values.rs:917 to_flattened_array_u128 *)
Definition to_flattened_array_u128 (v : bvalue) (t : ty) : result (list Z) :=
  if negb (is_array t) then Err else
  let* ok := check_type v t in
  if negb ok then Err else
  match v with
  | BBytes bytes =>
      let* r := vec_u128_from_bytes (scalar_of t) bytes in
      match scalar_of t with
      | Bit => Ok (firstn (Z.to_nat (prod_list (dims_of t))) r)
      | _ => Ok r
      end
  | BVec _ => Err
  end.

(* `x as uK` / `x as iK` on a u128 *)
Definition cast_u (k : Z) (x : Z) : Z := x mod 2 ^ k.
Definition cast_i (k : Z) (x : Z) : Z :=
  let y := x mod 2 ^ k in if 2 ^ (k - 1) <=? y then y - 2 ^ k else y.

(* data_values.rs:701-985: the ten typed readers all go through the u128 reader *)
Definition to_flattened_array_u (k : Z) v t := rmap (map (cast_u k)) (to_flattened_array_u128 v t).
Definition to_flattened_array_i (k : Z) v t := rmap (map (cast_i k)) (to_flattened_array_u128 v t).

(* data_values.rs:619 to_u128 *)
Definition to_u128 (v : bvalue) (st : scalar) : result Z :=
  match v with
  | BBytes bytes =>
      let* r := vec_u128_from_bytes st bytes in
      if negb (length r =? 1)%nat && negb ((length r =? 8)%nat && scalar_eqb st Bit)
      then Err else match r with x :: _ => Ok x | [] => Panic end
  | BVec _ => Panic  (* access_bytes panics on a vector *)
  end.

(* data_values.rs:1157 zero_of_type *)
Fixpoint zero_of_type (t : ty) : result bvalue :=
  match t with
  | TScalar _ | TArray _ _ =>
      match size_in_bits t with
      | Ok s => Ok (BBytes (repeat 0 (Z.to_nat ((s + 7) / 8))))
      | _ => Panic  (* unwrap *)
      end
  | TVector n t1 => let* z := zero_of_type t1 in Ok (BVec (repeat z (Z.to_nat n)))
  | TTuple ts => rmap BVec (mapM zero_of_type ts)
  | TNamed fs => rmap BVec (mapM (fun p => zero_of_type (snd p)) fs)
  end.

(* data_values.rs:1202 one_of_type *)
Fixpoint one_of_type (t : ty) : result bvalue :=
  match t with
  | TScalar st => rmap BBytes (vec_to_bytes st [1])
  | TArray sh st => rmap BBytes (vec_to_bytes st (repeat 1 (Z.to_nat (prod_list sh))))
  | TVector n t1 => let* z := one_of_type t1 in Ok (BVec (repeat z (Z.to_nat n)))
  | TTuple ts => rmap BVec (mapM one_of_type ts)
  | TNamed fs => rmap BVec (mapM (fun p => one_of_type (snd p)) fs)
  end.

(* C01 deep model, context level: Gallina mirror of the wrapper around compile_to_mpc_graph,
     mpc_compiler.rs:1056 compile_to_mpc  (the validity checks of the party ids)
     mpc_compiler.rs:972  compile_to_mpc_context, for an input context with ONE graph
     mpc_compiler.rs:783  share_all_inputs, :761 share_input, :747 share_node,
     mpc_compiler.rs:770  generate_prf_key_triple, :736 contains_node_annotation,
     mpc_compiler.rs:83   recursively_generate_node_shares with node_to_share = Some (node, status),
     mpc_compiler.rs:198  get_node_shares, :921 reveal_output (with :867 recursively_sum_shares of
                          Model/MpcCompile.v),
     graphs.rs:3001 Graph::call with the Call rule of type_inference.rs:1349.
   The output context holds two graphs, in creation order: graph 0 is the computation graph
   ([compile_graph] of Model/MpcCompile.v), graph 1 the new main graph (PRF key generation, plain
   inputs, input sharing, the Call node, reveal).  Both are produced as node lists of Graph/IR.v with
   the id of their output node.  Node names (copy_node_name) are not part of the IR.  Party ids are
   u64 in the code; the model is meant for non-negative ids.  Definitions only. *)
From CC Require Import Base.Prelude Base.Scalar Base.Ty Base.Shape Graph.Value Graph.IR Graph.Eval Graph.Typing
  Model.MpcCompile.

(* mpc_compiler.rs:30 IOStatus *)
Inductive iostatus := IOPublic | IOParty (i : Z) | IOShared.
Definition iostatus_eqb (a b : iostatus) : bool :=
  match a, b with
  | IOPublic, IOPublic | IOShared, IOShared => true
  | IOParty i, IOParty j => i =? j
  | _, _ => false
  end.
#[global] Instance Eqb_iostatus : Eqb iostatus := iostatus_eqb.

(* vec[i] = x on a Vec: index out of range panics *)
Definition replace_nth_res {A} (l : list A) (i : Z) (x : A) : result (list A) :=
  let* _ := znth l i in
  let n := Z.to_nat i in
  Ok (firstn n l ++ [x] ++ skipn (S n) l).

(* mpc_compiler.rs:83 recursively_generate_node_shares with node_to_share = Some (node, status)
   (the None instance is [generate_zero_shares] of Model/MpcCompile.v) *)
Fixpoint generate_node_shares (t : ty) (prf_keys : list Z) (nid : Z) (status : iostatus) (out : list node)
         {struct t} : result (list node * list Z) :=
  match t with
  | TScalar _ | TArray _ _ =>
      let* (out1, random_shares) := mapS (fun key out => emit (OPRF 0 t) [key] [] out) prf_keys out in
      let* (out2, node_shares) :=
        mapS (fun i out =>
                let* a := znth random_shares i in
                let* b := znth random_shares ((i + 1) mod 3) in
                emit OSubtract [a; b] [] out) parties out1 in
      match status with                                        (* :103-116 *)
      | IOParty id =>
          let* s := znth node_shares id in
          let* (out3, s') := emit OAdd [s; nid] [] out2 in
          let* ns := replace_nth_res node_shares id s' in
          Ok (out3, ns)
      | IOPublic =>
          let* s := znth node_shares 0 in
          let* (out3, s') := emit OAdd [s; nid] [] out2 in
          let* ns := replace_nth_res node_shares 0 s' in
          Ok (out3, ns)
      | IOShared => Err                                        (* "Given node must belong to a party or be public" *)
      end
  | TTuple ts =>                                               (* :119 *)
      let* (out1, subs) :=
        (fix go (ts : list ty) (i : Z) (out : list node) : result (list node * list (list Z)) :=
           match ts with
           | [] => Ok (out, [])
           | st :: r =>
               let* (out0, sub) := emit (OTupleGet i) [nid] [] out in
               let* (out', s) := generate_node_shares st prf_keys sub status out0 in
               let* (out'', ss) := go r (i + 1) out' in
               Ok (out'', s :: ss)
           end) ts 0 out in
      mapS (fun party out => let* el := mapM (fun s => znth s party) subs in emit OCreateTuple el [] out)
           parties out1
  | TVector n et =>                                            (* :142 *)
      let* (out1, subs) :=
        (fix rep (k : nat) (i : Z) (out : list node) : result (list node * list (list Z)) :=
           match k with
           | O => Ok (out, [])
           | S k' =>
               let* (out00, i_node) := emit (OConstant (TScalar U64) (VArr [i])) [] [] out in
               let* (out0, sub) := emit OVectorGet [nid; i_node] [] out00 in
               let* (out', s) := generate_node_shares et prf_keys sub status out0 in
               let* (out'', ss) := rep k' (i + 1) out' in
               Ok (out'', s :: ss)
           end) (Z.to_nat n) 0 out in
      mapS (fun party out => let* el := mapM (fun s => znth s party) subs in emit (OCreateVector et) el [] out)
           parties out1
  | TNamed fs =>                                               (* :169 *)
      let* (out1, subs) :=
        (fix go (fs : list (string * ty)) (out : list node) : result (list node * list (list Z)) :=
           match fs with
           | [] => Ok (out, [])
           | f :: r =>
               let* (out0, sub) := emit (ONamedTupleGet (fst f)) [nid] [] out in
               let* (out', s) := generate_node_shares (snd f) prf_keys sub status out0 in
               let* (out'', ss) := go r out' in
               Ok (out'', s :: ss)
           end) fs out in
      mapS (fun party out =>
              let* el := mapM (fun s => znth s party) subs in
              emit (OCreateNamedTuple (map fst fs)) el [] out)
           parties out1
  end.

(* mpc_compiler.rs:198 get_node_shares with Some (node, status) *)
Definition get_node_shares (prf_keys : Z) (t : ty) (nid : Z) (status : iostatus) (out : list node)
  : result (list node * list Z) :=
  let* (out1, keys) := mapS (fun i out => emit (OTupleGet i) [prf_keys] [] out) parties out in
  generate_node_shares t keys nid status out1.

(* mpc_compiler.rs:747 share_node: the three shares, each behind a NOP annotated Send(i, i-1) *)
Definition share_node (nid prf_keys : Z) (status : iostatus) (out : list node) : result (list node * Z) :=
  let* t := out_ty out nid in
  let* (out1, node_shares) := get_node_shares prf_keys t nid status out in
  let* (out2, outputs) :=
    mapS (fun i out =>
            let* node_share := znth node_shares i in           (* .iter().enumerate().take(PARTIES) *)
            emit ONOP [node_share] [ASend i ((i + 3 - 1) mod 3)] out)
         (firstn (length node_shares) parties) out1 in
  emit OCreateTuple outputs [] out2.

(* mpc_compiler.rs:761 share_input *)
Definition share_input (t : ty) (prf_keys : Z) (status : iostatus) (out : list node) : result (list node * Z) :=
  let* (out1, plain_input) := emit (OInput t) [] [] out in
  share_node plain_input prf_keys status out1.

(* mpc_compiler.rs:770 generate_prf_key_triple *)
Definition generate_prf_key_triple (out : list node) : result (list node * list Z) :=
  mapS (fun party_id out =>
          let* (out1, key) := emit (ORandom key_t) [] [] out in
          emit ONOP [key] [ASend party_id ((party_id + 3 - 1) mod 3)] out1) parties out.

(* mpc_compiler.rs:736 contains_node_annotation *)
Definition contains_node_annotation (nodes : list node) (a : annot) : bool :=
  existsb (fun nd => existsb (annot_eqb a) (n_annots nd)) nodes.

(* x = x.nop() with a Send annotation, :815-824 *)
Definition resend (k : Z) (s r : Z) (out : list node) : result (list node * Z) := emit ONOP [k] [ASend s r] out.

(* mpc_compiler.rs:804-829 the PRF keys for B2A.  (Not reachable from the programs [mpc_mirrored]
   accepts: B2A is not mirrored; kept for the shape of share_all_inputs.) *)
Definition b2a_keys (out : list node) : result (list node * Z) :=
  let* (o1, k0) := generate_prf_key_triple out in
  let* (o2, k1) := generate_prf_key_triple o1 in
  let* k10 := znth k1 0 in let* (o3, k10') := resend k10 0 1 o2 in
  let* k01 := znth k0 1 in let* (o4, k01') := resend k01 1 2 o3 in
  let* k11 := znth k1 1 in let* (o5, k11') := resend k11 1 2 o4 in
  let* k02 := znth k0 2 in let* (o6, k02') := resend k02 2 0 o5 in
  let* k00 := znth k0 0 in let* k12 := znth k1 2 in
  let* (o7, t0) := emit OCreateTuple [k00; k01'; k02'] [] o6 in
  let* (o8, t1) := emit OCreateTuple [k10'; k11'; k12] [] o7 in
  emit OCreateTuple [t0; t1] [] o8.

(* mpc_compiler.rs:838-863 the loop of share_all_inputs over the nodes of the source graph *)
Fixpoint share_inputs_loop (nodes : list node) (input_party_map : list iostatus) (prf_keys : Z) (out : list node)
  : result (list node * list Z) :=
  match nodes with
  | [] => Ok (out, [])
  | nd :: r =>
      match n_op nd with
      | OInput t =>
          match input_party_map with
          | [] => Panic                                        (* input_party_map[input_id] *)
          | st :: sts =>
              let* (out1, shared_input) :=
                match st with
                | IOParty _ => share_input t prf_keys st out
                | IOShared => emit (OInput (TTuple [t; t; t])) [] [] out
                | IOPublic => emit (OInput t) [] [] out
                end in
              let* (out2, rest) := share_inputs_loop r sts prf_keys out1 in
              Ok (out2, shared_input :: rest)
          end
      | _ => share_inputs_loop r input_party_map prf_keys out
      end
  end.

(* mpc_compiler.rs:783 share_all_inputs *)
Definition share_all_inputs (nodes : list node) (input_party_map : list iostatus) (prf_keys : Z)
           (mul_needed b2a_needed truncate_needed : bool) (out : list node) : result (list node * list Z) :=
  let shared0 := if mul_needed then [prf_keys] else [] in
  let* (out1, shared1) :=
    if b2a_needed then let* (o, k) := b2a_keys out in Ok (o, shared0 ++ [k]) else Ok (out, shared0) in
  let* (out2, shared2) :=
    if truncate_needed then let* (o, k) := emit (ORandom key_t) [] [] out1 in Ok (o, shared1 ++ [k])
    else Ok (out1, shared1) in
  let* (out3, ins) := share_inputs_loop nodes input_party_map prf_keys out2 in
  Ok (out3, shared2 ++ ins).

(* graphs.rs:3001 Graph::call: one Call node with the graph dependency [gid]; its type by the Call rule
   type_inference.rs:1349: as many arguments as the callee has Input nodes, with these types; the
   result type is the type of the callee's output node *)
Definition input_types (nodes : list node) : list ty :=
  flat_map (fun nd => match n_op nd with OInput t => [t] | _ => [] end) nodes.
Definition emit_call (gid : Z) (callee : list node) (callee_out : Z) (args : list Z) (out : list node)
  : result (list node * Z) :=
  let* ts := mapM (out_ty out) args in
  let its := input_types callee in
  if negb (zlen args =? zlen its) then Err else
  if negb (list_eqb ty_eqb its ts) then Err else
  let* t0 := out_ty callee callee_out in
  let* t := register t0 in
  Ok (out ++ [mkNode OCall args [gid] [] t], zlen out).

(* mpc_compiler.rs:943-959 forwarding of the revealed value: a chain of NOP nodes annotated
   Send(party_id, (party_id + i) % PARTIES), i = 1, 2, for the listed parties, then a plain NOP *)
Definition forward_revealed (party_id : Z) (output_parties : list iostatus) (revealed : Z) (out : list node)
  : result (list node * Z) :=
  let* (out1, send_node) :=
    fold_left (fun acc i =>
                 let* (out, send_node) := acc in
                 let party_to_send_id := (party_id + i) mod 3 in
                 if existsb (iostatus_eqb (IOParty party_to_send_id)) output_parties
                 then emit ONOP [send_node] [ASend party_id party_to_send_id] out
                 else Ok (out, send_node)) [1; 2] (Ok (out, revealed)) in
  emit ONOP [send_node] [] out1.                               (* "Output node can't have Send annotation" *)

(* mpc_compiler.rs:921 reveal_output *)
Definition reveal_output (out_node : Z) (output_parties : list iostatus) (out : list node) : result (list node * Z) :=
  match output_parties with
  | [] => Ok (out, out_node)
  | first :: _ =>
      let* (out1, shares) := mapS (fun i out => emit (OTupleGet i) [out_node] [] out) parties out in
      match first with
      | IOParty party_id =>
          let prev_party_id := (party_id + 3 - 1) mod 3 in
          let* sp := znth shares prev_party_id in
          let* (out2, missing_share) := emit ONOP [sp] [ASend prev_party_id party_id] out1 in
          let* shares_to_reveal := replace_nth_res shares prev_party_id missing_share in
          let* s0 := znth shares_to_reveal 0 in
          let* t := out_ty out2 s0 in
          let* (out3, revealed_node) := sum_shares t shares_to_reveal out2 in
          if 1 <? zlen output_parties then forward_revealed party_id output_parties revealed_node out3
          else Ok (out3, revealed_node)
      | _ => Panic                                             (* "Shouldn't be here" *)
      end
  end.

(* mpc_compiler.rs:972 compile_to_mpc_context on a context with one graph (its nodes [nodes], output
   node [output]): the computation graph and its output id, the main graph and its output id *)
Definition compile_to_mpc_context (nodes : list node) (output : Z) (input_party_map output_parties : list iostatus)
  : result ((list node * Z) * (list node * Z)) :=
  let is_input_private := map (fun s => negb (iostatus_eqb s IOPublic)) input_party_map in
  let* (cg, coo) := compile_graph nodes output is_input_private in
  (* the new graph; :996 the PRF keys for zero sharing *)
  let* (m1, keys_vec) := generate_prf_key_triple [] in
  let* (m2, prf_keys) := emit OCreateTuple keys_vec [] m1 in
  let mul_needed := contains_node_annotation cg APRFMultiplication in
  let b2a_needed := contains_node_annotation cg APRFB2A in
  let truncate_needed := contains_node_annotation cg APRFTruncate in
  let* (m3, shared_input) := share_all_inputs nodes input_party_map prf_keys mul_needed b2a_needed truncate_needed m2 in
  let* (m4, shared_result) := emit_call 0 cg coo shared_input m3 in
  let* m5 := add_annotation shared_result AMpcCall m4 in
  let* out_node := znth cg coo in
  let is_output_private := existsb (annot_eqb APrivate) (n_annots out_node) in
  let* (m6, result) :=
    if is_output_private then reveal_output shared_result output_parties m5
    else match output_parties with
         | [] => let* (m, nd) := share_node shared_result prf_keys (IOParty 0) m5 in
                 let* m' := add_annotation nd APrivate m in Ok (m', nd)
         | _ => Ok (m5, shared_result)
         end in
  Ok ((cg, coo), (m6, result)).

(* mpc_compiler.rs:1056 compile_to_mpc: the checks of the party ids, then compile_to_mpc_context *)
Definition compile_to_mpc (nodes : list node) (output : Z) (input_party_map output_parties : list iostatus)
  : result ((list node * Z) * (list node * Z)) :=
  if existsb (fun s => match s with IOParty id => 3 <=? id | _ => false end) input_party_map then Err else
  if existsb (fun s => match s with IOParty id => 3 <=? id | _ => true end) output_parties then Err else
  compile_to_mpc_context nodes output input_party_map output_parties.

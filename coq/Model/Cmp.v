(* C16 model: comparison custom operations of ops/comparisons.rs, Min/Max of ops/min_max.rs and
   the bit case of Mux of ops/multiplexer.rs.  Definitions only; proofs are in Proofs/CmpProofs.v.

   One bit string is a [list bool], LSB first: position i of the list is index i of the last
   array dimension and has weight 2^i (the layout produced by A2B and by
   Value::from_flattened_array on an integer type read back as BIT).  All graph operations used
   by the instantiated graphs act elementwise on the other (broadcast) dimensions, so the model
   follows one pair of operand bit strings; after [pull_out_bits] (ops/utils.rs:49) the bit
   dimension is the outermost one, i.e. exactly the list dimension here: list position k is
   index [k] of the pulled-out array.  Addition and multiplication of BIT values are xor and and. *)
From CC Require Import Base.Prelude.

Definition bits := list bool.

(* ------------------------------------------------------------------ integer readings (spec side) *)
Fixpoint unsigned (a : bits) : Z :=
  match a with [] => 0 | b :: r => Z.b2z b + 2 * unsigned r end.
(* most significant bit: the last index of the bit dimension *)
Definition msb (a : bits) : bool := last a false.
(* two's complement: the most significant bit has weight -2^(n-1) *)
Definition signed (a : bits) : Z :=
  unsigned a - (if msb a then 2 ^ Z.of_nat (length a) else 0).
Definition reading (sg : bool) (a : bits) : Z := if sg then signed a else unsigned a.

(* ------------------------------------------------------------------ ComparisonResult *)
(* comparisons.rs:107 ComparisonResult, for one bit position: the pair (a' == b', a') *)
Record cres : Type := mk_cres { a_equal_b : bool; c_a : bool }.

#[global] Instance Eqb_cres : Eqb cres :=
  fun x y => Bool.eqb (a_equal_b x) (a_equal_b y) && Bool.eqb (c_a x) (c_a y).

(* comparisons.rs:118 from_a_b, one position: a_equal_b = a + b + 1, a = a *)
Definition from_a_b1 (a b : bool) : cres :=
  {| a_equal_b := xorb (xorb a b) true; c_a := a |}.
(* comparisons.rs:118 from_a_b on the pulled-out arrays; the two bit dimensions are equal
   (utils.rs:25), a mismatch would be a failed broadcast in [add] *)
Fixpoint from_a_b (a b : bits) : result (list cres) :=
  match a, b with
  | [], [] => Ok []
  | x :: xs, y :: ys => let* r := from_a_b xs ys in Ok (from_a_b1 x y :: r)
  | _, _ => Err
  end.

(* comparisons.rs:132 join, one position; [rhs] has priority:
   a = self.a * rhs.a_equal_b + rhs.a * (rhs.a_equal_b + 1);  a_equal_b = self.a_equal_b * rhs.a_equal_b *)
Definition join1 (self rhs : cres) : cres :=
  {| a_equal_b := andb (a_equal_b self) (a_equal_b rhs);
     c_a := xorb (andb (c_a self) (a_equal_b rhs))
                 (andb (c_a rhs) (xorb (a_equal_b rhs) true)) |}.
(* comparisons.rs:132 join on arrays along the bit dimension (elementwise multiply/add; unequal
   lengths do not broadcast) *)
Fixpoint join (l1 l2 : list cres) : result (list cres) :=
  match l1, l2 with
  | [], [] => Ok []
  | x :: xs, y :: ys => let* r := join xs ys in Ok (join1 x y :: r)
  | _, _ => Err
  end.

(* get_slice [start : bit_len : 2] on a list that starts at [start] *)
Fixpoint every_second {A} (l : list A) : list A :=
  match l with
  | [] => []
  | x :: r => x :: match r with [] => [] | _ :: r' => every_second r' end
  end.
(* comparisons.rs:175 sub_slice: every second element starting from start_offset (bit_len = length) *)
Definition sub_slice {A} (start_offset : nat) (l : list A) : list A :=
  every_second (skipn start_offset l).

(* comparisons.rs:112 ShrinkResult *)
Record shrink_result : Type :=
  mk_shrink { shrinked : option (list cres); remainder : option cres }.

(* comparisons.rs:149 shrink.  offset = bit_len % 2; remainder = element [0] when odd;
   shrinked = sub_slice(offset).join(sub_slice(offset+1)) when bit_len > 1 *)
Definition shrink (l : list cres) : result shrink_result :=
  let bit_len := length l in
  let offset := if Nat.even bit_len then O else 1%nat in
  let* rem :=
    match offset with
    | O => Ok None
    | _ => match l with [] => Panic (* get(vec![0]) *) | x :: _ => Ok (Some x) end
    end in
  let* shr :=
    if (bit_len <=? 1)%nat then Ok None
    else let* j := join (sub_slice offset l) (sub_slice (offset + 1) l) in Ok (Some j) in
  Ok {| shrinked := shr; remainder := rem |}.

(* comparisons.rs:237-249 the shrink loop: remainders are pushed in the order found.  The loop has
   no structural bound in the source: explicit fuel. *)
Fixpoint build_loop (fuel : nat) (to_shrink : list cres) (remainders : list cres)
  : result (list cres) :=
  match fuel with
  | O => OutOfFuel
  | S f =>
      let* sr := shrink to_shrink in
      let remainders :=
        match remainder sr with Some r => remainders ++ [r] | None => remainders end in
      match shrinked sr with
      | Some s => build_loop f s remainders
      | None => Ok remainders
      end
  end.

(* comparisons.rs:234 build_comparison_graph: res = remainders[0]; res = res.join(r) for the rest *)
Definition build_comparison_graph (a b : bits) : result cres :=
  let* to_shrink := from_a_b a b in
  let* remainders := build_loop (S (length to_shrink)) to_shrink [] in
  match remainders with
  | [] => Panic (* remainders[0] *)
  | r0 :: rest => Ok (fold_left join1 rest r0)
  end.

(* ------------------------------------------------------------------ post-processors *)
(* custom_ops Not: x + 1 *)
Definition not_bit (x : bool) : bool := xorb x true.
(* comparisons.rs:196-226 *)
Definition cr_not_a (r : cres) := not_bit (c_a r).
Definition cr_equal (r : cres) := a_equal_b r.
Definition cr_not_equal (r : cres) := not_bit (cr_equal r).
Definition cr_less_than (r : cres) := andb (cr_not_a r) (cr_not_equal r).
Definition cr_greater_than (r : cres) := andb (c_a r) (cr_not_equal r).
Definition cr_greater_than_equal_to (r : cres) := not_bit (cr_less_than r).
Definition cr_less_than_equal_to (r : cres) := not_bit (cr_greater_than r).

Inductive cmp_op : Type :=
| OpEqual | OpNotEqual | OpLessThan | OpGreaterThan | OpLessThanEqualTo | OpGreaterThanEqualTo.
Definition post_process (op : cmp_op) (r : cres) : bool :=
  match op with
  | OpEqual => cr_equal r
  | OpNotEqual => cr_not_equal r
  | OpLessThan => cr_less_than r
  | OpGreaterThan => cr_greater_than r
  | OpLessThanEqualTo => cr_less_than_equal_to r
  | OpGreaterThanEqualTo => cr_greater_than_equal_to r
  end.

(* ------------------------------------------------------------------ signed mode *)
(* elementwise add of two BIT arrays of one dimension *)
Fixpoint add_bits (a b : bits) : result bits :=
  match a, b with
  | [], [] => Ok []
  | x :: xs, y :: ys => let* r := add_bits xs ys in Ok (xorb x y :: r)
  | _, _ => Err
  end.
(* comparisons.rs:338 get_msb_flip_constant: msb_mask = vec![0; n]; msb_mask[n - 1] = 1 *)
Definition msb_flip_constant (n : nat) : result bits :=
  match n with O => Panic | S k => Ok (repeat false k ++ [true]) end.
(* comparisons.rs:331 flip_msb: ip + mask *)
Definition flip_msb (ip : bits) : result bits :=
  let* m := msb_flip_constant (length ip) in add_bits ip m.
(* comparisons.rs:356 preprocess_input (pull_out_bits is the identity on one bit string) *)
Definition preprocess_input (signed_comparison : bool) (x : bits) : result bits :=
  if signed_comparison then flip_msb x else Ok x.

(* comparisons.rs:389 instantiate_comparison_custom_op on one pair of bit strings.
   A bit dimension of 0 is not a valid array shape (data_types.rs:514): the input node is an error. *)
Definition cmp_custom_op (op : cmp_op) (signed_comparison : bool) (a b : bits) : result bool :=
  if (length a =? 0)%nat || (length b =? 0)%nat then Err else
  (* utils.rs:25 validate_arguments_in_broadcast_bit_ops *)
  if negb (length a =? length b)%nat then Err else
  (* comparisons.rs:375 validate_signed_arguments *)
  if signed_comparison && ((length a <? 2)%nat || (length b <? 2)%nat) then Err else
  let* a' := preprocess_input signed_comparison a in
  let* b' := preprocess_input signed_comparison b in
  let* r := build_comparison_graph a' b' in
  Ok (post_process op r).

(* comparisons.rs:449-747 the six custom operations; Equal and NotEqual have no signed mode *)
Definition equal (a b : bits) := cmp_custom_op OpEqual false a b.
Definition not_equal (a b : bits) := cmp_custom_op OpNotEqual false a b.
Definition less_than (sg : bool) (a b : bits) := cmp_custom_op OpLessThan sg a b.
Definition greater_than (sg : bool) (a b : bits) := cmp_custom_op OpGreaterThan sg a b.
Definition less_than_equal_to (sg : bool) (a b : bits) := cmp_custom_op OpLessThanEqualTo sg a b.
Definition greater_than_equal_to (sg : bool) (a b : bits) := cmp_custom_op OpGreaterThanEqualTo sg a b.

(* ------------------------------------------------------------------ Mux, Min, Max *)
(* multiplexer.rs:70-73 (BIT choices): choice0 + flag * (choice0 + choice1) *)
Definition mux_bit (flag choice1 choice0 : bool) : bool :=
  xorb choice0 (andb flag (xorb choice0 choice1)).
(* the flag of one comparison is reshaped to [..., 1] (min_max.rs:56) and broadcast along the bits *)
Fixpoint mux (flag : bool) (choice1 choice0 : bits) : result bits :=
  match choice1, choice0 with
  | [], [] => Ok []
  | x :: xs, y :: ys => let* r := mux flag xs ys in Ok (mux_bit flag x y :: r)
  | _, _ => Err
  end.
(* min_max.rs:70 Min: Mux(GreaterThan(i1,i2), i2, i1) *)
Definition min_op (sg : bool) (i1 i2 : bits) : result bits :=
  let* cmp := greater_than sg i1 i2 in mux cmp i2 i1.
(* min_max.rs:136 Max: Mux(GreaterThan(i1,i2), i1, i2) *)
Definition max_op (sg : bool) (i1 i2 : bits) : result bits :=
  let* cmp := greater_than sg i1 i2 in mux cmp i1 i2.

(* ------------------------------------------------------------------ tie helpers *)
(* the custom operation named by the harness: 0 Equal, 1 NotEqual, 2 LessThan, 3 GreaterThan,
   4 LessThanEqualTo, 5 GreaterThanEqualTo (Equal/NotEqual ignore [sg], as in the source) *)
Definition cmp_by_id (id : N) (sg : bool) (a b : bits) : result bool :=
  match id with
  | 0%N => equal a b
  | 1%N => not_equal a b
  | 2%N => less_than sg a b
  | 3%N => greater_than sg a b
  | 4%N => less_than_equal_to sg a b
  | _ => greater_than_equal_to sg a b
  end.
(* a Min/Max result as (number of bits, unsigned value) *)
Definition enc (r : bits) : nat * Z := (length r, unsigned r).
(* bits of x, n positions, LSB first (how the harness writes operands compactly) *)
Fixpoint bits_of (n : nat) (x : Z) : bits :=
  match n with O => [] | S k => Z.odd x :: bits_of k (x / 2) end.
(* one operation over a list of operand pairs (the harness expands broadcasting to pairs) *)
Definition map_pairs {R} (f : bits -> bits -> result R) (n : nat) (ps : list (Z * Z))
  : result (list R) :=
  mapM (fun p => f (bits_of n (fst p)) (bits_of n (snd p))) ps.

(* the eight operations on the same operand pairs: the six comparisons in the order of
   [cmp_by_id], then Min and Max (one correspondence case = eight instantiated Rust graphs) *)
Definition all_ops (sg : bool) (n : nat) (ps : list (Z * Z))
  : list (result (list bool)) * list (result (list (nat * Z))) :=
  (map (fun id => map_pairs (cmp_by_id id sg) n ps) [0; 1; 2; 3; 4; 5]%N,
   [rmap (map enc) (map_pairs (min_op sg) n ps); rmap (map enc) (map_pairs (max_op sg) n ps)]).
(* the same on one pair of bit strings of possibly different lengths (malformed stream) *)
Definition all_ops_on (sg : bool) (a b : bits)
  : list (result bool) * list (result (nat * Z)) :=
  (map (fun id => cmp_by_id id sg a b) [0; 1; 2; 3; 4; 5]%N,
   [rmap enc (min_op sg a b); rmap enc (max_op sg a b)]).

(* T-ties for C16/C17: the REAL instantiated (and inlined) graph of a custom operation, exported
   from /repo on every run, is evaluated by Graph/Eval.v inside Coq on ALL operand pairs of a
   small width and compared with the proved model (Model/Cmp.v, Model/Adder.v).  A finite proof
   about the real graph, per width, re-checked on every run. *)
From CC Require Import Base.Prelude Base.Scalar Base.Ty Base.Shape Graph.Value Graph.IR Graph.Eval
  Model.Cmp.

Definition b2z (b : bool) : Z := if b then 1 else 0.
Definition bits_val (w : nat) (x : Z) : value := VArr (map b2z (bits_of w x)).

(* run the exported graph on the two operands (input node ids in0, in1) and read node [out] *)
Definition run_graph2 (nodes : list node) (in0 in1 out : Z) (a b : value) : result value :=
  let* vals := eval_graph_nodes nodes (tape_of_list [(in0, a); (in1, b)]) in
  znth vals out.

Definition graph_cmp_exhaustive (nodes : list node) (in0 in1 out : Z) (w : nat) (id : N) (sg : bool) : bool :=
  let dom := zrange (2 ^ Z.of_nat w) in
  forallb (fun a => forallb (fun b =>
    match run_graph2 nodes in0 in1 out (bits_val w a) (bits_val w b),
          cmp_by_id id sg (bits_of w a) (bits_of w b) with
    | Ok (VArr [x]), Ok r => x =? b2z r
    | Err, Err => true
    | _, _ => false
    end) dom) dom.

Definition graph_minmax_exhaustive (nodes : list node) (in0 in1 out : Z) (w : nat) (is_max sg : bool) : bool :=
  let dom := zrange (2 ^ Z.of_nat w) in
  forallb (fun a => forallb (fun b =>
    match run_graph2 nodes in0 in1 out (bits_val w a) (bits_val w b),
          (if is_max then max_op sg else min_op sg) (bits_of w a) (bits_of w b) with
    | Ok (VArr xs), Ok r => list_eqb Z.eqb xs (map b2z r)
    | Err, Err => true
    | _, _ => false
    end) dom) dom.

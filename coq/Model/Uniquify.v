(* C04 model: PRF counter renumbering (mpc_compiler.rs:1103-1157, graphs.rs:255-263) and the
   observations on PRF / randomising nodes used by the freshness statements. *)
From CC Require Import Base.Prelude Base.Scalar Base.Ty Base.Shape Graph.Value Graph.IR.

(* graphs.rs:255 update_prf_id *)
Definition update_prf_id (o : op) (id : Z) : op :=
  match o with
  | OPRF _ t => OPRF id t
  | OPermutationFromPRF _ n => OPermutationFromPRF id n
  | o => o
  end.

(* one counter threaded through all nodes of all graphs of the context, in order *)
Definition set_iv (nd : node) (id : Z) : node :=
  mkNode (update_prf_id (n_op nd) id) (n_deps nd) (n_gdeps nd) (n_annots nd) (n_ty nd).
Definition uniq_step (acc : list node * Z) (nd : node) : list node * Z :=
  let '(out, c) := acc in
  if is_prf_operation (n_op nd) then (out ++ [set_iv nd (c + 1)], c + 1) else (out ++ [nd], c).
Definition uniquify_nodes (start : Z) (nodes : list node) : list node * Z :=
  fold_left uniq_step nodes ([], start).

Definition uniquify_graphs (gs : list (list node)) : list (list node) :=
  fst (fold_left (fun (acc : list (list node) * Z) nodes =>
                    let '(out, c) := acc in
                    let '(nodes', c') := uniquify_nodes c nodes in
                    (out ++ [nodes'], c'))
                 gs ([], 0)).

Definition prf_iv (o : op) : option Z :=
  match o with OPRF iv _ | OPermutationFromPRF iv _ => Some iv | _ => None end.
Fixpoint prf_ivs (nodes : list node) : list Z :=
  match nodes with
  | [] => []
  | nd :: r => match prf_iv (n_op nd) with Some iv => iv :: prf_ivs r | None => prf_ivs r end
  end.
Fixpoint nodup_zb (l : list Z) : bool :=
  match l with [] => true | x :: r => negb (existsb (Z.eqb x) r) && nodup_zb r end.
(* decision procedure run on exported compiler output: no two PRF nodes share a counter *)
Definition nodup_ivs (nodes : list node) : bool := nodup_zb (prf_ivs nodes).

(* nodes that draw fresh randomness or evaluate a PRF *)
Definition is_fresh_op (o : op) : bool :=
  match o with
  | ORandom _ | ORandomPermutation _ | OCuckooToPermutation | ODecomposeSwitchingMap _
  | OPRF _ _ | OPermutationFromPRF _ _ => true
  | _ => false
  end.

(* decision procedure run on the exported (old graph, optimised graph, mapping): every mapped
   fresh node is mapped to a node with the same operation, no two fresh nodes share an image,
   and the output contains no fresh node that is not such an image *)
Definition fresh_check (old new : list node) (m : list (option Z)) : bool :=
  let pairs := combine old m in
  let imgs := flat_map (fun p => match snd p with
                                 | Some j => if is_fresh_op (n_op (fst p)) then [j] else []
                                 | None => [] end) pairs in
  forallb (fun p => match snd p with
                    | Some j => if is_fresh_op (n_op (fst p))
                                then match znth new j with Ok nd => op_eqb (n_op nd) (n_op (fst p)) | _ => false end
                                else true
                    | None => true end) pairs
  && nodup_zb imgs
  && forallb (fun q => let '(j, nd) := q in
                       if is_fresh_op (n_op nd) then existsb (Z.eqb j) imgs else true)
             (combine (zrange (Z.of_nat (length new))) new).

(* C06/C04 model: the four optimizer passes on fully inlined graphs, each returning the new node
   list, the old->new node map and the new output.  Mirrors optimizer/constant_optimizer.rs:38-128,
   meta_operation_optimizer.rs:36-330, duplicates_optimizer.rs:8-121,
   dangling_nodes_optimizer.rs:10-53 and optimize.rs:16-61.  Node names are not modelled. *)
From CC Require Import Base.Prelude Base.Scalar Base.Ty Base.Shape Graph.Value Graph.IR Graph.Eval.

Record pass_out := mkPassOut {
  po_nodes : list node;
  po_map : list (option Z);      (* indexed by old node id *)
  po_output : option Z
}.

Definition map_get (m : list (option Z)) (i : Z) : result Z :=
  match znth m i with Ok (Some j) => Ok j | Ok None => Panic (* "Node is not found in node_mapping" *) | _ => Panic end.

Definition node_ty_at (nodes : list node) (i : Z) : result ty := let* n := znth nodes i in Ok (n_ty n).

(* ------------------------------------------------------------------ constants *)
Record const_state := mkCS {
  cs_out : list node;
  cs_map : list (option Z);
  cs_cache : list ((ty * value) * Z);       (* (type, value) -> new constant node *)
  cs_consts : list (Z * value);             (* old node id -> its constant value *)
  cs_output : option Z
}.

Definition cache_find (c : list ((ty * value) * Z)) (t : ty) (v : value) : option Z :=
  match find (fun p => ty_eqb (fst (fst p)) t && value_eqb (snd (fst p)) v) c with
  | Some p => Some (snd p) | None => None end.
Definition consts_find (c : list (Z * value)) (i : Z) : option value :=
  match find (fun p => fst p =? i) c with Some p => Some (snd p) | None => None end.

(* constant_optimizer.rs:54 resolve_const *)
Definition resolve_const (s : const_state) (t : ty) (v : value) : const_state * Z :=
  match cache_find (cs_cache s) t v with
  | Some j => (s, j)
  | None =>
      let j := Z.of_nat (length (cs_out s)) in
      (mkCS (cs_out s ++ [mkNode (OConstant t v) [] [] [] t]) (cs_map s)
            (cs_cache s ++ [((t, v), j)]) (cs_consts s) (cs_output s), j)
  end.

Definition opt_const_step (old_output : option Z) (acc : result (const_state * Z)) (nd : node)
  : result (const_state * Z) :=
  let* (s, i) := acc in
  if negb (match n_gdeps nd with [] => true | _ => false end) then Err else
  let* (s', j) :=
    match n_op nd with
    | OConstant t v =>
        if negb (match n_annots nd with [] => true | _ => false end) then Err else
        let s1 := mkCS (cs_out s) (cs_map s) (cs_cache s) (cs_consts s ++ [(i, v)]) (cs_output s) in
        Ok (resolve_const s1 t v)
    | o =>
        let* c0 := is_const_optimizable o in
        let* deps' := mapM (map_get (cs_map s)) (n_deps nd) in
        let all_const := forallb (fun d => match consts_find (cs_consts s) d with Some _ => true | None => false end) (n_deps nd) in
        if c0 && all_const && (match n_annots nd with [] => true | _ => false end) then
          let dep_vals := map (fun d => match consts_find (cs_consts s) d with Some v => v | None => VArr [] end) (n_deps nd) in
          let* dts := mapM (fun d => let* j := map_get (cs_map s) d in node_ty_at (cs_out s) j) (n_deps nd) in
          let* v := eval_node o dts (n_ty nd) dep_vals in
          let s1 := mkCS (cs_out s) (cs_map s) (cs_cache s) (cs_consts s ++ [(i, v)]) (cs_output s) in
          Ok (resolve_const s1 (n_ty nd) v)
        else
          let j := Z.of_nat (length (cs_out s)) in
          Ok (mkCS (cs_out s ++ [mkNode o deps' [] (n_annots nd) (n_ty nd)]) (cs_map s)
                   (cs_cache s) (cs_consts s) (cs_output s), j)
    end in
  let out := if eqb old_output (Some i) then Some j else cs_output s' in
  Ok (mkCS (cs_out s') (cs_map s' ++ [Some j]) (cs_cache s') (cs_consts s') out, i + 1).

Definition opt_const (nodes : list node) (output : option Z) : result pass_out :=
  let* (s, _) := fold_left (opt_const_step output) nodes (Ok (mkCS [] [] [] [] None, 0)) in
  Ok (mkPassOut (cs_out s) (cs_map s) (cs_output s)).

(* ------------------------------------------------------------------ meta operations *)
Inductive proxy :=
| PNumber (n : Z)
| PUnknown
| PA2V (arr : Z)
| PTuple (l : list (proxy * Z))
| PNamed (l : list (string * (proxy * Z)))
| PZip (l : list (proxy * Z))
| PVector (l : list (proxy * Z))
| PA2B (n : Z)
| PB2A (n : Z).
Definition pw := (proxy * Z)%type.           (* ProxyObjectWithNode: meta, node (new id) *)

Record meta_state := mkMS {
  ms_out : list node;
  ms_map : list (option Z);
  ms_meta : list (Z * pw);                   (* old node id -> proxy *)
  ms_output : option Z
}.
Definition meta_find (m : list (Z * pw)) (i : Z) : option pw :=
  match find (fun p => fst p =? i) m with Some p => Some (snd p) | None => None end.

Definition emit (out : list node) (nd : node) : list node * Z := (out ++ [nd], Z.of_nat (length out)).

(* types of nodes created through the ordinary builder inside the meta pass *)
Definition get_type (t : ty) (index : Z) : result ty :=
  match t with
  | TArray (d :: rest) st =>
      if (index <? 0) || (d <=? index) then Err else
      Ok (match rest with [] => TScalar st | _ => TArray rest st end)
  | _ => Err
  end.
Definition vector_elem_type (t : ty) : result ty :=
  match t with TVector _ e => Ok e | _ => Err end.

(* meta_operation_optimizer.rs:262 maybe_vector_get *)
Fixpoint maybe_vector_get (fuel : nat) (out : list node) (obj : pw) (index : Z) (index_node : Z)
  : result (list node * option pw) :=
  match fuel with
  | O => OutOfFuel
  | S f =>
      match fst obj with
      | PVector l =>
          (* element_ptrs.get(index): an out-of-range constant index leaves the node alone *)
          match znth l index with Ok e => Ok (out, Some e) | _ => Ok (out, None) end
      | PA2V arr =>
          let* at_ := node_ty_at out arr in
          (* rank 1: Get [index]; rank > 1: GetSlice [SingleIndex(index as i64), ...], where the
             cast reinterprets indices >= 2^63 as negative ones (counted from the end) *)
          let si := if (length (dims at_) =? 1)%nat then index
                    else if 2 ^ 63 <=? index then index - 2 ^ 64 else index in
          let* rt := get_type at_ (if si <? 0 then si + hd 0 (dims at_) else si) in
          let o := if (length (dims at_) =? 1)%nat then OGet [index] else OGetSlice [SSingle si; SEllipsis] in
          let '(out', j) := emit out (mkNode o [arr] [] [] rt) in
          Ok (out', Some (PUnknown, j))
      | PUnknown =>
          let* vt := node_ty_at out (snd obj) in
          let* et := vector_elem_type vt in
          let '(out', j) := emit out (mkNode OVectorGet [snd obj; index_node] [] [] et) in
          Ok (out', Some (PUnknown, j))
      | PZip vecs =>
          let* (out', sliced, ok) :=
            fold_left (fun acc v =>
                         let* (o, sl, ok) := acc in
                         if negb ok then Ok (o, sl, ok) else
                         let* (o', r) := maybe_vector_get f o v index index_node in
                         match r with
                         | Some e => Ok (o', sl ++ [e], true)
                         | None => Ok (o', sl, false)
                         end)
                      vecs (Ok (out, [], true)) in
          if ok then
            let* tys := mapM (fun e => node_ty_at out' (snd e)) sliced in
            let '(out'', j) := emit out' (mkNode OCreateTuple (map snd sliced) [] [] (TTuple tys)) in
            Ok (out'', Some (PTuple sliced, j))
          else Ok (out', None)
      | _ => Ok (out, None)
      end
  end.

Definition add_annots (out : list node) (j : Z) (anns : list annot) : result (list node) :=
  match anns with
  | [] => Ok out
  | _ => let* nd := znth out j in
         upd out j (mkNode (n_op nd) (n_deps nd) (n_gdeps nd) (n_annots nd ++ anns) (n_ty nd))
  end.

Definition opt_meta_step (old_output : option Z) (acc : result (meta_state * Z)) (nd : node)
  : result (meta_state * Z) :=
  let* (s, i) := acc in
  if negb (match n_gdeps nd with [] => true | _ => false end) then Err else
  let* deps := mapM (map_get (ms_map s)) (n_deps nd) in
  let meta_deps := map (meta_find (ms_meta s)) (n_deps nd) in
  let all_meta := forallb (fun x => match x with Some _ => true | None => false end) meta_deps in
  let '(out1, simple) := emit (ms_out s) (mkNode (n_op nd) deps [] [] (n_ty nd)) in
  let element k := match nth k meta_deps None with Some m => m | None => (PUnknown, nth k deps 0) end in
  let elements := map element (seq 0 (length deps)) in
  let* (out2, meta_node) :=
    match n_op nd with
    | OConstant t v =>
        match t, v with
        | TScalar U64, VArr [x] => Ok (out1, Some (PNumber x, simple))
        | _, _ => Ok (out1, None)
        end
    | OArrayToVector => Ok (out1, Some (PA2V (nth 0 deps 0), simple))
    | OA2B =>
        let node := match nth 0 meta_deps None with Some (PB2A b, _) => b | _ => simple end in
        Ok (out1, Some (PA2B (nth 0 deps 0), node))
    | OB2A st =>
        let* node :=
          match nth 0 meta_deps None with
          | Some (PA2B a, _) =>
              let* at_ := node_ty_at out1 a in
              Ok (if scalar_eqb st (st_of at_) then a else simple)
          | _ => Ok simple
          end in
        Ok (out1, Some (PB2A (nth 0 deps 0), node))
    | OCreateNamedTuple names => Ok (out1, Some (PNamed (combine names elements), simple))
    | OCreateTuple => Ok (out1, Some (PTuple elements, simple))
    | OCreateVector _ => Ok (out1, Some (PVector elements, simple))
    | OZip => Ok (out1, Some (PZip elements, simple))
    | o =>
        if all_meta then
          match o with
          | ONamedTupleGet name =>
              match elements with
              | [(PNamed l, _)] =>
                  (* HashMap insert: a later duplicate name overwrites; element_ptrs[&name] panics if absent *)
                  match find (fun p => String.eqb (fst p) name) (rev l) with
                  | Some p => Ok (out1, Some (snd p))
                  | None => Panic
                  end
              | [_] => Ok (out1, None)
              | _ => Err
              end
          | OTupleGet index =>
              match elements with
              | [(PTuple l, _)] => let* e := znth l index in Ok (out1, Some e)
              | [_] => Ok (out1, None)
              | _ => Err
              end
          | OVectorGet =>
              match elements with
              | [obj; (PNumber index, inode)] => maybe_vector_get (S (length out1)) out1 obj index inode
              | [_; _] => Ok (out1, None)
              | _ => Err
              end
          | _ => Ok (out1, None)
          end
        else Ok (out1, None)
    end in
  let new_node := match meta_node with Some m => snd m | None => simple end in
  let meta' := match meta_node with Some m => ms_meta s ++ [(i, m)] | None => ms_meta s end in
  let* out3 := add_annots out2 new_node (n_annots nd) in
  let out := if eqb old_output (Some i) then Some new_node else ms_output s in
  Ok (mkMS out3 (ms_map s ++ [Some new_node]) meta' out, i + 1).

Definition opt_meta (nodes : list node) (output : option Z) : result pass_out :=
  let* (s, _) := fold_left (opt_meta_step output) nodes (Ok (mkMS [] [] [] None, 0)) in
  Ok (mkPassOut (ms_out s) (ms_map s) (ms_output s)).

(* ------------------------------------------------------------------ duplicates *)
Record dup_state := mkDS {
  ds_out : list node;
  ds_map : list (option Z);
  ds_sigs : list ((list Z * list annot * op) * Z);
  ds_output : option Z
}.
(* duplicates_optimizer.rs:15 NodeKey::new *)
Definition node_key (nd : node) (dep_ids : list Z) : result (option (list Z * list annot * op)) :=
  let o := n_op nd in
  let* r := is_randomizing o in
  if is_prf_operation o || r || is_input o then Ok None else
  match o with
  | OConstant _ _ => Ok None
  | OCustom _ => Err
  | _ => Ok (Some (dep_ids, n_annots nd, o))
  end.
Definition key_eqb (a b : list Z * list annot * op) : bool :=
  list_eqb Z.eqb (fst (fst a)) (fst (fst b)) && list_eqb annot_eqb (snd (fst a)) (snd (fst b))
  && op_eqb (snd a) (snd b).
Definition sig_find (s : list ((list Z * list annot * op) * Z)) (k : list Z * list annot * op) : option Z :=
  (* HashMap insert overwrites: the latest entry for a key wins (it is always the same node) *)
  match find (fun p => key_eqb (fst p) k) (rev s) with Some p => Some (snd p) | None => None end.

Definition opt_dup_step (old_output : option Z) (acc : result (dup_state * Z)) (nd : node)
  : result (dup_state * Z) :=
  let* (s, i) := acc in
  if negb (match n_gdeps nd with [] => true | _ => false end) then Err else
  let* deps := mapM (map_get (ds_map s)) (n_deps nd) in
  let* key := node_key nd deps in
  let found := match key with Some k => sig_find (ds_sigs s) k | None => None end in
  let '(out', j) :=
    match found with
    | Some j => (ds_out s, j)
    | None => emit (ds_out s) (mkNode (n_op nd) deps [] (n_annots nd) (n_ty nd))
    end in
  let sigs' := match key with Some k => ds_sigs s ++ [(k, j)] | None => ds_sigs s end in
  let out := if eqb old_output (Some i) then Some j else ds_output s in
  Ok (mkDS out' (ds_map s ++ [Some j]) sigs' out, i + 1).

Definition opt_dup (nodes : list node) (output : option Z) : result pass_out :=
  let* (s, _) := fold_left (opt_dup_step output) nodes (Ok (mkDS [] [] [] None, 0)) in
  Ok (mkPassOut (ds_out s) (ds_map s) (ds_output s)).

(* ------------------------------------------------------------------ dangling nodes *)
(* useful[i] for i in reverse order: the output, and every dependency of a useful node *)
Definition useful_set (nodes : list node) (output : Z) : list bool :=
  let n := length nodes in
  let init := map (fun i => Z.of_nat i =? output) (seq 0 n) in
  fold_left (fun (u : list bool) (p : nat * node) =>
               let '(i, nd) := p in
               if nth i u false then
                 fold_left (fun u d => match upd u d true with Ok u' => u' | _ => u end) (n_deps nd) u
               else u)
            (rev (combine (seq 0 n) nodes)) init.

Definition opt_dangling (nodes : list node) (output : option Z) : result pass_out :=
  match output with
  | None => Err            (* get_output_node()? on a graph without output *)
  | Some outp =>
      let useful := useful_set nodes outp in
      let* (out, m, o, _) :=
        fold_left (fun acc nd =>
                     let* (out, m, o, i) := acc in
                     if negb (is_input (n_op nd)) && negb (nth (Z.to_nat i) useful false)
                     then Ok (out, m ++ [None], o, i + 1) else
                     let* deps := mapM (map_get m) (n_deps nd) in
                     if negb (match n_gdeps nd with [] => true | _ => false end) then Err else
                     let '(out', j) := emit out (mkNode (n_op nd) deps [] (n_annots nd) (n_ty nd)) in
                     Ok (out', m ++ [Some j], (if i =? outp then Some j else o), i + 1))
                  nodes (Ok ([], [], None, 0)) in
      Ok (mkPassOut out m o)
  end.

(* ------------------------------------------------------------------ optimize.rs:16 pipeline *)
(* ContextMappings::join: v1->v2 in map1 and v2->v3 in map2 give v1->v3; unmapped nodes drop *)
Definition join_maps (m1 m2 : list (option Z)) : list (option Z) :=
  map (fun x => match x with
                | Some j => match znth m2 j with Ok (Some k) => Some k | _ => None end
                | None => None end) m1.

Definition optimize_graph (nodes : list node) (output : option Z) : result pass_out :=
  let* p1 := opt_const nodes output in
  let* p2 := opt_meta (po_nodes p1) (po_output p1) in
  let* p3 := opt_dup (po_nodes p2) (po_output p2) in
  let* p4 := opt_dangling (po_nodes p3) (po_output p3) in
  Ok (mkPassOut (po_nodes p4)
                (join_maps (join_maps (join_maps (po_map p1) (po_map p2)) (po_map p3)) (po_map p4))
                (po_output p4)).

#[global] Instance Eqb_pass_out : Eqb pass_out :=
  fun a b => eqb (po_nodes a) (po_nodes b) && eqb (po_map a) (po_map b) && eqb (po_output a) (po_output b).

(* C17 model: ops/adder.rs (BinaryAdd, BinaryAddTransposed, CarryNode, interleave,
   calculate_carry_bits).  Definitions only; proofs are in Proofs/AdderProofs.v.
   A bitstring is a list of booleans, least significant bit first, as the last dimension of
   the Rust array.  Every Rust array operation used here is elementwise over the remaining
   (batch) dimensions, so the model is written for one bitstring; pull_out_bits/put_in_bits
   (utils.rs:49,108) only move the bit dimension to the front and back.
   On BIT arrays Add is xor and Multiply is and. *)
From CC Require Import Base.Prelude.

Definition bits := list bool.

(* value of a bitstring read as an unsigned integer *)
Fixpoint bval (l : bits) : Z :=
  match l with [] => 0 | b :: r => Z.b2z b + 2 * bval r end.
(* the n low bits of an integer *)
Fixpoint bits_of (n : nat) (x : Z) : bits :=
  match n with O => [] | S n' => Z.odd x :: bits_of n' (x / 2) end.

(* Add / Multiply of two BIT arrays of one length (the code never relies on broadcasting
   along the bit dimension: the lengths agree, see AdderProofs.calculate_carry_bits_length) *)
Fixpoint map2 {A B C} (f : A -> B -> C) (l1 : list A) (l2 : list B) : list C :=
  match l1, l2 with
  | x :: r1, y :: r2 => f x y :: map2 f r1 r2
  | _, _ => []
  end.
Definition bxor := map2 xorb.
Definition band := map2 andb.

(* adder.rs:158 CarryNode: carry-out = generate + propagate * carry-in *)
Record carry_node := CN { cn_p : bits; cn_g : bits }.

(* adder.rs:164 bit_len *)
Definition bit_len (c : carry_node) : nat := length (cn_p c).

(* get_slice [start : stop : 2] on the first dimension *)
Fixpoint every2 {A} (l : list A) : list A :=
  match l with
  | [] => []
  | x :: r => x :: match r with [] => [] | _ :: r' => every2 r' end
  end.
Definition slice2 {A} (start stop : nat) (l : list A) : list A :=
  every2 (skipn start (firstn stop l)).

(* adder.rs:196 sub_slice *)
Definition sub_slice (start stop : nat) (c : carry_node) : carry_node :=
  CN (slice2 start stop (cn_p c)) (slice2 start stop (cn_g c)).

(* adder.rs:184 join: propagate = p_l * p_r ; generate = g_r + p_r * g_l *)
Definition join (lo hi : carry_node) : carry_node :=
  CN (band (cn_p lo) (cn_p hi))
     (bxor (cn_g hi) (band (cn_p hi) (cn_g lo))).

(* adder.rs:168 shrink *)
Definition shrink (overflow_bit : bool) (c : carry_node) : carry_node :=
  let bl := bit_len c in
  let next_lvl_bits := if overflow_bit then (bl / 2)%nat else ((bl - 1) / 2)%nat in
  let use_bits := (next_lvl_bits * 2)%nat in
  let lower := sub_slice 0 use_bits c in
  let higher := sub_slice 1 use_bits c in
  join lower higher.

(* adder.rs:210 apply *)
Definition apply (c : carry_node) (prev_carry : bits) : bits :=
  bxor (cn_g c) (band (cn_p c) prev_carry).

(* adder.rs:218 interleave: [a1, b1, a2, b2, ...] *)
Fixpoint interleave {A} (first second : list A) : list A :=
  match first, second with
  | x :: r1, y :: r2 => x :: y :: interleave r1 r2
  | _, _ => []
  end.

(* u64::is_power_of_two *)
Fixpoint is_pow2_fuel (fuel n : nat) : bool :=
  match fuel with
  | O => false
  | S f => if (n =? 1)%nat then true
           else if (n =? 0)%nat then false
           else if Nat.even n then is_pow2_fuel f (n / 2)%nat else false
  end.
Definition is_power_of_two (n : nat) : bool := is_pow2_fuel (S n) n.

(* adder.rs:309-312 the loop `while nodes.last().bit_len() > 1 { nodes.push(last.shrink()) }`.
   [acc] is the vector `nodes` in reverse order (its head is `last`).  The loop is not
   structurally bounded, hence the fuel. *)
Fixpoint build_nodes (fuel : nat) (overflow_bit : bool) (last : carry_node)
         (acc : list carry_node) : result (list carry_node) :=
  if (bit_len last <=? 1)%nat then Ok acc
  else match fuel with
       | O => OutOfFuel
       | S f => let nx := shrink overflow_bit last in
                build_nodes f overflow_bit nx (nx :: acc)
       end.

(* adder.rs:322-326 one step of the top-down pass *)
Definition push_down (carries : bits) (node : carry_node) : bits :=
  let lower := sub_slice 0 (bit_len node) node in
  let new_carries := apply lower carries in
  interleave carries new_carries.

(* adder.rs:284 calculate_carry_bits *)
Definition calculate_carry_bits (propagate_bits generate_bits : bits) (overflow_bit : bool)
  : result (bits * option bits) :=
  let node0 := CN propagate_bits generate_bits in
  let bl := bit_len node0 in
  if negb (is_power_of_two bl) then Err else
  let carries := [false] in
  if negb overflow_bit && (bl =? 1)%nat then Ok (carries, None) else
  let* nodes_rev :=
     if overflow_bit || (2 <? bl)%nat then build_nodes bl overflow_bit node0 [node0]
     else Ok [node0] in
  let* (ov, rest) :=
     if overflow_bit then
       match nodes_rev with
       | root :: rest => Ok (Some (apply root carries), rest)
       | [] => Panic   (* node_rev_iter.next().unwrap() *)
       end
     else Ok (None, nodes_rev) in
  Ok (fold_left push_down rest carries, ov).

(* adder.rs:99 BinaryAddTransposed::instantiate (first dimensions must agree) *)
Definition binary_add_transposed (overflow_bit : bool) (x y : bits)
  : result (bits * option bits) :=
  if negb (length x =? length y)%nat then Err else
  let xor_bits := bxor x y in
  let and_bits := band x y in
  let* (carries, ov) := calculate_carry_bits xor_bits and_bits overflow_bit in
  let added := bxor carries xor_bits in
  Ok (added, ov).

(* adder.rs:58 BinaryAdd::instantiate: validate (last dimensions agree), pull the bits out,
   add, put the bits back.  The overflow output is an array with a bit dimension of size 1. *)
Definition binary_add (overflow_bit : bool) (x y : bits) : result (bits * option bits) :=
  binary_add_transposed overflow_bit x y.

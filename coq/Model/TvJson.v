(* C13 model, JSON half: the human-readable (de)serialization of TypedValue,
   typed_value_serialization.rs:20-586, over an abstract JSON tree.  Definitions only; proofs are in
   Proofs/TvJsonProofs.v.

   Representation: the BYTE-LEVEL one of Model/Bytes.v.  A TypedValue is a pair (ty, bvalue); printing
   reads the bytes with the typed readers of Bytes.v (to_u128, to_flattened_array_u128 followed by the
   `as uK / as iK` casts) and parsing writes them with from_flattened_array, exactly as the Rust does.
   Nothing is decoded in between, so the C13 byte theorems apply to the same functions.

   The JSON *text* layer (serde_json lexing/printing, feature arbitrary_precision) is not modelled; the
   tree below is what serde_json hands to the Visitor:
     - an integer token is JNum z whatever its size (serde_json: u64 / i64 / the private
       {"$serde_json::private::Number": "<digits>"} map, see num_sdm);
     - a number token with a fraction or an exponent is JFloat (its text never parses as u128/i128);
     - object fields keep their order and may repeat. *)
From Coq Require Import Ascii.
From CC Require Import Base.Prelude Base.Scalar Base.Ty Model.Bytes.

Inductive json :=
| JNull
| JBool (b : bool)
| JNum (z : Z)
| JFloat
| JStr (s : string)
| JArr (l : list json)
| JObj (fs : list (string * json)).

Fixpoint json_eqb (a b : json) {struct a} : bool :=
  match a, b with
  | JNull, JNull => true
  | JBool x, JBool y => Bool.eqb x y
  | JNum x, JNum y => Z.eqb x y
  | JFloat, JFloat => true
  | JStr x, JStr y => String.eqb x y
  | JArr xs, JArr ys =>
      (fix go (l l' : list json) : bool :=
         match l, l' with
         | [], [] => true
         | x :: xs, y :: ys => json_eqb x y && go xs ys
         | _, _ => false end) xs ys
  | JObj xs, JObj ys =>
      (fix go (l l' : list (string * json)) : bool :=
         match l, l' with
         | [], [] => true
         | x :: xs, y :: ys => String.eqb (fst x) (fst y) && json_eqb (snd x) (snd y) && go xs ys
         | _, _ => false end) xs ys
  | _, _ => false
  end.
#[global] Instance Eqb_json : Eqb json := json_eqb.

(* TypedValue { t, value } ; the optional `name` is only ever set transiently (see tuple_from_vector) *)
Definition tval : Type := (ty * bvalue)%type.

(* ------------------------------------------------------------------ scalar type strings *)
(* data_types.rs:1078 Display for ScalarType *)
Definition show_scalar (s : scalar) : string :=
  match s with
  | Bit => "bit" | U8 => "u8" | I8 => "i8" | U16 => "u16" | I16 => "i16" | U32 => "u32"
  | I32 => "i32" | U64 => "u64" | I64 => "i64" | U128 => "u128" | I128 => "i128"
  end%string.
(* data_types.rs:1102 FromStr for ScalarType *)
Definition parse_scalar (s : string) : result scalar :=
  (if s =? "bit" then Ok Bit else if s =? "u8" then Ok U8 else if s =? "i8" then Ok I8
   else if s =? "u16" then Ok U16 else if s =? "i16" then Ok I16
   else if s =? "u32" then Ok U32 else if s =? "i32" then Ok I32
   else if s =? "u64" then Ok U64 else if s =? "i64" then Ok I64
   else if s =? "u128" then Ok U128 else if s =? "i128" then Ok I128 else Err)%string.

(* ------------------------------------------------------------------ printing *)
(* typed_value_serialization.rs:441-453 and :460-538: the reader chosen per scalar type is
   to_u128 / to_flattened_array_u128 followed by `as u8`, `as i8`, ... (data_values.rs:425-985) *)
Definition reader (st : scalar) : Z -> Z :=
  match st with
  | Bit | U8 => cast_u 8 | I8 => cast_i 8
  | U16 => cast_u 16 | I16 => cast_i 16
  | U32 => cast_u 32 | I32 => cast_i 32
  | U64 => cast_u 64 | I64 => cast_i 64
  | U128 => cast_u 128 | I128 => cast_i 128
  end.

(* typed_value_serialization.rs:106 ShapedArray::serialize.  A rank-1 shape prints the flat array
   whatever its length; higher ranks split into shape[0] chunks.  `len % 0` and `chunks(0)` panic. *)
Fixpoint print_shaped (shape : list Z) (arr : list Z) {struct shape} : result json :=
  match shape with
  | [] => Err
  | len :: sh' =>
      match sh' with
      | [] => Ok (JArr (map JNum arr))
      | _ :: _ =>
          if len =? 0 then Panic else
          if negb (Z.of_nat (length arr) mod len =? 0) then Err else
          let cs := Z.of_nat (length arr) / len in
          if cs =? 0 then Panic else
          let* els := mapM (print_shaped sh') (chunks (length arr) (Z.to_nat cs) arr) in
          Ok (JArr els)
      end
  end.

(* typed_value.rs:632 TypedValue::new and :676 new_named (identical but for the name) *)
Definition tv_new (t : ty) (v : bvalue) : result tval :=
  match check_type v t with
  | Ok true => Ok (t, v)
  | Ok false | Err => Err
  | Panic => Panic
  | OutOfFuel => OutOfFuel
  end.

(* typed_value.rs:255 to_vector (data_values.rs:674 Value::to_vector first) *)
Definition to_vector (t : ty) (v : bvalue) : result (list (option string * tval)) :=
  match v with
  | BBytes _ => Err
  | BVec vs =>
      match t with
      | TTuple ts =>
          if negb (length ts =? length vs)%nat then Err else
          mapM (fun p => let* tv := tv_new (fst p) (snd p) in Ok (None, tv)) (combine ts vs)
      | TVector n t1 =>
          if negb (n =? Z.of_nat (length vs)) then Err else
          mapM (fun c => let* tv := tv_new t1 c in Ok (None, tv)) vs
      | TNamed fs =>
          if negb (length fs =? length vs)%nat then Err else
          mapM (fun p => let* tv := tv_new (snd (fst p)) (snd p) in Ok (Some (fst (fst p)), tv))
               (combine fs vs)
      | _ => Err
      end
  end.

Definition obj_scalar (kind : string) (st : scalar) (value : json) : json :=
  JObj [("kind"%string, JStr kind); ("type"%string, JStr (show_scalar st)); ("value"%string, value)].
Definition obj_container (kind : string) (els : list json) : json :=
  JObj [("kind"%string, JStr kind); ("value"%string, JArr els)].
(* #[derive(Serialize)] NamedTypedValue { name, value }, typed_value_serialization.rs:78 *)
Definition obj_named (name : string) (value : json) : json :=
  JObj [("name"%string, JStr name); ("value"%string, value)].

(* the element loops of serialize_human_readable for tuples (:541-546) and named tuples (:548-560);
   [rec] is print_tv itself *)
Section PrintLoops.
  Variable rec : ty -> bvalue -> result json.
  Fixpoint print_tuple_els (ts : list ty) (vs : list bvalue) {struct ts} : result (list json) :=
    match ts, vs with
    | [], [] => Ok []
    | t1 :: ts', c :: vs' =>
        let* j := rec t1 c in let* r := print_tuple_els ts' vs' in Ok (j :: r)
    | _, _ => Err
    end.
  Fixpoint print_named_els (fs : list (string * ty)) (vs : list bvalue) {struct fs} : result (list json) :=
    match fs, vs with
    | [], [] => Ok []
    | f :: fs', c :: vs' =>
        let* j := rec (snd f) c in let* r := print_named_els fs' vs' in
        Ok (obj_named (fst f) j :: r)
    | _, _ => Err
    end.
End PrintLoops.

(* typed_value_serialization.rs:432 serialize_human_readable.  to_vector() runs completely (all
   TypedValue::new checks) before any element is serialized. *)
Fixpoint print_tv (t : ty) (v : bvalue) {struct t} : result json :=
  match t with
  | TScalar st =>
      let* x := to_u128 v st in
      Ok (obj_scalar "scalar" st (JNum (reader st x)))
  | TArray sh st =>
      let* xs := to_flattened_array_u128 v t in
      let* j := print_shaped sh (map (reader st) xs) in
      Ok (obj_scalar "array" st j)
  | TVector n t1 =>
      let* _ := to_vector t v in
      match v with
      | BVec vs => let* js := mapM (print_tv t1) vs in Ok (obj_container "vector" js)
      | BBytes _ => Err
      end
  | TTuple ts =>
      let* _ := to_vector t v in
      match v with
      | BVec vs => let* js := print_tuple_els print_tv ts vs in Ok (obj_container "tuple" js)
      | BBytes _ => Err
      end
  | TNamed fs =>
      let* _ := to_vector t v in
      match v with
      | BVec vs => let* js := print_named_els print_tv fs vs in Ok (obj_container "named tuple" js)
      | BBytes _ => Err
      end
  end.

(* ------------------------------------------------------------------ parsing *)
(* typed_value_serialization.rs:99 SerializedDataModel *)
Inductive sdm :=
| SArray (arr : list Z) (shape : list Z)
| SVector (l : list tval)
| SValue (tv : tval)
| SNamed (l : list (string * tval)).

(* std::mem::discriminant *)
Definition sdm_tag (d : sdm) : Z :=
  match d with SArray _ _ => 0 | SVector _ => 1 | SValue _ => 2 | SNamed _ => 3 end.

(* An integer token.  serde_json (arbitrary_precision, de.rs parse_any_number) hands a non-negative
   token that fits u64 to visit_u64 (:163), a negative one that fits i64 to visit_i64 (:153,
   `value as u128`), anything else to visit_map as {"$serde_json::private::Number": text}, where
   :257-264 parse the text as i128 (leading '-') or u128. *)
Definition num_sdm (z : Z) : result sdm :=
  if (0 <=? z) && (z <? 2 ^ 64) then Ok (SArray [z] [])
  else if (- 2 ^ 63 <=? z) && (z <? 0) then Ok (SArray [z mod 2 ^ 128] [])
  else if z <? 0 then (if - 2 ^ 127 <=? z then Ok (SArray [z mod 2 ^ 128] []) else Err)
  else if z <? 2 ^ 128 then Ok (SArray [z] []) else Err.

(* <u128 as FromStr> / <i128 as FromStr> on the text of the private number key, reachable with an
   arbitrary string when a document spells that key out itself *)
Definition digit_of (c : ascii) : option Z :=
  let n := Z.of_N (N_of_ascii c) in
  if (48 <=? n) && (n <=? 57) then Some (n - 48) else None.
Fixpoint parse_digits (acc : Z) (s : string) : option Z :=
  match s with
  | EmptyString => Some acc
  | String c r => match digit_of c with Some d => parse_digits (acc * 10 + d) r | None => None end
  end.
Definition parse_digits1 (s : string) : option Z :=
  match s with EmptyString => None | _ => parse_digits 0 s end.
Definition number_string (s : string) : result sdm :=
  match s with
  | String "-"%char r =>
      match parse_digits1 r with
      | Some m => if m <=? 2 ^ 127 then Ok (SArray [(- m) mod 2 ^ 128] []) else Err
      | None => Err
      end
  | _ =>
      let body := match s with String "+"%char r => r | _ => s end in
      match parse_digits1 body with
      | Some m => if m <? 2 ^ 128 then Ok (SArray [m] []) else Err
      | None => Err
      end
  end.

(* typed_value_serialization.rs:374 visit_seq, after all elements were deserialized *)
Definition visit_seq (data : list sdm) : result sdm :=
  match data with
  | [] => Ok (SVector [])
  | d0 :: _ =>
      if negb (forallb (fun d => sdm_tag d =? sdm_tag d0) data) then Err else
      match d0 with
      | SArray _ sh0 =>
          (* new_shape = [len] ++ shape of the FIRST element; the flat data of all are appended *)
          Ok (SArray (flat_map (fun d => match d with SArray a _ => a | _ => [] end) data)
                     (Z.of_nat (length data) :: sh0))
      | SVector _ => Err
      | SNamed _ =>
          Ok (SNamed (flat_map (fun d => match d with SNamed l => l | _ => [] end) data))
      | SValue _ =>
          Ok (SVector (flat_map (fun d => match d with SValue tv => [tv] | _ => [] end) data))
      end
  end.

(* typed_value.rs:747 from_scalar *)
Definition from_scalar (x : Z) (st : scalar) : result tval :=
  let* v := from_flattened_array st [x] in Ok (TScalar st, v).

(* :317 ShapedArray::to_ndarray (into_shape fails unless the product of the shape is the number of
   elements) then typed_value.rs:587 from_ndarray: array_type is not validated *)
Definition from_shaped (a : list Z) (shape : list Z) (st : scalar) : result tval :=
  if negb (prod_list shape =? Z.of_nat (length a)) then Err else
  let* v := from_flattened_array st a in Ok (TArray shape st, v).

(* typed_value.rs:976 vector_from_vector_helper *)
Definition vector_from_vector (v : list tval) : result tval :=
  let val_type := match v with [] => TTuple [] | tv :: _ => fst tv end in
  if forallb (fun tv => ty_eqb (fst tv) val_type) v
  then Ok (TVector (Z.of_nat (length v)) val_type, BVec (map snd v))
  else Err.

(* typed_value.rs:999 tuple_from_vector_helper *)
Definition is_some {A} (o : option A) : bool := match o with Some _ => true | None => false end.
Definition tuple_from_vector (v : list (option string * tval)) : result tval :=
  let named := forallb (fun p => is_some (fst p)) v in
  let unnamed := forallb (fun p => negb (is_some (fst p))) v in
  if unnamed then tv_new (TTuple (map (fun p => fst (snd p)) v)) (BVec (map (fun p => snd (snd p)) v))
  else if named then
    tv_new (TNamed (map (fun p => (match fst p with Some n => n | None => EmptyString end, fst (snd p))) v))
           (BVec (map (fun p => snd (snd p)) v))
  else Err.

Inductive kind := KScalar | KArray | KVector | KTuple | KNamed.
(* :201-210 enum Kind *)
Definition parse_kind (s : string) : result kind :=
  (if s =? "scalar" then Ok KScalar else if s =? "array" then Ok KArray
   else if s =? "vector" then Ok KVector else if s =? "tuple" then Ok KTuple
   else if s =? "named tuple" then Ok KNamed else Err)%string.

(* the five Option locals of visit_map, :212-216 *)
Record mapst := {
  m_kind : option kind; m_type : option string; m_name : option string;
  m_value : option sdm; m_num : option string }.
Definition mapst0 : mapst := Build_mapst None None None None None.
Definition serde_number_key : string := "$serde_json::private::Number".

Section VisitMap.
  Variable rec : json -> result sdm.
  Definition as_string (j : json) : result string := match j with JStr s => Ok s | _ => Err end.
  (* :217-250 the while loop over the keys, in document order; an unknown key is an error
     (field_identifier without `other`), so is a repeated one *)
  Fixpoint read_fields (fs : list (string * json)) (st : mapst) {struct fs} : result mapst :=
    match fs with
    | [] => Ok st
    | f :: r =>
        let k := fst f in let j := snd f in
        (if k =? "kind" then
           if is_some (m_kind st) then Err else
           let* s := as_string j in let* kd := parse_kind s in
           read_fields r (Build_mapst (Some kd) (m_type st) (m_name st) (m_value st) (m_num st))
         else if k =? "type" then
           if is_some (m_type st) then Err else
           let* s := as_string j in
           read_fields r (Build_mapst (m_kind st) (Some s) (m_name st) (m_value st) (m_num st))
         else if k =? "value" then
           if is_some (m_value st) then Err else
           let* d := rec j in
           read_fields r (Build_mapst (m_kind st) (m_type st) (m_name st) (Some d) (m_num st))
         else if k =? "name" then
           if is_some (m_name st) then Err else
           let* s := as_string j in
           read_fields r (Build_mapst (m_kind st) (m_type st) (Some s) (m_value st) (m_num st))
         else if k =? serde_number_key then
           if is_some (m_num st) then Err else
           let* s := as_string j in
           read_fields r (Build_mapst (m_kind st) (m_type st) (m_name st) (m_value st) (Some s))
         else Err)%string
    end.
End VisitMap.

(* :251-369 the rest of visit_map *)
Definition finish_map (st : mapst) : result sdm :=
  match m_num st with
  | Some s =>
      if is_some (m_kind st) || is_some (m_type st) || is_some (m_name st) || is_some (m_value st)
      then Err else number_string s
  | None =>
  match m_value st with
  | None => Err
  | Some value =>
  match m_name st with
  | Some n =>
      if is_some (m_kind st) || is_some (m_type st) then Err else
      match value with SValue tv => Ok (SNamed [(n, tv)]) | _ => Err end
  | None =>
  match m_kind st with
  | None => Err
  | Some KScalar =>
      match m_type st with
      | None => Err
      | Some s =>
          let* st := parse_scalar s in
          match value with
          | SArray [x] _ => rmap SValue (from_scalar x st)
          | _ => Err
          end
      end
  | Some KArray =>
      match m_type st with
      | None => Err
      | Some s =>
          let* st := parse_scalar s in
          match value with
          | SArray a shape => rmap SValue (from_shaped a shape st)
          | _ => Err
          end
      end
  | Some KVector =>
      match value with SVector v => rmap SValue (vector_from_vector v) | _ => Err end
  | Some KTuple =>
      match value with
      | SVector v => rmap SValue (tuple_from_vector (map (fun tv => (None, tv)) v))
      | _ => Err
      end
  | Some KNamed =>
      match value with
      | SNamed v =>
          let* nv := mapM (fun p => let* tv := tv_new (fst (snd p)) (snd (snd p)) in
                                    Ok (Some (fst p), tv)) v in
          rmap SValue (tuple_from_vector nv)
      | _ => Err
      end
  end end end end.

(* :135 Deserialize for SerializedDataModel = deserialize_any with the visitor of :146.  The
   visitor has no visit_unit / visit_str / visit_f64: serde's defaults reject null, strings, floats. *)
Fixpoint parse_sdm (j : json) : result sdm :=
  match j with
  | JNull | JStr _ | JFloat => Err
  | JBool b => Ok (SArray [if b then 1 else 0] [])          (* :173 visit_bool *)
  | JNum z => num_sdm z
  | JArr l => let* data := mapM parse_sdm l in visit_seq data
  | JObj fs => let* st := read_fields parse_sdm fs mapst0 in finish_map st
  end.

(* :574 deserialize_human_readable *)
Definition parse_tv (j : json) : result tval :=
  let* d := parse_sdm j in
  match d with SValue tv => Ok tv | _ => Err end.

(* ------------------------------------------------------------------ TypedValue::is_equal *)
(* typed_value.rs:204-208: for i in 0..complete_bytes { if self[i] != other[i] return false } *)
Fixpoint cmp_bytes (k : nat) (a b : list Z) : result bool :=
  match k with
  | O => Ok true
  | S k' =>
      match a, b with
      | x :: a', y :: b' => if x =? y then cmp_bytes k' a' b' else Ok false
      | _, _ => Panic
      end
  end.
(* typed_value.rs:192-214, [s] = size of the type in bits *)
Definition leaf_equal (s : Z) (a b : list Z) : result bool :=
  let r := s mod 8 in
  match length a with
  | O => Panic                                   (* value_size_in_bytes - 1 underflows *)
  | S n1 =>
      let complete := if r =? 0 then S n1 else n1 in
      let* c := cmp_bytes complete a b in
      if negb c then Ok false else
      match nth_error a n1, nth_error b n1 with
      | Some x, Some y => Ok (x mod 2 ^ r =? y mod 2 ^ r)
      | _, _ => Panic
      end
  end.

(* typed_value.rs:216-231: the loop `for i in 0..types_vector.len()` with indexing into both
   value vectors (out of bounds = panic) and TypedValue::new on both elements; [rec]/[eq1] is
   is_equal itself *)
Section EqVector.
  Variable eq1 : bvalue -> bvalue -> result bool.
  Variable t1 : ty.
  Variable n : Z.
  Fixpoint eq_vector (i : Z) (xs ys : list bvalue) {struct xs} : result bool :=
    if n <=? i then Ok true else
    match xs, ys with
    | x :: xs', y :: ys' =>
        let* _ := tv_new t1 x in let* _ := tv_new t1 y in
        let* e := eq1 x y in
        if e then eq_vector (i + 1) xs' ys' else Ok false
    | _, _ => Panic
    end.
End EqVector.
Section EqTuple.
  Variable rec : ty -> bvalue -> bvalue -> result bool.
  Fixpoint eq_tuple (ts : list ty) (xs ys : list bvalue) {struct ts} : result bool :=
    match ts with
    | [] => Ok true
    | t1 :: ts' =>
        match xs, ys with
        | x :: xs', y :: ys' =>
            let* _ := tv_new t1 x in let* _ := tv_new t1 y in
            let* e := rec t1 x y in
            if e then eq_tuple ts' xs' ys' else Ok false
        | _, _ => Panic
        end
    end.
  Fixpoint eq_named (fs : list (string * ty)) (xs ys : list bvalue) {struct fs} : result bool :=
    match fs with
    | [] => Ok true
    | f :: fs' =>
        match xs, ys with
        | x :: xs', y :: ys' =>
            let* _ := tv_new (snd f) x in let* _ := tv_new (snd f) y in
            let* e := rec (snd f) x y in
            if e then eq_named fs' xs' ys' else Ok false
        | _, _ => Panic
        end
    end.
End EqTuple.

(* typed_value.rs:183 is_equal for two values of the same type [t] *)
Fixpoint is_equal_raw (t : ty) (a b : bvalue) {struct t} : result bool :=
  let* s := size_in_bits t in
  match t with
  | TScalar _ | TArray _ _ =>
      match a, b with
      | BBytes x, BBytes y => leaf_equal s x y
      | _, _ => Panic                            (* access_bytes on a vector *)
      end
  | TVector n t1 =>
      match a, b with
      | BVec xs, BVec ys => eq_vector (is_equal_raw t1) t1 n 0 xs ys
      | _, _ => Panic                            (* access_vector on bytes *)
      end
  | TTuple ts =>
      match a, b with
      | BVec xs, BVec ys => eq_tuple is_equal_raw ts xs ys
      | _, _ => Panic
      end
  | TNamed fs =>
      match a, b with
      | BVec xs, BVec ys => eq_named is_equal_raw fs xs ys
      | _, _ => Panic
      end
  end.

Definition is_equal (a b : tval) : result bool :=
  if negb (ty_eqb (fst b) (fst a)) then Ok false else is_equal_raw (fst a) (snd a) (snd b).

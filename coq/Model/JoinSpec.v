(* C19 specification: the four joins as relations between tables, written from the documentation
   of `Graph::join` / `Graph::join_with_column_masks` (graphs.rs:1847-2015) and the result-type
   rule (type_inference.rs:339-358, [result_headers] in Model/JoinTable.v).  It does not follow the
   control flow of evaluators/join.rs: the result is described column by column as a function of
   (1) the list of output rows, each given by its provenance — which input rows it is made of —,
   (2) the list of output columns, (3) the content of one cell given provenance and column.
   Definitions only. *)
From CC Require Import Base.Prelude Model.JoinTable.

Section Spec.
Variable masked : bool.

(* number of rows = length of the null column *)
Definition nrows (t : table) : nat :=
  match lookup null_header t with Some c => length (c_rows c) | None => 0 end.
(* "a binary array named NULL_HEADER that contains zeros in rows void of content" *)
Definition null_bit (t : table) (i : nat) : Z :=
  match lookup null_header t with
  | Some c => match nth_error (c_rows c) i with Some [b] => b | _ => 0 end
  | None => 0
  end.
Definition live (t : table) (i : nat) : bool := negb (null_bit t i =? 0).
(* masked variant: "a binary array that contains zeros in rows where the data array has no content" *)
Definition mask_at (t : table) (h : string) (i : nat) : Z :=
  if masked then match lookup h t with Some c => nth i (c_mask c) 0 | None => 0 end else 1.
Definition data_at (t : table) (h : string) (i : nat) : row :=
  match lookup h t with Some c => nth i (c_rows c) [] | None => [] end.
(* rows that take part in matching: not void and "all the corresponding mask elements are set to one" *)
Definition key_live (t : table) (khs : list string) (i : nat) : bool :=
  live t i && forallb (fun h => mask_at t h i =? 1) khs.
(* "row key: the bitstring obtained by concatenating data elements for given key headers" *)
Definition row_key (t : table) (khs : list string) (i : nat) : row :=
  flat_map (fun h => data_at t h i) khs.
(* the row of [t] with a given key (unique by the documented precondition) *)
Definition find_row (t : table) (khs : list string) (k : row) : option nat :=
  find (fun i => key_live t khs i && eqb (row_key t khs i) k) (seq 0 (nrows t)).
(* the row of [t] matching row [i] of [s], if row [i] takes part in matching *)
Definition match_of (s t : table) (ks kt : list string) (i : nat) : option nat :=
  if key_live s ks i then find_row t kt (row_key s ks i) else None.

(* provenance of an output row: the zero row; row i of the first table, possibly merged with row j
   of the second; row j of the second table, possibly merged with row i of the first *)
Inductive prov := PZero | PA (i : nat) (oj : option nat) | PB (j : nat) (oi : option nat).

(* (1) the output rows and their order *)
Definition unmatched_of_first (a b : table) (ka kb : list string) : list prov :=
  map (fun i => if live a i
                then match match_of a b ka kb i with Some _ => PZero | None => PA i None end
                else PZero)
      (seq 0 (nrows a)).
Definition provs (jt : jtype) (a b : table) (keys : keymap) : list prov :=
  let ka := map fst keys in
  let kb := map snd keys in
  match jt with
  | JInner => (* rows where the input tuples have matching row keys, at the position of the first
                 table's row; every other position is a zero row *)
      map (fun i => match match_of a b ka kb i with Some j => PA i (Some j) | None => PZero end)
          (seq 0 (nrows a))
  | JLeft => (* all the rows of the first table merged with the rows of the second with same key *)
      map (fun i => if live a i then PA i (match_of a b ka kb i) else PZero) (seq 0 (nrows a))
  | JUnion => (* rows of the first table not in the inner join, then all rows of the second *)
      unmatched_of_first a b ka kb ++
      map (fun j => if live b j then PB j None else PZero) (seq 0 (nrows b))
  | JFull => (* 1. rows of the first not in the inner join; 2. all rows of the second, including
                those merged with rows of the first *)
      unmatched_of_first a b ka kb ++
      map (fun j => if live b j then PB j (match_of b a kb ka j) else PZero) (seq 0 (nrows b))
  end.

(* (3) cells.  An entry whose mask is zero has no content: mask 0, zeros. *)
Definition zero_entry (rs : nat) : Z * row := (0, repeat 0 rs).
Definition entry (t : table) (h : string) (i rs : nat) : Z * row :=
  if mask_at t h i =? 1 then (1, data_at t h i) else zero_entry rs.
Definition cell (a b : table) (keys : keymap) (h : string) (rs : nat) (p : prov) : Z * row :=
  match p with
  | PZero => zero_entry rs
  | PA i oj =>
      if mem h (names a) then entry a h i rs
      else match oj with Some j => entry b h j rs | None => zero_entry rs end
  | PB j oi =>
      match lookup h keys with
      | Some h1 => entry b h1 j rs   (* key column: the second table's key data under the first's header *)
      | None =>
          if mem h (names b) && negb (mem h (map snd keys)) then entry b h j rs
          else match oi with Some i => entry a h i rs | None => zero_entry rs end
      end
  end.
Definition null_cell (p : prov) : row := match p with PZero => [0] | _ => [1] end.

(* (2) the columns, in the order of the result type *)
Definition join_spec (jt : jtype) (a b : table) (keys : keymap) : table :=
  let ps := provs jt a b keys in
  map (fun hr =>
         if is_null (fst hr) then (fst hr, mkcol 1 [] (map null_cell ps))
         else let cells := map (cell a b keys (fst hr) (snd hr)) ps in
              (fst hr, mkcol (snd hr) (if masked then map fst cells else []) (map snd cells)))
      (result_headers a b keys).
End Spec.

(* ---- hypotheses of the theorems: what type inference guarantees, and the documented precondition *)
Definition bit (x : Z) : Prop := x = 0 \/ x = 1.

(* join_utils.rs:142 check_table_and_extract_column_types + named tuples have distinct names:
   a null column of single bits, the same number of rows in every column, and in the masked
   variant one binary mask entry per row of every other column *)
Record wf_table (masked : bool) (t : table) : Prop := {
  wf_nodup : NoDup (names t);
  wf_null : exists c, lookup null_header t = Some c /\
                      Forall (fun r => exists b, r = [b] /\ bit b) (c_rows c);
  wf_rows : forall h c, lookup h t = Some c -> length (c_rows c) = nrows t;
  wf_masks : masked = true -> forall h c, lookup h t = Some c -> is_null h = false ->
             length (c_mask c) = nrows t /\ Forall bit (c_mask c)
}.

(* type_inference.rs:283-337 join_inference: key headers exist and are not the null header; a
   column of the second table that does not participate in the join is not named like a column
   of the first *)
Record wf_join (masked : bool) (a b : table) (keys : keymap) : Prop := {
  wj_a : wf_table masked a;
  wj_b : wf_table masked b;
  wj_keys : Forall (fun k => In (fst k) (names a) /\ In (snd k) (names b) /\
                             is_null (fst k) = false /\ is_null (snd k) = false) keys;
  wj_distinct : forall h, In h (names b) -> is_null h = false -> ~ In h (map snd keys) ->
                          ~ In h (names a)
}.
(* needed by the full join only: a key header of the second table that also names a column of the
   first names a key column there (otherwise left_join(b, a) would have two columns of that name) *)
Definition full_ok (a : table) (keys : keymap) : Prop :=
  forall h, In h (map snd keys) -> In h (names a) -> In h (map fst keys).

(* "Rows must have unique row keys, except for rows where NULL_HEADER is zero or at least one mask
   element in given key headers is zero" *)
Definition unique_live_keys (masked : bool) (t : table) (khs : list string) : Prop :=
  forall i j, (i < nrows t)%nat -> (j < nrows t)%nat ->
              key_live masked t khs i = true -> key_live masked t khs j = true ->
              row_key t khs i = row_key t khs j -> i = j.

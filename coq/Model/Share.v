(* C14 model: three-way additive secret sharing of typed values.
   typed_value.rs:810-975, typed_value_secret_shared/replicated_shares.rs:497-704,
   mpc/utils.rs:150-204, bin/ciphercore_split_parties.rs:104-135.
   Definitions only; proofs are in Proofs/ShareProofs.v.

   Level of the model.  A Rust [Value] is a tree whose leaves are byte vectors.  Here a leaf is
   the list of integers that [bytes::vec_u128_from_bytes bytes st] returns for the leaf's scalar
   type (the "decoded" form: one u128 per element, signed types sign-extended to 128 bits, for
   Bit eight entries per byte *including* the padding bits of the last byte).  The byte codec
   itself is C13's subject (Model/Bytes.v); writing a u128 list with [vec_to_bytes] and reading
   it back is, by C13_enc_dec_u128 / C13_bits_pack_unpack, the map [recode_list] below.
   Integers are unbounded Z; u128 wrapping and the scalar modulus appear as explicit mod. *)
From CC Require Import Base.Prelude Base.Scalar Base.Ty.

(* data_values.rs:18-30 Value, leaves decoded *)
Inductive value :=
| VLeaf (xs : list Z)
| VNode (vs : list value).

Section value_ind'.
  Variable P : value -> Prop.
  Hypothesis Hl : forall xs, P (VLeaf xs).
  Hypothesis Hn : forall vs, Forall P vs -> P (VNode vs).
  Fixpoint value_ind' (v : value) : P v :=
    match v with
    | VLeaf xs => Hl xs
    | VNode vs => Hn vs ((fix go (l : list value) : Forall P l :=
                            match l with [] => Forall_nil _
                                    | x :: xs => Forall_cons _ (value_ind' x) (go xs) end) vs)
    end.
End value_ind'.

Fixpoint value_eqb (a b : value) {struct a} : bool :=
  match a, b with
  | VLeaf x, VLeaf y => list_eqb Z.eqb x y
  | VNode xs, VNode ys =>
      (fix go (l l' : list value) : bool :=
         match l, l' with
         | [], [] => true
         | x :: xs, y :: ys => value_eqb x y && go xs ys
         | _, _ => false end) xs ys
  | _, _ => false
  end.
#[global] Instance Eqb_value : Eqb value := value_eqb.

(* typed_value.rs:39 TypedValue (the optional name plays no role in sharing) *)
Definition tval : Type := ty * value.

(* ---- element arithmetic: bytes.rs:17-23 add_u128, bytes.rs:126-145 subtract_vectors_u128 ---- *)

(* data_types.rs:135 get_modulus: None for the two 128-bit types *)
Definition get_modulus (st : scalar) : option Z :=
  match st with U128 | I128 => None | _ => Some (2 ^ width st) end.

Definition wrap128 (x : Z) : Z := x mod 2 ^ 128.
Definition reduce (m : option Z) (x : Z) : Z :=
  match m with Some m => x mod m | None => x end.
(* bytes.rs:17 add_u128: wrapping_add, then % m *)
Definition add_u128 (m : option Z) (a b : Z) : Z := reduce m (wrap128 (a + b)).
(* bytes.rs:137-143: u128::wrapping_sub, then % m *)
Definition sub_u128 (m : option Z) (a b : Z) : Z := reduce m (wrap128 (a - b)).

Definition map2 {A B C} (f : A -> B -> C) (a : list A) (b : list B) : list C :=
  map (fun p => f (fst p) (snd p)) (combine a b).

(* bytes.rs:56 add_vectors_u128 *)
Definition add_vectors_u128 (a b : list Z) (m : option Z) : result (list Z) :=
  if (length a =? length b)%nat then Ok (map2 (add_u128 m) a b) else Err.
(* bytes.rs:126 subtract_vectors_u128 *)
Definition subtract_vectors_u128 (a b : list Z) (m : option Z) : result (list Z) :=
  if (length a =? length b)%nat then Ok (map2 (sub_u128 m) a b) else Err.

(* One element written by vec_to_bytes and read back by vec_u128_from_bytes:
   C13's [ext128] (Proofs/BytesProofs.v; equality is lemma [recode_is_ext128]). *)
Definition recode (st : scalar) (x : Z) : Z := sval st x mod 2 ^ 128.
(* A Bit list is packed eight to a byte: reading back yields zero padding up to a multiple of 8. *)
Definition bit_pad (st : scalar) (n : nat) : list Z :=
  match st with
  | Bit => repeat 0 (Z.to_nat ((- Z.of_nat n) mod 8))
  | _ => []
  end.
(* Value::from_bytes(vec_to_bytes(xs, st)) seen through the decoder *)
Definition recode_list (st : scalar) (xs : list Z) : list Z :=
  map (recode st) xs ++ bit_pad st (length xs).

(* typed_value.rs:936-941: the Scalar/Array arm of generalized_add *)
Definition leaf_add (st : scalar) (a b : list Z) : result (list Z) :=
  let* r := add_vectors_u128 a b (get_modulus st) in Ok (recode_list st r).
(* typed_value.rs:878-883: the Scalar/Array arm of generalized_subtract *)
Definition leaf_sub (st : scalar) (a b : list Z) : result (list Z) :=
  let* r := subtract_vectors_u128 a b (get_modulus st) in Ok (recode_list st r).

(* ---- recursion over the type tree ---- *)

Section Zip.
  Context {T : Type} (g : T -> value -> value -> result value).
  (* the loops "for i in 0..tv.len() { result.push(f(v_raw[i], v0_raw[i], tv[i])?) }":
     a missing index panics, an error in element i returns before element i+1 is touched,
     surplus elements of the values are ignored *)
  Fixpoint zip3M (ts : list T) (a b : list value) : result (list value) :=
    match ts with
    | [] => Ok []
    | t :: ts' =>
        match a, b with
        | x :: a', y :: b' =>
            let* r := g t x y in let* rs := zip3M ts' a' b' in Ok (r :: rs)
        | _, _ => Panic
        end
    end.
End Zip.

Section All.
  Context {T : Type} (p : T -> value -> bool).
  Fixpoint all2 (ts : list T) (vs : list value) : bool :=
    match ts, vs with
    | [], [] => true
    | t :: ts', v :: vs' => p t v && all2 ts' vs'
    | _, _ => false
    end.
End All.

(* typed_value.rs:876-933 generalized_subtract and :935-992 generalized_add share their
   shape; [leaf] is the Scalar/Array arm.  access_bytes / access_vector on the wrong kind
   of value panic (data_values.rs:1042-1087). *)
Fixpoint gen_op (leaf : scalar -> list Z -> list Z -> result (list Z))
         (t : ty) (v v0 : value) {struct t} : result value :=
  match t with
  | TScalar st | TArray _ st =>
      match v, v0 with
      | VLeaf a, VLeaf b => rmap VLeaf (leaf st a b)
      | _, _ => Panic
      end
  | TTuple ts =>
      match v, v0 with
      | VNode a, VNode b => rmap VNode (zip3M (gen_op leaf) ts a b)
      | _, _ => Panic
      end
  | TNamed fs =>
      match v, v0 with
      | VNode a, VNode b => rmap VNode (zip3M (fun p => gen_op leaf (snd p)) fs a b)
      | _, _ => Panic
      end
  | TVector n t1 =>
      match v, v0 with
      | VNode a, VNode b =>
          rmap VNode (zip3M (fun _ : unit => gen_op leaf t1) (repeat tt (Z.to_nat n)) a b)
      | _, _ => Panic
      end
  end.

(* typed_value.rs:935 generalized_add *)
Definition generalized_add (v v0 : value) (t : ty) : result value := gen_op leaf_add t v v0.
(* typed_value.rs:876 generalized_subtract *)
Definition generalized_subtract (v v0 : value) (t : ty) : result value := gen_op leaf_sub t v v0.

(* ---- layout of decoded values (data_values.rs:990 check_type seen through the decoder) ---- *)

(* number of decoded entries of a leaf of type t: one per element; for Bit eight per byte *)
Definition leaf_len (t : ty) : nat :=
  match t with
  | TScalar Bit => 8
  | TScalar _ => 1
  | TArray sh Bit => Z.to_nat (8 * ((prod_list sh + 7) / 8))
  | TArray sh _ => Z.to_nat (prod_list sh)
  | _ => O
  end.

(* [lp st n xs]: the test applied to a leaf expected to have n entries *)
Fixpoint tree_ok (lp : scalar -> nat -> list Z -> bool) (t : ty) (v : value) {struct t} : bool :=
  match t with
  | TScalar st | TArray _ st =>
      match v with VLeaf xs => lp st (leaf_len t) xs | VNode _ => false end
  | TTuple ts =>
      match v with VNode vs => all2 (tree_ok lp) ts vs | VLeaf _ => false end
  | TNamed fs =>
      match v with VNode vs => all2 (fun p => tree_ok lp (snd p)) fs vs | VLeaf _ => false end
  | TVector n t1 =>
      match v with
      | VNode vs => all2 (fun _ : unit => tree_ok lp t1) (repeat tt (Z.to_nat n)) vs
      | VLeaf _ => false
      end
  end.

(* byte lengths match the type: what check_type tests *)
Definition shape_ok : ty -> value -> bool :=
  tree_ok (fun _ n xs => (length xs =? n)%nat).
(* every entry is a fixed point of the decoder (true of everything vec_u128_from_bytes returns) *)
Definition canon (st : scalar) (x : Z) : bool := recode st x =? x.
(* the domain of the theorems: right layout, decoder-range entries *)
Definition wt : ty -> value -> bool :=
  tree_ok (fun st n xs => (length xs =? n)%nat && forallb (canon st) xs).

(* typed_value.rs:632 TypedValue::new: check_type must succeed and say true *)
Definition typed_new (t : ty) (v : value) : result tval :=
  match size_in_bits t with
  | Ok _ => if shape_ok t v then Ok (t, v) else Err
  | _ => Err
  end.

(* ---- sharing.  The PRNG draws are inputs: r0 r1 are the first two results of
   prng.get_random_value(t), g0 g1 g2 the next three. ---- *)

(* typed_value.rs:844 shard_to_shares (= replicated_shares.rs:497) *)
Definition shard_to_shares (t : ty) (v r0 r1 : value) : result (list value) :=
  let* d := generalized_subtract v r0 t in
  let* s2 := generalized_subtract d r1 t in
  Ok [r0; r1; s2].

Definition triple (t : ty) : ty := TTuple [t; t; t].

(* typed_value.rs:810 secret_share *)
Definition secret_share (tv : tval) (r0 r1 : value) : result tval :=
  let* s := shard_to_shares (fst tv) (snd tv) r0 r1 in
  Ok (triple (fst tv), VNode s).

(* typed_value.rs:855 secret_share_reveal *)
Definition secret_share_reveal (tv : tval) : result tval :=
  match fst tv with
  | TTuple [t0; t1; t2] =>
      if ty_eqb t0 t1 && ty_eqb t0 t2 then
        match snd tv with
        | VNode (v0 :: v1 :: v2 :: _) =>
            let* a := generalized_add v0 v1 t0 in
            let* o := generalized_add a v2 t0 in
            typed_new t0 o
        | _ => Panic   (* access_vector on bytes, or vv[k] out of range *)
        end
      else Err
  | _ => Err
  end.

(* the three per-party slot lists of typed_value.rs:825-841, replicated_shares.rs:575-590,
   mpc/utils.rs:187-203: party i keeps shares i, i+1 and gets garbage in slot i+2 *)
Definition party_slots (s g : list value) : result (list (list value)) :=
  match s, g with
  | [s0; s1; s2], [g0; g1; g2] => Ok [[s0; s1; g2]; [g0; s1; s2]; [s0; g1; s2]]
  | _, _ => Panic
  end.

(* typed_value.rs:819 get_local_shares_for_each_party *)
Definition get_local_shares_for_each_party (tv : tval) (r0 r1 g0 g1 g2 : value)
  : result (list tval) :=
  let* s := shard_to_shares (fst tv) (snd tv) r0 r1 in
  let* ps := party_slots s [g0; g1; g2] in
  Ok (map (fun p => (triple (fst tv), VNode p)) ps).

(* ---- ReplicatedShares (replicated_shares.rs:16-20): three values and the common type ---- *)
Definition rshares : Type := ty * list value.

(* replicated_shares.rs:532 secret_share_for_local_evaluation *)
Definition rs_secret_share_for_local_evaluation (tv : tval) (r0 r1 : value) : result rshares :=
  let* s := shard_to_shares (fst tv) (snd tv) r0 r1 in Ok (fst tv, s).

(* replicated_shares.rs:570 secret_share_for_parties *)
Definition rs_secret_share_for_parties (tv : tval) (r0 r1 g0 g1 g2 : value)
  : result (list rshares) :=
  let* s := shard_to_shares (fst tv) (snd tv) r0 r1 in
  let* ps := party_slots s [g0; g1; g2] in
  Ok (map (fun p => (fst tv, p)) ps).

(* replicated_shares.rs:616 to_tuple *)
Definition rs_to_tuple (r : rshares) : result tval :=
  typed_new (triple (fst r)) (VNode (snd r)).

(* replicated_shares.rs:648 from_tuple: types_vec[0] panics on the empty tuple type; any
   non-empty tuple of equal types is accepted, whatever its length *)
Definition rs_from_tuple (tv : tval) : result rshares :=
  match fst tv with
  | TTuple [] => Panic
  | TTuple (first :: rest) =>
      if forallb (ty_eqb first) rest then
        match snd tv with
        | VNode vs => Ok (first, vs)
        | VLeaf _ => Err   (* to_vector: "Not a vector!" *)
        end
      else Err
  | _ => Err
  end.

(* replicated_shares.rs:689 reveal: no type check, self.shares[k] panics when missing *)
Definition rs_reveal (r : rshares) : result tval :=
  match snd r with
  | v0 :: v1 :: v2 :: _ =>
      let* a := generalized_add v0 v1 (fst r) in
      let* o := generalized_add a v2 (fst r) in
      Ok (fst r, o)
  | _ => Panic
  end.

(* ---- mpc/utils.rs:150 share_vector, for a flat data vector of scalar type st.
   r0 r1 are the two random byte strings as read by to_flattened_array_u128 with type
   st[n]; g0 g1 g2 the three garbage byte strings as read by vec_u128_from_bytes st.
   The result slots are read with vec_u128_from_bytes st as well. ---- *)
Definition share_vector (st : scalar) (data r0 r1 g0 g1 g2 : list Z) : result (list value) :=
  let n := length data in
  (* to_flattened_array_u128(array_type([n], st)) on n * scalar_size_in_bytes(st) bytes:
     [0] is not a valid shape; a Bit array of n entries has ceil(n/8) bytes, not n *)
  if (n =? 0)%nat then Err else
  if scalar_eqb st Bit && negb (n =? 1)%nat then Err else
  let* r0r1 := add_vectors_u128 r0 r1 (get_modulus st) in
  (* from_flattened_array(data) read back: C13 *)
  let* r2 := subtract_vectors_u128 (map (recode st) data) r0r1 (get_modulus st) in
  let s := map (fun x => VLeaf (recode_list st x)) [r0; r1; r2] in
  let* ps := party_slots s [VLeaf g0; VLeaf g1; VLeaf g2] in
  Ok (map VNode ps).

(* ---- bin/ciphercore_split_parties.rs:104-135: per input, what each of the three parties'
   input files receives.  [zero] is Value::zero_of_type of the input's type. ---- *)
Inductive io_status := IOParty (p : Z) | IOPublic | IOShared.
Definition split_input (st : io_status) (tv : tval) (zero : value) (r0 r1 g0 g1 g2 : value)
  : result (list tval) :=
  match st with
  | IOParty p =>
      let* z := typed_new (fst tv) zero in
      Ok (map (fun j => if j =? p then tv else z) [0; 1; 2])
  | IOPublic => Ok [tv; tv; tv]
  | IOShared => get_local_shares_for_each_party tv r0 r1 g0 g1 g2
  end.

(* ---- what the theorems talk about ---- *)

(* slot k of a party's tuple *)
Definition slot (k : nat) (tv : tval) : option value :=
  match snd tv with VNode vs => nth_error vs k | VLeaf _ => None end.

(* party i's tuple p holds shares i and i+1 of s in slots i and i+1, and entry i+2 of the
   garbage list g in slot i+2 *)
Definition party_holds (i : nat) (p : tval) (s g : list value) : Prop :=
  slot i p = nth_error s i /\
  slot ((i + 1) mod 3) p = nth_error s ((i + 1) mod 3) /\
  slot ((i + 2) mod 3) p = nth_error g ((i + 2) mod 3).

(* the types on which TypedValue::new / check_type do not fail *)
Definition ty_ok (t : ty) : Prop := exists s, size_in_bits t = Ok s.

(* Two parties i <> j pool what they hold: party i contributes its slots i and i+1, the
   remaining slot i+2 is taken from party j (for whom it is a genuine share, not garbage). *)
Definition combine_two (i : nat) (pi pj : tval) : result tval :=
  match snd pi, snd pj with
  | VNode a, VNode b =>
      let pick k := if (k =? (i + 2) mod 3)%nat then nth_error b k else nth_error a k in
      match pick 0%nat, pick 1%nat, pick 2%nat with
      | Some x0, Some x1, Some x2 => Ok (fst pi, VNode [x0; x1; x2])
      | _, _, _ => Panic
      end
  | _, _ => Panic
  end.

(* what party i sees of the sharing: (s_i, s_{i+1}) *)
Definition view (i : nat) (t : ty) (v r0 r1 : value) : result (value * value) :=
  let* s := shard_to_shares t v r0 r1 in
  match nth_error s i, nth_error s ((i + 1) mod 3) with
  | Some a, Some b => Ok (a, b)
  | _, _ => Panic
  end.

(* the explicit inverse of (r0, r1) |-> view i: the randomness that produces a given view *)
Definition unview (i : nat) (t : ty) (v a b : value) : result (value * value) :=
  match i with
  | 0%nat => Ok (a, b)                                   (* (s0,s1) = (r0,r1) *)
  | 1%nat =>                                             (* (s1,s2) = (r1, v-r0-r1) *)
      let* d := generalized_subtract v a t in
      let* r0 := generalized_subtract d b t in Ok (r0, a)
  | _ =>                                                 (* (s2,s0) = (v-r0-r1, r0) *)
      let* d := generalized_subtract v b t in
      let* r1 := generalized_subtract d a t in Ok (b, r1)
  end.

(* C08 model: the custom-operation instantiation pass of custom_ops.rs:540-794 over an
   abstract catalogue.  Definitions only; proofs are in Proofs/InstantiateProofs.v.

   A context is a list of graphs, a graph a list of nodes; a node refers to earlier nodes of
   its graph by position and to older graphs of its context by position (both N).  Every node
   carries its type (the annotated node of DESIGN.md section 2).  The catalogue is given by
   Section variables: [inst o tys] stands for [CustomOperation::instantiate] run in a fresh
   context (it returns that whole context, main graph = the returned graph; the body may
   itself contain custom nodes), [name o] for [CustomOperation::get_name], [opid_eqb] for
   PartialEq on custom operations.

   Not mirrored (see tools/props/C08.json): node names and annotations (copied one to one by
   the pass), graph annotations, and the particular topological order chosen by
   petgraph::toposort - the model glues in depth-first finishing order of the same
   dependency relation and the tie compares results up to the order of the instantiation
   blocks. *)
From CC Require Import Base.Prelude Base.Scalar Base.Ty.
From Coq Require Ascii DecimalString.

(* ---------------------------------------------------------------- printing of types *)
Section Printing.
Local Open Scope string_scope.
(* "{}" of a u64 *)
Definition dec (z : Z) : string := DecimalString.NilEmpty.string_of_uint (N.to_uint (Z.to_N z)).

(* data_types.rs:1078 Display for ScalarType *)
Definition scalar_str (s : scalar) : string :=
  match s with
  | Bit => "bit" | U8 => "u8" | I8 => "i8" | U16 => "u16" | I16 => "i16" | U32 => "u32"
  | I32 => "i32" | U64 => "u64" | I64 => "i64" | U128 => "u128" | I128 => "i128"
  end.

(* first element, then ", " ^ element for the others (data_types.rs:1026-1076) *)
Definition join (sep : string) (l : list string) : string :=
  match l with
  | [] => ""
  | x :: r => x ++ String.concat "" (map (fun y => sep ++ y) r)
  end.

(* data_types.rs:1124 Display for Type.  A named-tuple field prints as \"name\": type
   with a literal backslash before each quote (data_types.rs:1067). *)
Fixpoint ty_str (t : ty) : string :=
  match t with
  | TScalar s => scalar_str s
  | TArray sh s => scalar_str s ++ "[" ++ join ", " (map dec sh) ++ "]"
  | TVector n t1 => "<" ++ ty_str t1 ++ "{" ++ dec n ++ "}>"
  | TTuple ts => "(" ++ join ", " (map ty_str ts) ++ ")"
  | TNamed fs =>
      "(" ++ join ", " (map (fun p => "\""" ++ fst p ++ "\"": " ++ ty_str (snd p)) fs) ++ ")"
  end.

(* custom_ops.rs:568 Instantiation::get_name *)
Definition inst_name (nm : string) (tys : list ty) : string :=
  "__" ++ nm ++ "::<" ++ join ", " (map ty_str tys) ++ ">".

End Printing.

(* ---------------------------------------------------------------- graphs *)
Section IR.
  Context {opid prim : Type}.

  Inductive node :=
  | NInput (t : ty)
  | NPrim (p : prim) (deps : list N) (gdeps : list N) (t : ty)  (* any primitive operation *)
  | NCall (g : N) (deps : list N) (t : ty)                      (* Operation::Call *)
  | NCustom (o : opid) (deps : list N) (t : ty).                (* Operation::Custom *)

  Definition node_ty (n : node) : ty :=
    match n with NInput t | NPrim _ _ _ t | NCall _ _ t | NCustom _ _ t => t end.

  Record graph := mkGraph { g_nodes : list node; g_out : N }.
  Record ctx := mkCtx { c_graphs : list graph; c_main : N }.
  (* graph of the resulting context: the name set by set_name, if any *)
  Record rgraph := mkR { r_name : option string; r_graph : graph }.
  Record rctx := mkRctx { rc_graphs : list rgraph; rc_main : N }.
End IR.
Arguments node : clear implicits.
Arguments graph : clear implicits.
Arguments ctx : clear implicits.
Arguments rgraph : clear implicits.
Arguments rctx : clear implicits.

Section Pass.
  Context {opid prim : Type}.
  Variable opid_eqb : opid -> opid -> bool.                    (* PartialEq for CustomOperation *)
  Variable inst : opid -> list ty -> result (ctx opid prim).   (* instantiate, in a fresh context *)
  Variable name : opid -> string.                              (* get_name *)

  Notation node := (node opid prim).
  Notation graph := (graph opid prim).
  Notation ctx := (ctx opid prim).
  Notation rgraph := (rgraph opid prim).
  Notation rctx := (rctx opid prim).

  (* custom_ops.rs:543 Instantiation *)
  Definition key : Type := opid * list ty.
  Definition key_eqb (a b : key) : bool :=
    opid_eqb (fst a) (fst b) && list_eqb ty_eqb (snd a) (snd b).
  Definition key_name (k : key) : string := inst_name (name (fst k)) (snd k).
  Definition mem (k : key) (l : list key) : bool := existsb (key_eqb k) l.

  (* types of the dependencies of a node (a dependency is a Node pointer in Rust and always
     resolves; a dangling position is an error here) *)
  Definition dep_types (g : list node) (deps : list N) : result (list ty) :=
    mapM (fun d => match nth_error g (N.to_nat d) with
                   | Some n => Ok (node_ty n) | None => Err end) deps.

  (* custom_ops.rs:551 create_from_node, on every custom node of a graph / a context, in
     graph order then node order (the loops at :635-637 and :685-687) *)
  Fixpoint nodes_keys (G ns : list node) : result (list key) :=
    match ns with
    | [] => Ok []
    | NCustom o deps _ :: r =>
        let* tys := dep_types G deps in
        let* ks := nodes_keys G r in Ok ((o, tys) :: ks)
    | _ :: r => nodes_keys G r
    end.
  Definition graph_keys (g : graph) : result (list key) := nodes_keys (g_nodes g) (g_nodes g).
  Definition ctx_keys (c : ctx) : result (list key) :=
    let* kss := mapM graph_keys (c_graphs c) in Ok (List.concat kss).

  (* ---- discovery, custom_ops.rs:624-707.  [seen] is instantiation_to_node (the nodes of
     the instantiations graph in creation order); [done] lists the instantiations whose
     process_instantiation has returned, i.e. whose dependencies have all been found.
     Edges are not stored: an edge needed -> needing exists exactly from each key to the
     key being processed, and [done] is a topological order of them.  A needed key that was
     seen but is not done is an ancestor on the recursion stack: the edge closes a cycle,
     which toposort reports as "Circular dependency among instantiations". *)
  Record dstate := mkD { seen : list key; done : list key }.

  Definition visit (rec : key -> dstate -> result dstate) (k : key) (s : dstate)
    : result dstate :=
    if mem k (seen s) then (if mem k (done s) then Ok s else Err)
    else rec k (mkD (seen s ++ [k]) (done s)).

  Fixpoint process (fuel : nat) (k : key) (s : dstate) : result dstate :=
    match fuel with
    | O => OutOfFuel
    | S f =>
        let* body := inst (fst k) (snd k) in
        let* ks := ctx_keys body in
        let* s' := fold_left (fun acc k' => let* s0 := acc in visit (process f) k' s0)
                             ks (Ok s) in
        Ok (mkD (seen s') (done s' ++ [k]))
    end.

  Definition discover (fuel : nat) (c : ctx) : result (list key) :=
    let* ks := ctx_keys c in
    let* s := fold_left (fun acc k => let* s0 := acc in visit (process fuel) k s0)
                        ks (Ok (mkD [] [])) in
    Ok (done s).

  (* ---- gluing, custom_ops.rs:711-766 *)
  Definition cache : Type := list (key * N).
  Fixpoint lookup (k : key) (c : cache) : option N :=
    match c with
    | [] => None
    | (k0, g) :: r => if key_eqb k k0 then Some g else lookup k r
    end.

  Definition input_types (g : graph) : list ty :=
    flat_map (fun n => match n with NInput t => [t] | _ => [] end) (g_nodes g).

  (* one node of a glued graph; [off] = number of graphs already in the result context,
     [g] the nodes of the graph being glued.  Graph::call type-checks the arguments against
     the inputs of the callee. *)
  Definition glue_node (ch : cache) (res : list rgraph) (off : N) (g : list node) (n : node)
    : result node :=
    match n with
    | NInput t => Ok (NInput t)
    | NPrim p deps gdeps t => Ok (NPrim p deps (map (N.add off) gdeps) t)
    | NCall g' deps t => Ok (NCall (off + g')%N deps t)
    | NCustom o deps t =>
        let* tys := dep_types g deps in
        match lookup (o, tys) ch with
        | None => Panic                       (* expect("Should not be here") *)
        | Some gi =>
            match nth_error res (N.to_nat gi) with
            | None => Panic
            | Some callee =>
                if list_eqb ty_eqb (input_types (r_graph callee)) tys
                then Ok (NCall gi deps t) else Err
            end
        end
    end.

  Definition glue_graph (ch : cache) (res : list rgraph) (off : N) (g : graph) : result graph :=
    let* ns := mapM (glue_node ch res off (g_nodes g)) (g_nodes g) in
    Ok (mkGraph ns (g_out g)).

  Definition glue_ctx (ch : cache) (res : list rgraph) (gs : list graph)
    : result (list graph) :=
    mapM (glue_graph ch res (N.of_nat (length res))) gs.

  Definition names (res : list rgraph) : list string :=
    flat_map (fun r => match r_name r with Some s => [s] | None => [] end) res.

  Definition anon (gs : list graph) : list rgraph := map (mkR None) gs.
  (* set_name on the glued copy of the instantiation's main graph *)
  Fixpoint name_at (i : nat) (nm : string) (gs : list graph) : list rgraph :=
    match gs with
    | [] => []
    | g :: r => match i with
                | O => mkR (Some nm) g :: anon r
                | S i' => mkR None g :: name_at i' nm r
                end
    end.

  (* custom_ops.rs:770-787, one instantiation of the topological order *)
  Definition glue_key (acc : result (list rgraph * cache)) (k : key)
    : result (list rgraph * cache) :=
    let* (res, ch) := acc in
    let* body := inst (fst k) (snd k) in
    let* gs := glue_ctx ch res (c_graphs body) in
    let off := N.of_nat (length res) in
    if negb (N.to_nat (c_main body) <? length gs)%nat then Panic   (* mapping.get_graph(g) *)
    else
      let nm := key_name k in
      (* graphs.rs:4208 "Graph names must be unique" *)
      if existsb (String.eqb nm) (names res) then Err
      else Ok (res ++ name_at (N.to_nat (c_main body)) nm gs, (k, (off + c_main body)%N) :: ch).

  (* custom_ops.rs:682 run_instantiation_pass.  Also returns the order in which the
     instantiations were glued. *)
  Definition pass (fuel : nat) (c : ctx) : result (rctx * list key) :=
    let* order := discover fuel c in
    let* (res, ch) := fold_left glue_key order (Ok ([], [])) in
    let* gs := glue_ctx ch res (c_graphs c) in
    if negb (N.to_nat (c_main c) <? length gs)%nat then Err      (* get_main_graph *)
    else Ok (mkRctx (res ++ anon gs) (N.of_nat (length res) + c_main c)%N, order).

  (* ---------------------------------------------------------------- evaluation *)
  (* Abstract evaluation, parametric in the values and in the meaning of the primitive
     operations; a primitive with graph dependencies (Iterate) receives their meanings.
     [csem] gives the meaning of custom nodes (used for contexts before instantiation). *)
  Section Eval.
    Variable value : Type.
    Definition gsem : Type := list value -> result value.
    Variable eval_prim : prim -> list gsem -> list value -> result value.
    Variable csem : key -> gsem.

    Definition get_vals (vals : list value) (deps : list N) : result (list value) :=
      mapM (fun d => match nth_error vals (N.to_nat d) with
                     | Some v => Ok v | None => Err end) deps.
    Definition get_sems (env : list gsem) (gs : list N) : result (list gsem) :=
      mapM (fun d => match nth_error env (N.to_nat d) with
                     | Some f => Ok f | None => Err end) gs.

    (* state: values of the nodes evaluated so far, inputs not consumed yet *)
    Definition eval_node (env : list gsem) (g : list node)
               (st : list value * list value) (n : node) : result (list value * list value) :=
      let '(vals, ins) := st in
      match n with
      | NInput _ => match ins with v :: r => Ok (vals ++ [v], r) | [] => Err end
      | NPrim p deps gdeps _ =>
          let* vs := get_vals vals deps in
          let* fs := get_sems env gdeps in
          let* v := eval_prim p fs vs in Ok (vals ++ [v], ins)
      | NCall g' deps _ =>
          let* vs := get_vals vals deps in
          match nth_error env (N.to_nat g') with
          | Some f => let* v := f vs in Ok (vals ++ [v], ins)
          | None => Err
          end
      | NCustom o deps _ =>
          let* vs := get_vals vals deps in
          let* tys := dep_types g deps in
          let* v := csem (o, tys) vs in Ok (vals ++ [v], ins)
      end.

    Definition eval_graph (env : list gsem) (g : graph) : gsem := fun ins =>
      let* st := fold_left (fun acc n => let* st := acc in eval_node env (g_nodes g) st n)
                           (g_nodes g) (Ok ([], ins)) in
      match nth_error (fst st) (N.to_nat (g_out g)) with Some v => Ok v | None => Err end.

    (* graphs are evaluated oldest first; a graph sees the meanings of the older ones *)
    Fixpoint eval_graphs (gs : list graph) (env : list gsem) : list gsem :=
      match gs with
      | [] => env
      | g :: r => eval_graphs r (env ++ [eval_graph env g])
      end.

    Definition eval_ctx (c : ctx) : gsem := fun ins =>
      match nth_error (eval_graphs (c_graphs c) []) (N.to_nat (c_main c)) with
      | Some f => f ins | None => Err end.

    Definition eval_rctx (r : rctx) : gsem :=
      eval_ctx (mkCtx (map r_graph (rc_graphs r)) (rc_main r)).

    (* [csem] agrees with the library's definition of the operation at key [k]: the meaning
       of the graph its instantiation builds, nested custom nodes read through [csem] again *)
    Definition consistent (k : key) : Prop :=
      forall body, inst (fst k) (snd k) = Ok body ->
                   forall vs, csem k vs = eval_ctx body vs.
  End Eval.

  (* every key has the arity/types its graph was instantiated for *)
  Definition sig_ok (k : key) : Prop :=
    exists body g, inst (fst k) (snd k) = Ok body /\
                   nth_error (c_graphs body) (N.to_nat (c_main body)) = Some g /\
                   input_types g = snd k.

End Pass.

(* decidable form of the injectivity hypothesis on the names of a list of keys *)
Fixpoint names_distinct_b (l : list string) : bool :=
  match l with
  | [] => true
  | x :: r => negb (existsb (String.eqb x) r) && names_distinct_b r
  end.

(* ================================================================ the tie's instance *)
(* operations of a case are numbered (by PartialEq) by the harness, primitive operations
   are hashed to N; the catalogue of the case is a table *)
Definition tnode := node N N.
Definition tgraph := graph N N.
Definition tctx := ctx N N.
Definition tkey : Type := N * list ty.

Definition nI (t : ty) : tnode := NInput t.
Definition nP (p : N) (deps gdeps : list N) (t : ty) : tnode := NPrim p deps gdeps t.
Definition nC (g : N) (deps : list N) (t : ty) : tnode := NCall g deps t.
Definition nX (o : N) (deps : list N) (t : ty) : tnode := NCustom o deps t.
Definition G (ns : list tnode) (out : N) : tgraph := mkGraph ns out.
Definition C (gs : list tgraph) (main : N) : tctx := mkCtx gs main.

Definition node_eqb (a b : tnode) : bool :=
  match a, b with
  | NInput t, NInput t' => ty_eqb t t'
  | NPrim p d g t, NPrim p' d' g' t' =>
      N.eqb p p' && list_eqb N.eqb d d' && list_eqb N.eqb g g' && ty_eqb t t'
  | NCall g d t, NCall g' d' t' => N.eqb g g' && list_eqb N.eqb d d' && ty_eqb t t'
  | NCustom o d t, NCustom o' d' t' => N.eqb o o' && list_eqb N.eqb d d' && ty_eqb t t'
  | _, _ => false
  end.
#[global] Instance Eqb_tnode : Eqb tnode := node_eqb.
#[global] Instance Eqb_tgraph : Eqb tgraph :=
  fun a b => eqb (g_nodes a) (g_nodes b) && N.eqb (g_out a) (g_out b).
#[global] Instance Eqb_trgraph : Eqb (rgraph N N) :=
  fun a b => eqb (r_name a) (r_name b) && eqb (r_graph a) (r_graph b).
#[global] Instance Eqb_trctx : Eqb (rctx N N) :=
  fun a b => eqb (rc_graphs a) (rc_graphs b) && N.eqb (rc_main a) (rc_main b).

Definition tkey_eqb (a b : tkey) : bool := N.eqb (fst a) (fst b) && list_eqb ty_eqb (snd a) (snd b).

(* catalogue tables; an entry that the harness did not export makes the model panic, so a
   key the model needs and the code did not is a visible disagreement *)
Definition tbl_inst (T : list (tkey * result tctx)) (o : N) (tys : list ty) : result tctx :=
  match find (fun e => tkey_eqb (fst e) (o, tys)) T with
  | Some e => snd e
  | None => Panic
  end.
Definition tbl_name (Nm : list (N * string)) (o : N) : string :=
  match find (fun e => N.eqb (fst e) o) Nm with
  | Some e => snd e
  | None => ""
  end.

(* ---- comparison up to the order of the instantiation blocks.  A result context is a
   sequence of blocks (the graphs of one instantiation, contiguous, exactly one of them
   named) followed by the graphs of the source context.  [canon] sorts the blocks by the
   name of their instantiation and renumbers every graph reference accordingly. *)
Fixpoint string_leb (a b : string) : bool :=
  match a, b with
  | EmptyString, _ => true
  | String _ _, EmptyString => false
  | String x a', String y b' =>
      let nx := Ascii.N_of_ascii x in let ny := Ascii.N_of_ascii y in
      if (nx <? ny)%N then true else if (ny <? nx)%N then false else string_leb a' b'
  end.

(* a block: name, start in the original numbering, size *)
Definition blk : Type := string * N * N.
Fixpoint insert_blk (b : blk) (l : list blk) : list blk :=
  match l with
  | [] => [b]
  | c :: r => if string_leb (fst (fst b)) (fst (fst c)) then b :: l else c :: insert_blk b r
  end.
Definition sort_blks (l : list blk) : list blk := fold_right insert_blk [] l.

(* (name, size) in original order -> (name, start, size) *)
Fixpoint with_starts (start : N) (l : list (string * N)) : list blk :=
  match l with
  | [] => []
  | (nm, sz) :: r => (nm, start, sz) :: with_starts (start + sz)%N r
  end.
(* sorted blocks -> (old start, size, new start) *)
Fixpoint relocs (start : N) (l : list blk) : list (N * N * N) :=
  match l with
  | [] => []
  | (_, old, sz) :: r => (old, sz, start) :: relocs (start + sz)%N r
  end.
Definition remap (rl : list (N * N * N)) (a : N) : N :=
  match find (fun e => let '(old, sz, _) := e in (old <=? a)%N && (a <? old + sz)%N) rl with
  | Some (old, _, new) => (new + (a - old))%N
  | None => a
  end.
Definition remap_node (rl : list (N * N * N)) (n : tnode) : tnode :=
  match n with
  | NPrim p d g t => NPrim p d (map (remap rl) g) t
  | NCall g d t => NCall (remap rl g) d t
  | _ => n
  end.
Definition remap_rgraph (rl : list (N * N * N)) (r : rgraph N N) : rgraph N N :=
  mkR (r_name r) (mkGraph (map (remap_node rl) (g_nodes (r_graph r))) (g_out (r_graph r))).

Definition slice {A} (start len : N) (l : list A) : list A :=
  firstn (N.to_nat len) (skipn (N.to_nat start) l).

Definition canon (sizes : list (string * N)) (r : rctx N N) : rctx N N :=
  let bl := with_starts 0 sizes in
  let sorted := sort_blks bl in
  let rl := relocs 0 sorted in
  let total := fold_left (fun a e => (a + snd e)%N) sizes 0%N in
  let gs := map (remap_rgraph rl) (rc_graphs r) in
  mkRctx (flat_map (fun b => let '(_, old, sz) := b in slice old sz gs) sorted
            ++ skipn (N.to_nat total) gs)
         (remap rl (rc_main r)).

Definition tie_fuel : nat := 200.

(* size of the block of a key = number of graphs its instantiation creates *)
Definition block_sizes (T : list (tkey * result tctx)) (Nm : list (N * string))
           (order : list tkey) : list (string * N) :=
  map (fun k => (key_name (tbl_name Nm) k,
                 match tbl_inst T (fst k) (snd k) with
                 | Ok b => N.of_nat (length (c_graphs b)) | _ => 0%N end)) order.

(* model side of a pass case *)
Definition pass_obs (T : list (tkey * result tctx)) (Nm : list (N * string)) (c : tctx)
  : result (rctx N N) :=
  let* (r, order) := pass N.eqb (tbl_inst T) (tbl_name Nm) tie_fuel c in
  Ok (canon (block_sizes T Nm order) r).
(* Rust side: the resulting context with the sizes of its blocks in Rust's order *)
Definition rust_obs (sizes : list (string * N)) (gs : list (rgraph N N)) (main : N)
  : result (rctx N N) := Ok (canon sizes (mkRctx gs main)).
Definition R (nm : option string) (ns : list tnode) (out : N) : rgraph N N :=
  mkR nm (mkGraph ns out).

(* names of the instantiation graphs, sorted (independent of the structure comparison) *)
Fixpoint insert_str (s : string) (l : list string) : list string :=
  match l with
  | [] => [s]
  | c :: r => if string_leb s c then s :: l else c :: insert_str s r
  end.
Definition sort_strings (l : list string) : list string := fold_right insert_str [] l.
Definition pass_names (T : list (tkey * result tctx)) (Nm : list (N * string)) (c : tctx)
  : result (list string) :=
  let* (r, _) := pass N.eqb (tbl_inst T) (tbl_name Nm) tie_fuel c in
  Ok (sort_strings (names (rc_graphs r))).

(* the hypothesis of C08_inst_pass_total, decided on the keys of a case *)
Definition keys_inj_check (T : list (tkey * result tctx)) (Nm : list (N * string)) (c : tctx)
  : result bool :=
  let* order := discover N.eqb (tbl_inst T) tie_fuel c in
  Ok (names_distinct_b (map (key_name (tbl_name Nm)) order)).

(* Wrappers used only by the correspondence cases of C17 (harness/src/c17.rs): operands are
   given as unsigned integers, converted to bitstrings, run through the models, and the
   results converted back.  [bits_of]/[bval] are inverse to each other
   (AdderProofs.bits_of_bval, bval_bits_of). *)
From CC Require Import Base.Prelude Base.Scalar Model.Adder Model.Mux Model.Clip Model.LongDiv.

Definition ov_val (o : option bits) : option Z := option_map bval o.

(* BinaryAdd on a batch of operand pairs of width n *)
Definition add_batch (ob : bool) (n : nat) (xs ys : list Z) : result (list (Z * option Z)) :=
  mapM (fun p => let* (s, o) := binary_add ob (bits_of n (fst p)) (bits_of n (snd p)) in
                 Ok (bval s, ov_val o)) (combine xs ys).

Definition clip_batch (k n : nat) (xs : list Z) : result (list Z) :=
  mapM (fun x => rmap bval (clip2k k (bits_of n x))) xs.

Definition div_batch (sg : bool) (m n : nat) (xs ys : list Z) : result (list (Z * Z)) :=
  mapM (fun p => let* (q, r) := long_division sg (bits_of m (fst p)) (bits_of n (snd p)) in
                 Ok (bval q, bval r)) (combine xs ys).

(* all operand pairs a in [a0, a0+na), b in [0, 2^n) in row-major order *)
Definition zrange (lo : Z) (len : nat) : list Z := map (fun i => lo + Z.of_nat i) (seq 0 len).
Definition pairs_rows (a0 : Z) (na : nat) (nb : nat) : list Z * list Z :=
  let ps := list_prod (zrange a0 na) (zrange 0 nb) in (map fst ps, map snd ps).
Definition add_rows ob n a0 na := let p := pairs_rows a0 na (2 ^ n)%nat in add_batch ob n (fst p) (snd p).
Definition div_rows sg n a0 na := let p := pairs_rows a0 na (2 ^ n)%nat in div_batch sg n n (fst p) (snd p).

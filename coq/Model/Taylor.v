(* C20 model, continued: taylor_exponent.rs:53 TaylorExponent::instantiate at one INT64 entry.
   The two f64-derived constants (2^p / ln 2 and ln 2 * 2^p, truncated) are parameters c1, c2:
   the harness recomputes them with the Rust expressions on every run.  Definitions only. *)
From CC Require Import Base.Prelude Model.Fixed.

Definition taylor_exponent (terms p c1 c2 : Z) (arg : Z) : result Z :=
  if 15 <? p then Err else
  (* x = arg / ln 2, so that exp(arg) = 2^x *)
  let x := multiply_fixed_point 64 true arg (wrap 64 c1) p in
  let msb := (x / 2 ^ 63) mod 2 in
  (* (31f64 - p).log2().ceil() *)
  let max_exp_bits := Z.log2_up (31 - p) in
  (* stage 1: product of 2^(2^j) over the set integer bits j < max_exp_bits *)
  let exp_integer :=
    fold_left (fun acc j =>
                 let bit := (x / 2 ^ (p + j)) mod 2 in
                 let term := wadd 64 (wmul 64 (wsub 64 (wrap 64 (2 ^ (2 ^ j))) 1) bit) 1 in
                 wmul 64 acc term)
              (zrange 0 (Z.to_nat max_exp_bits)) 1 in
  (* stage 2: Taylor series of 2^frac = exp(frac ln 2) *)
  let exp_fractional :=
    if p =? 0 then 1 else
    let x_frac := x mod 2 ^ p in
    let y := multiply_fixed_point 64 true x_frac (wrap 64 c2) p in
    fst (fold_left (fun (st : Z * Z) i =>
                      let '(ef, coef) := st in
                      (wadd 64 ef coef,
                       if i <? terms - 1 then trunc 64 true (wmul 64 coef y) ((i + 1) * 2 ^ p) else coef))
                   (zrange 0 (Z.to_nat terms)) (0, wrap 64 (2 ^ p))) in
  (* stage 3: for negative x the truncation by 2^(2^max_exp_bits) inverts; below -10 the result is 0 *)
  let e := wmul 64 exp_fractional exp_integer in
  let one_over_exp := trunc 64 true e (2 ^ (2 ^ max_exp_bits)) in
  let ge := if - 10 * 2 ^ p <=? sv 64 x then 1 else 0 in
  let r := wadd 64 e (wmul 64 (wsub 64 one_over_exp e) msb) in
  Ok (wmul 64 r ge).

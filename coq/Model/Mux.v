(* C17 model: ops/multiplexer.rs (Mux), as repaired in /repo commit 34574f8.
   Definitions only; proofs are in Proofs/MuxProofs.v.
   Array elements are integers; an element of scalar type st is kept normalised (mod 2^width). *)
From CC Require Import Base.Prelude Base.Scalar.

(* Add / Multiply on BIT arrays: arithmetic modulo 2 (simple_evaluator.rs, st = BIT) *)
Definition bit_add (x y : Z) : Z := (x + y) mod 2.
Definition bit_mul (x y : Z) : Z := (x * y) mod 2.

(* Add on integer arrays of scalar type st *)
Definition st_add (st : scalar) (x y : Z) : Z := norm st (x + y).
(* MixedMultiply: integer element times a bit, result of the integer's type *)
Definition mixed_multiply (st : scalar) (x f : Z) : Z := norm st (x * f).

(* multiplexer.rs:70-73 bit branch: choice0 + flag * (choice0 + choice1) *)
Definition mux_bit (f c1 c0 : Z) : Z := bit_add c0 (bit_mul f (bit_add c0 c1)).

(* multiplexer.rs:75-77 integer branch:
   choice1' = choice1 (x) flag; choice0' = choice0 (x) (flag + 1); choice0' + choice1' *)
Definition mux_int (st : scalar) (f c1 c0 : Z) : Z :=
  let c1' := mixed_multiply st c1 f in
  let c0' := mixed_multiply st c0 (bit_add f 1) in
  st_add st c0' c1'.

(* multiplexer.rs:70 the branch is chosen by the scalar type of the choices *)
Definition mux (st : scalar) (f c1 c0 : Z) : Z :=
  match st with Bit => mux_bit f c1 c0 | _ => mux_int st f c1 c0 end.

(* the same bit branch on booleans, as used inside Clip2K and LongDivision *)
Definition mux_b (f c1 c0 : bool) : bool := xorb c0 (andb f (xorb c0 c1)).

(* elementwise application on operands already broadcast to the output shape *)
Definition mux_arr (st : scalar) (fs c1s c0s : list Z) : list Z :=
  map (fun t => mux st (fst t) (fst (snd t)) (snd (snd t))) (combine fs (combine c1s c0s)).

(* multiplexer.rs:49-65 instantiate: the flag must consist of bits and both choices have one
   scalar type.  tf, t1, t0 are the scalar types of the three arguments. *)
Definition mux_op (tf t1 t0 : scalar) (fs c1s c0s : list Z) : result (list Z) :=
  if negb (scalar_eqb tf Bit) then Err
  else if negb (scalar_eqb t1 t0) then Err
  else Ok (mux_arr t1 fs c1s c0s).

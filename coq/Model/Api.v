(* C11 model: the graph-building API of graphs.rs seen as a state machine.
   Definitions only; proofs are in Proofs/ApiProofs.v.

   [state] is the observable content of one ContextBody (graphs.rs:3689-3707) with its
   GraphBodys (graphs.rs:1378-1384) and the type checker's cache (type_inference.rs:23-27).
   Operations, types and annotations are opaque tags (N); names are strings.
   Identifiers are N.  A handle is what a Rust [Node]/[Graph] pointer carries: the context it
   belongs to (0 = this context, anything else = another context), the graph id and the node id.
   Handles are unforgeable in Rust: a handle to an object of this context always refers to an
   existing object (a node whose insertion failed is never returned).  Calls whose *receiver*
   handle does not exist are therefore not expressible in Rust; the model answers them with
   [E_nohandle] and no effect (dangling *argument* handles of add_node go through the code's own
   checks).

   The type checker's answer and the size estimates are not modelled: they enter each add_node
   call as the oracle record [tcans] (any answers; the theorems quantify over them). *)
From CC Require Import Base.Prelude.
Local Open Scope N_scope.

Notation gid := N (only parsing).
Notation nid := N (only parsing).
Inductive nh := NH (c : N) (g : gid) (n : nid).   (* node handle *)
Inductive gh := GH (c : N) (g : gid).             (* graph handle *)
Definition self : N := 0.

(* graphs.rs:410-416 NodeBody *)
Record node := mkNode { n_id : nid; n_op : N; n_deps : list nh; n_gdeps : list gh }.
(* graphs.rs:1378-1384 GraphBody (the context pointer is the state itself) *)
Record graph := mkGraph { g_id : gid; g_fin : bool; g_nodes : list node; g_out : option nid }.

(* HashMaps are association lists read through [lookup] (first match); insertion happens only
   after a failed lookup, removal drops every entry of the key. *)
Section Assoc.
  Context {K V : Type} (keq : K -> K -> bool).
  Fixpoint lookup (k : K) (l : list (K * V)) : option V :=
    match l with [] => None | (k', v) :: r => if keq k k' then Some v else lookup k r end.
  Definition remove (k : K) (l : list (K * V)) : list (K * V) :=
    filter (fun p => negb (keq k (fst p))) l.
  Fixpoint replace (k : K) (v : V) (l : list (K * V)) : list (K * V) :=
    match l with
    | [] => []
    | (k', v') :: r => if keq k k' then (k', v) :: r else (k', v') :: replace k v r
    end.
End Assoc.
Definition keq2 (a b : N * N) : bool := N.eqb (fst a) (fst b) && N.eqb (snd a) (snd b).
Definition keqs (a b : N * string) : bool := N.eqb (fst a) (fst b) && String.eqb (snd a) (snd b).

(* graphs.rs:3689-3707 ContextBody.  nodes_names_inverse (graph_id -> (name -> node_id)) is kept
   flat as (graph_id, name) -> node_id: the same lookups succeed. *)
Record state := mkState {
  graphs : list graph;
  main : option gid;
  ctx_fin : bool;
  gnames : list (gid * string);
  gnames_inv : list (string * gid);
  nnames : list ((gid * nid) * string);
  nnames_inv : list ((gid * string) * nid);
  nannots : list ((gid * nid) * list N);
  gannots : list (gid * list N);
  types : list ((gid * nid) * N);        (* TypeInferenceWorker.cached_results *)
  total : N                              (* total_size_nodes *)
}.

(* graphs.rs:4690-4706 create_unchecked_context + add_type_checker *)
Definition init : state := mkState [] None false [] [] [] [] [] [] [] 0.

(* constants.rs:10-11 (feature "fuzzing" off) *)
Definition MAX_TOTAL_SIZE_NODES : N := 2 ^ 64 - 2.
Definition MAX_INDIVIDUAL_NODE_SIZE : N := 2 ^ 64 - 2.

(* ---- list positions ---- *)
Definition nthN {A} (l : list A) (i : N) : option A := nth_error l (N.to_nat i).
Definition lenN {A} (l : list A) : N := N.of_nat (length l).
Fixpoint upd {A} (l : list A) (i : nat) (f : A -> A) : list A :=
  match l, i with
  | [], _ => []
  | x :: r, O => f x :: r
  | x :: r, S j => x :: upd r j f
  end.
Definition updN {A} (l : list A) (i : N) (f : A -> A) : list A := upd l (N.to_nat i) f.

Definition set_graphs (s : state) (gs : list graph) : state :=
  mkState gs (main s) (ctx_fin s) (gnames s) (gnames_inv s) (nnames s) (nnames_inv s)
          (nannots s) (gannots s) (types s) (total s).
Definition upd_graph (s : state) (g : gid) (f : graph -> graph) : state :=
  set_graphs s (updN (graphs s) g f).
Definition set_types (s : state) (t : list ((gid * nid) * N)) : state :=
  mkState (graphs s) (main s) (ctx_fin s) (gnames s) (gnames_inv s) (nnames s) (nnames_inv s)
          (nannots s) (gannots s) t (total s).
Definition set_total (s : state) (t : N) : state :=
  mkState (graphs s) (main s) (ctx_fin s) (gnames s) (gnames_inv s) (nnames s) (nnames_inv s)
          (nannots s) (gannots s) (types s) t.

(* ---- outcomes ---- *)
Inductive retval := RUnit | RId (i : N) | RName (o : option string).
Inductive outcome := OOk (v : retval) | OErr (code : N).

(* error codes = the distinct error sites of the mirrored functions *)
Definition E_nohandle := 99.
Definition E_ctx_finalized := 1.       (* graphs.rs:3977 *)
Definition E_graph_finalized := 10.    (* :3421 *)
Definition E_node_deps := 11.          (* :3432 *)
Definition E_graph_deps := 12.         (* :3439 / :3444 / :3451: the three graph-dependency checks *)
Definition E_type := 13.               (* :3484 type inference failed *)
Definition E_size_invalid := 14.       (* :3508 *)
Definition E_size_big := 15.           (* :3512 *)
Definition E_total := 16.              (* :3519 try_update_total_size *)
Definition E_unregister := 17.         (* :4491 via remove_last_node *)
Definition E_supplied_type := 18.      (* type_inference.rs:596 via graphs.rs:3491-3497 *)
Definition E_out_set := 20.            (* :3216 *)
Definition E_out_foreign := 21.        (* :3219 *)
Definition E_no_output := 25.          (* :3180 *)
Definition E_main_set := 30.           (* :4025 *)
Definition E_main_foreign := 31.       (* :4028 *)
Definition E_main_unfinalized := 32.   (* :4030 check_finalized *)
Definition E_fin_graph := 35.          (* :4010 *)
Definition E_fin_nomain := 36.         (* :4017 *)
Definition E_gname_foreign := 40.
Definition E_gname_fin := 41.
Definition E_gname_twice := 42.
Definition E_gname_dup := 43.
Definition E_nname_foreign := 45.
Definition E_nname_fin := 46.
Definition E_nname_twice := 47.
Definition E_nname_dup := 48.
Definition E_nann_foreign := 50.
Definition E_nann_fin := 51.
Definition E_gann_foreign := 55.
Definition E_gann_fin := 56.
Definition E_get_foreign := 60.
Definition E_get_noname := 61.
Definition E_retrieve := 64.

(* The external answers for one add_node call (consulted only if the call gets that far):
   a_ty  = process_node's result (None = type error), type_inference.rs:611;
   a_sz  = get_size_estimation_in_bits(result type) (None = Err), data_types.rs:1246;
   a_in  = Some x iff the operation is Input or Constant; x = None if its type is invalid or
           its size estimation fails, else the estimation (graphs.rs:4480-4490). *)
Record tcans := mkAns { a_ty : option N; a_sz : option N; a_in : option (option N) }.

Inductive call :=
| CreateGraph
| AddNode (g : gid) (op : N) (deps : list nh) (gdeps : list gh)
          (supplied : option (bool * N))   (* add_node_with_type: (type.is_valid(), type tag) *)
          (ans : tcans)
| SetOutput (g : gid) (n : nh)
| FinalizeGraph (g : gid)
| SetMain (g : gh)
| FinalizeCtx
| SetGraphName (g : gh) (name : string)
| SetNodeName (n : nh) (name : string)
| AddNodeAnnot (n : nh) (a : N)
| AddGraphAnnot (g : gh) (a : N)
| GetGraphName (g : gh)
| GetNodeName (n : nh)
| RetrieveGraph (name : string)
| RetrieveNode (g : gh) (name : string).

(* ---- existence of what an own-context handle refers to ---- *)
Definition graph_exists (s : state) (g : gid) : bool :=
  match nthN (graphs s) g with Some _ => true | None => false end.
Definition ncount (s : state) (g : gid) : N :=
  match nthN (graphs s) g with Some gr => lenN (g_nodes gr) | None => 0 end.
Definition node_exists (s : state) (g : gid) (n : nid) : bool := n <? ncount s g.
Definition gh_ok (s : state) (h : gh) : bool :=
  match h with GH c g => negb (c =? self) || graph_exists s g end.
Definition nh_ok (s : state) (h : nh) : bool :=
  match h with NH c g n => negb (c =? self) || node_exists s g n end.
Definition gh_own (h : gh) : bool := match h with GH c _ => c =? self end.
Definition nh_own (h : nh) : bool := match h with NH c _ _ => c =? self end.
Definition gh_id (h : gh) : gid := match h with GH _ g => g end.
Definition nh_gid (h : nh) : gid := match h with NH _ g _ => g end.
Definition nh_nid (h : nh) : nid := match h with NH _ _ n => n end.

Definition graph_finalized (s : state) (g : gid) : bool :=
  match nthN (graphs s) g with Some gr => g_fin gr | None => false end.

(* ---- create_graph, graphs.rs:3975-3992 ---- *)
Definition create_graph (s : state) : state * outcome :=
  if ctx_fin s then (s, OErr E_ctx_finalized) else
  let id := lenN (graphs s) in
  (set_graphs s (graphs s ++ [mkGraph id false [] None]), OOk (RId id)).

(* ---- add_node_internal, graphs.rs:3413-3520 ---- *)
(* :3426-3436 *)
Definition node_dep_ok (g : gid) (id : nid) (d : nh) : bool :=
  match d with NH c dg dn => (c =? self) && (dg =? g) && (dn <? id) end.
(* :3437-3456; a graph of another context fails the last of the three checks at the latest *)
Definition graph_dep_ok (s : state) (g : gid) (d : gh) : bool :=
  match d with GH c dg => graph_finalized s dg && (dg <? g) && (c =? self) end.

(* :3469-3472 *)
Definition push_node (s : state) (g : gid) (nd : node) : state :=
  upd_graph s g (fun gr => mkGraph (g_id gr) (g_fin gr) (g_nodes gr ++ [nd]) (g_out gr)).
(* type_inference.rs:594-601 register_result (validity decided by the caller of the model) *)
Definition register_result (s : state) (k : gid * nid) (t : N) : state :=
  match lookup keq2 k (types s) with
  | Some _ => set_types s (replace keq2 k t (types s))
  | None => set_types s ((k, t) :: types s)
  end.

(* graphs.rs:4484-4513 unregister_node.  false = the Err of :4491 *)
Definition unregister_node (s : state) (g : gid) (n : nid) : option state :=
  if ctx_fin s then None else
  let name_option := lookup keq2 (g, n) (nnames s) in
  let inv' := match name_option with
              | Some nm => remove keqs (g, nm) (nnames_inv s)
              | None => nnames_inv s end in
  Some (mkState (graphs s) (main s) (ctx_fin s) (gnames s) (gnames_inv s)
                (remove keq2 (g, n) (nnames s)) inv'
                (remove keq2 (g, n) (nannots s)) (gannots s) (types s) (total s)).

(* graphs.rs:3527-3552 remove_last_node, called on the node just pushed (so the two
   identity checks at :3528-3543 pass); None = the propagated Err of unregister_node *)
Definition remove_last_node (s : state) (g : gid) (n : nid) : option state :=
  match unregister_node s g n with
  | None => None
  | Some s1 =>
      (* type_inference.rs:603-606 *)
      let s2 := set_types s1 (remove keq2 (g, n) (types s1)) in
      Some (upd_graph s2 g (fun gr => mkGraph (g_id gr) (g_fin gr) (removelast (g_nodes gr)) (g_out gr)))
  end.

(* the `self.remove_last_node(node)?; return Err(e)` pattern *)
Definition rollback (s : state) (g : gid) (n : nid) (e : N) : state * outcome :=
  match remove_last_node s g n with
  | Some s' => (s', OErr e)
  | None => (s, OErr E_unregister)
  end.

Definition add_node (s : state) (g : gid) (op : N) (deps : list nh) (gdeps : list gh)
           (supplied : option (bool * N)) (ans : tcans) : state * outcome :=
  match nthN (graphs s) g with
  | None => (s, OErr E_nohandle)
  | Some gr =>
  if g_fin gr then (s, OErr E_graph_finalized) else
  let id := lenN (g_nodes gr) in
  if negb (forallb (node_dep_ok g id) deps) then (s, OErr E_node_deps) else
  if negb (forallb (graph_dep_ok s g) gdeps) then (s, OErr E_graph_deps) else
  let s1 := push_node s g (mkNode id op deps gdeps) in
  (* :3480-3502, the context always has a type checker (create_context) *)
  let typed : state * option N (* Some = error code *) :=
    match supplied with
    | None =>
        match a_ty ans with
        | Some t => (register_result s1 (g, id) t, None)
        | None => (s1, Some E_type)
        end
    | Some (valid, t) =>
        (* :3489-3498 register_result(node, t); an invalid type is rolled back (fix b6aed75) *)
        if valid then (register_result s1 (g, id) t, None)
        else (s1, Some E_supplied_type)
    end in
  match typed with
  | (s2, Some e) => rollback s2 g id e
  | (s2, None) =>
      (* :3503-3523 *)
      match a_sz ans with
      | None => rollback s2 g id E_size_invalid
      | Some sz =>
          if MAX_INDIVIDUAL_NODE_SIZE <? sz then rollback s2 g id E_size_big else
          (* :4476-4503 try_update_total_size *)
          match a_in ans with
          | None => (s2, OOk (RId id))
          | Some None => rollback s2 g id E_total
          | Some (Some isz) =>
              if MAX_TOTAL_SIZE_NODES <? total s2 + isz   (* covers the checked_add overflow *)
              then rollback s2 g id E_total
              else (set_total s2 (total s2 + isz), OOk (RId id))
          end
      end
  end
  end.

(* ---- set_output_node, graphs.rs:3213-3227 ---- *)
Definition set_output (s : state) (g : gid) (n : nh) : state * outcome :=
  match nthN (graphs s) g with
  | None => (s, OErr E_nohandle)
  | Some gr =>
      if negb (nh_ok s n) then (s, OErr E_nohandle) else
      match g_out gr with
      | Some _ => (s, OErr E_out_set)
      | None =>
          if negb (nh_own n && (nh_gid n =? g)) then (s, OErr E_out_foreign) else
          (upd_graph s g (fun gr => mkGraph (g_id gr) (g_fin gr) (g_nodes gr) (Some (nh_nid n))),
           OOk RUnit)
      end
  end.

(* ---- Graph::finalize, graphs.rs:3172-3181 ---- *)
Definition finalize_graph (s : state) (g : gid) : state * outcome :=
  match nthN (graphs s) g with
  | None => (s, OErr E_nohandle)
  | Some gr =>
      match g_out gr with
      | Some _ => (upd_graph s g (fun gr => mkGraph (g_id gr) true (g_nodes gr) (g_out gr)), OOk RUnit)
      | None => (s, OErr E_no_output)
      end
  end.

(* ---- set_main_graph, graphs.rs:4021-4034 ---- *)
Definition set_main (s : state) (h : gh) : state * outcome :=
  if negb (gh_ok s h) then (s, OErr E_nohandle) else
  match main s with
  | Some _ => (s, OErr E_main_set)
  | None =>
      if negb (gh_own h) then (s, OErr E_main_foreign) else
      if negb (graph_finalized s (gh_id h)) then (s, OErr E_main_unfinalized) else
      (mkState (graphs s) (Some (gh_id h)) (ctx_fin s) (gnames s) (gnames_inv s) (nnames s)
               (nnames_inv s) (nannots s) (gannots s) (types s) (total s), OOk RUnit)
  end.

(* ---- Context::finalize, graphs.rs:4007-4019 ---- *)
Definition finalize_ctx (s : state) : state * outcome :=
  if negb (forallb g_fin (graphs s)) then (s, OErr E_fin_graph) else
  match main s with
  | Some _ => (mkState (graphs s) (main s) true (gnames s) (gnames_inv s) (nnames s)
                       (nnames_inv s) (nannots s) (gannots s) (types s) (total s), OOk RUnit)
  | None => (s, OErr E_fin_nomain)
  end.

(* ---- set_graph_name, graphs.rs:4170-4193 ---- *)
Definition set_graph_name (s : state) (h : gh) (name : string) : state * outcome :=
  if negb (gh_ok s h) then (s, OErr E_nohandle) else
  if negb (gh_own h) then (s, OErr E_gname_foreign) else
  if ctx_fin s then (s, OErr E_gname_fin) else
  let id := gh_id h in
  match lookup N.eqb id (gnames s) with
  | Some _ => (s, OErr E_gname_twice)
  | None =>
      match lookup String.eqb name (gnames_inv s) with
      | Some _ => (s, OErr E_gname_dup)
      | None =>
          (mkState (graphs s) (main s) (ctx_fin s) ((id, name) :: gnames s)
                   ((name, id) :: gnames_inv s) (nnames s) (nnames_inv s) (nannots s)
                   (gannots s) (types s) (total s), OOk RUnit)
      end
  end.

(* ---- set_node_name, graphs.rs:4281-4314 ---- *)
Definition set_node_name (s : state) (h : nh) (name : string) : state * outcome :=
  if negb (nh_ok s h) then (s, OErr E_nohandle) else
  if negb (nh_own h) then (s, OErr E_nname_foreign) else
  if ctx_fin s then (s, OErr E_nname_fin) else
  let k := (nh_gid h, nh_nid h) in
  match lookup keq2 k (nnames s) with
  | Some _ => (s, OErr E_nname_twice)
  | None =>
      match lookup keqs (nh_gid h, name) (nnames_inv s) with
      | Some _ => (s, OErr E_nname_dup)
      | None =>
          (mkState (graphs s) (main s) (ctx_fin s) (gnames s) (gnames_inv s)
                   ((k, name) :: nnames s) (((nh_gid h, name), nh_nid h) :: nnames_inv s)
                   (nannots s) (gannots s) (types s) (total s), OOk RUnit)
      end
  end.

(* push onto the Vec of a key, or insert a one-element Vec: graphs.rs:4583-4589, 4622-4628 *)
Definition push_annot {K} (keq : K -> K -> bool) (k : K) (a : N) (l : list (K * list N)) :=
  match lookup keq k l with
  | Some v => replace keq k (v ++ [a]) l
  | None => (k, [a]) :: l
  end.

(* ---- add_node_annotation, graphs.rs:4562-4591 ---- *)
Definition add_node_annot (s : state) (h : nh) (a : N) : state * outcome :=
  if negb (nh_ok s h) then (s, OErr E_nohandle) else
  if negb (nh_own h) then (s, OErr E_nann_foreign) else
  if ctx_fin s then (s, OErr E_nann_fin) else
  (mkState (graphs s) (main s) (ctx_fin s) (gnames s) (gnames_inv s) (nnames s) (nnames_inv s)
           (push_annot keq2 (nh_gid h, nh_nid h) a (nannots s)) (gannots s) (types s) (total s),
   OOk RUnit).

(* ---- add_graph_annotation, graphs.rs:4607-4629 ---- *)
Definition add_graph_annot (s : state) (h : gh) (a : N) : state * outcome :=
  if negb (gh_ok s h) then (s, OErr E_nohandle) else
  if negb (gh_own h) then (s, OErr E_gann_foreign) else
  if ctx_fin s then (s, OErr E_gann_fin) else
  (mkState (graphs s) (main s) (ctx_fin s) (gnames s) (gnames_inv s) (nnames s) (nnames_inv s)
           (nannots s) (push_annot N.eqb (gh_id h) a (gannots s)) (types s) (total s),
   OOk RUnit).

(* ---- getters: graphs.rs:4211-4222, 4370-4383, 4243-4252, 4391-4405 ---- *)
Definition get_graph_name (s : state) (h : gh) : outcome :=
  if negb (gh_ok s h) then OErr E_nohandle else
  if negb (gh_own h) then OErr E_get_foreign else
  match lookup N.eqb (gh_id h) (gnames s) with
  | Some nm => OOk (RName (Some nm))
  | None => OErr E_get_noname
  end.
Definition get_node_name (s : state) (h : nh) : outcome :=
  if negb (nh_ok s h) then OErr E_nohandle else
  if negb (nh_own h) then OErr E_get_foreign else
  OOk (RName (lookup keq2 (nh_gid h, nh_nid h) (nnames s))).
(* :4249 indexes graphs[id] (a panic if the table pointed outside; excluded by the invariant) *)
Definition retrieve_graph (s : state) (name : string) : outcome :=
  match lookup String.eqb name (gnames_inv s) with
  | Some id => OOk (RId id)
  | None => OErr E_retrieve
  end.
Definition retrieve_node (s : state) (h : gh) (name : string) : outcome :=
  if negb (gh_ok s h) then OErr E_nohandle else
  if negb (gh_own h) then OErr E_get_foreign else
  match lookup keqs (gh_id h, name) (nnames_inv s) with
  | Some n => OOk (RId n)
  | None => OErr E_retrieve
  end.

Definition step (s : state) (c : call) : state * outcome :=
  match c with
  | CreateGraph => create_graph s
  | AddNode g op deps gdeps sup ans => add_node s g op deps gdeps sup ans
  | SetOutput g n => set_output s g n
  | FinalizeGraph g => finalize_graph s g
  | SetMain h => set_main s h
  | FinalizeCtx => finalize_ctx s
  | SetGraphName h nm => set_graph_name s h nm
  | SetNodeName h nm => set_node_name s h nm
  | AddNodeAnnot h a => add_node_annot s h a
  | AddGraphAnnot h a => add_graph_annot s h a
  | GetGraphName h => (s, get_graph_name s h)
  | GetNodeName h => (s, get_node_name s h)
  | RetrieveGraph nm => (s, retrieve_graph s nm)
  | RetrieveNode h nm => (s, retrieve_node s h nm)
  end.
Definition step' (s : state) (c : call) : state := fst (step s c).
Definition run (cs : list call) : state := fold_left step' cs init.

(* ---- observation: what the public getters of a context show ---- *)
Definition obs_node (s : state) (g : gid) (nd : node) :=
  (n_id nd, n_op nd, map nh_nid (n_deps nd),
   (forallb (fun d => nh_own d && (nh_gid d =? g)) (n_deps nd), map gh_id (n_gdeps nd),
    forallb gh_own (n_gdeps nd)),
   (lookup keq2 (g, n_id nd) (nnames s),
    match lookup keq2 (g, n_id nd) (nannots s) with Some l => l | None => [] end,
    lookup keq2 (g, n_id nd) (types s))).
Definition obs_graph (pool : list string) (s : state) (gr : graph) :=
  (g_id gr, g_fin gr, g_out gr, map (obs_node s (g_id gr)) (g_nodes gr),
   (lookup N.eqb (g_id gr) (gnames s),
    match lookup N.eqb (g_id gr) (gannots s) with Some l => l | None => [] end,
    map (fun nm => lookup keqs (g_id gr, nm) (nnames_inv s)) pool)).
Definition observe (pool : list string) (s : state) :=
  (ctx_fin s, main s, map (obs_graph pool s) (graphs s),
   map (fun nm => lookup String.eqb nm (gnames_inv s)) pool).

#[global] Instance Eqb_retval : Eqb retval := fun a b =>
  match a, b with
  | RUnit, RUnit => true | RId x, RId y => N.eqb x y | RName x, RName y => eqb x y | _, _ => false
  end.
#[global] Instance Eqb_outcome : Eqb outcome := fun a b =>
  match a, b with
  | OOk x, OOk y => eqb x y | OErr x, OErr y => N.eqb x y | _, _ => false
  end.

(* one history: outcome and observation after every call.  To keep the compared terms small an
   observation equal to the previous one is reported as None, and inside a changed observation
   a graph whose own observation did not change is reported as None. *)
Fixpoint delta_list {A} `{Eqb A} (prev cur : list A) : list (option A) :=
  match cur with
  | [] => []
  | x :: r =>
      match prev with
      | p :: pr => (if eqb x p then None else Some x) :: delta_list pr r
      | [] => Some x :: delta_list [] r
      end
  end.
Definition delta {H G T} `{Eqb G} (prev cur : H * list G * T) : H * list (option G) * T :=
  match prev, cur with
  | (_, pg, _), (h, g, t) => (h, delta_list pg g, t)
  end.
Fixpoint trace_from {H G T} `{Eqb H} `{Eqb G} `{Eqb T} (obs : state -> H * list G * T)
         (s : state) (prev : H * list G * T) (cs : list call)
  : list (outcome * option (H * list (option G) * T)) :=
  match cs with
  | [] => []
  | c :: r =>
      let (s', o) := step s c in
      let ob := obs s' in
      (o, if eqb ob prev then None else Some (delta prev ob)) :: trace_from obs s' ob r
  end.
Definition observe3 (pool : list string) (s : state) :=
  match observe pool s with (f, m, gs, r) => ((f, m), gs, r) end.
Definition trace (pool : list string) (s : state) (cs : list call) :=
  trace_from (observe3 pool) s (observe3 pool s) cs.

(* C01 shallow model: compile-and-evaluate of the additive/bilinear fragment on share triples,
   following compile_to_mpc_graph (mpc_compiler.rs:355-734), AddMPC/SubtractMPC/mixed_product/
   private_product (mpc_arithmetic.rs:14-223), get_zero_shares (mpc_compiler.rs:83-118, 212),
   reshare (resharing.rs:246-271), share_node / reveal_output (mpc_compiler.rs:747-963).
   Values live in an abstract commutative ring V (arrays of a fixed shape over Z_2^w with
   elementwise operations instantiate it); the bilinear operations (Multiply, Dot, Matmul, Gemm,
   MixedMultiply) and the share-wise lifted unary operations (Sum, Get, Reshape, ...) are abstract
   functions characterised by additivity only. *)
From Coq Require Import Ring.
From CC Require Import Base.Prelude.

Section Shallow.
  Variable V : Type.
  Variables (v0 v1 : V) (vadd vmul vsub : V -> V -> V) (vopp : V -> V).
  Variable bil : nat -> V -> V -> V.      (* bilinear operation number k *)
  Variable lin : nat -> V -> V.           (* share-wise lifted unary operation number k *)

  Inductive sop :=
  | SInput                (* the next input *)
  | SConst (c : V)
  | SAdd | SSub
  | SBil (k : nat)
  | SLin (k : nat).
  Record snode := mkS { s_op : sop; s_deps : list nat }.

  Inductive owner := OwnParty (p : nat) | OwnPublic | OwnShared.

  Definition dep (env : list V) (ds : list nat) (k : nat) : V := nth (nth k ds O) env v0.

  (* plaintext semantics of the source graph *)
  Definition seval_node (env : list V) (ins : list V) (nd : snode) : V * list V :=
    match s_op nd with
    | SInput => (hd v0 ins, tl ins)
    | SConst c => (c, ins)
    | SAdd => (vadd (dep env (s_deps nd) 0) (dep env (s_deps nd) 1), ins)
    | SSub => (vsub (dep env (s_deps nd) 0) (dep env (s_deps nd) 1), ins)
    | SBil k => (bil k (dep env (s_deps nd) 0) (dep env (s_deps nd) 1), ins)
    | SLin k => (lin k (dep env (s_deps nd) 0), ins)
    end.
  Fixpoint seval (nodes : list snode) (env : list V) (ins : list V) : list V :=
    match nodes with
    | [] => env
    | nd :: r => let '(v, ins') := seval_node env ins nd in seval r (env ++ [v]) ins'
    end.

  (* compiled value of a source node: public, or a triple of additive shares *)
  Inductive cv := CPub (v : V) | CPriv (s0 s1 s2 : V).
  Definition csum (c : cv) : V :=
    match c with CPub v => v | CPriv a b c => vadd (vadd a b) c end.
  (* apply_op / AddMPC: a public operand of a private node is promoted to (x, 0, 0) *)
  Definition promote (c : cv) : V * V * V :=
    match c with CPub v => (v, v0, v0) | CPriv a b c => (a, b, c) end.
  Definition is_priv (c : cv) : bool := match c with CPriv _ _ _ => true | CPub _ => false end.

  (* get_zero_shares: alpha_i = PRF(k_i) - PRF(k_{i+1}) for three PRF values *)
  Definition zero_shares (p : V * V * V) : V * V * V :=
    let '(p0, p1, p2) := p in (vsub p0 p1, vsub p1 p2, vsub p2 p0).

  (* an input supplied to the compiled graph *)
  Inductive cinput :=
  | InPublic (x : V)
  | InParty (p : nat) (x : V)
  | InShared (s0 s1 s2 : V).
  Definition cinput_value (i : cinput) : V :=
    match i with InPublic x | InParty _ x => x | InShared a b c => vadd (vadd a b) c end.

  (* share_node: (node + alpha_0, alpha_1, alpha_2) with the node added to the owner's share *)
  Definition share_input (p : nat) (x : V) (m : V * V * V) : cv :=
    let '(a0, a1, a2) := zero_shares m in
    match p with
    | O => CPriv (vadd a0 x) a1 a2
    | S O => CPriv a0 (vadd a1 x) a2
    | _ => CPriv a0 a1 (vadd a2 x)
    end.

  Definition cdep (env : list cv) (ds : list nat) (k : nat) : cv := nth (nth k ds O) env (CPub v0).

  (* one compiled node; [m] are the three PRF values available at this node, [reshare] the
     planner's decision for it (any plan: the sum does not depend on it) *)
  Definition ceval_node (env : list cv) (ins : list cinput) (nd : snode) (m : V * V * V) (reshare : bool)
    : cv * list cinput :=
    let x := cdep env (s_deps nd) 0 in
    let y := cdep env (s_deps nd) 1 in
    let '(r, ins') :=
      match s_op nd with
      | SInput =>
          (match hd (InPublic v0) ins with
           | InPublic v => CPub v
           | InParty p v => share_input p v m
           | InShared a b c => CPriv a b c
           end, tl ins)
      | SConst c => (CPub c, ins)
      | SAdd =>
          (if is_priv x || is_priv y then
             let '(a0, a1, a2) := promote x in let '(b0, b1, b2) := promote y in
             CPriv (vadd a0 b0) (vadd a1 b1) (vadd a2 b2)
           else CPub (vadd (csum x) (csum y)), ins)
      | SSub =>
          (if is_priv x || is_priv y then
             let '(a0, a1, a2) := promote x in let '(b0, b1, b2) := promote y in
             CPriv (vsub a0 b0) (vsub a1 b1) (vsub a2 b2)
           else CPub (vsub (csum x) (csum y)), ins)
      | SBil k =>
          (match x, y with
           | CPub a, CPub b => CPub (bil k a b)
           | CPriv a0 a1 a2, CPub b => CPriv (bil k a0 b) (bil k a1 b) (bil k a2 b)      (* mixed_product *)
           | CPub a, CPriv b0 b1 b2 => CPriv (bil k a b0) (bil k a b1) (bil k a b2)      (* mixed_product, swapped *)
           | CPriv a0 a1 a2, CPriv b0 b1 b2 =>                                             (* private_product *)
               CPriv (vadd (bil k a0 (vadd b0 b1)) (bil k a1 b0))
                     (vadd (bil k a1 (vadd b1 b2)) (bil k a2 b1))
                     (vadd (bil k a2 (vadd b2 b0)) (bil k a0 b2))
           end, ins)
      | SLin k =>
          (match x with
           | CPub a => CPub (lin k a)
           | CPriv a0 a1 a2 => CPriv (lin k a0) (lin k a1) (lin k a2)
           end, ins)
      end in
    (match r with
     | CPriv z0 z1 z2 =>
         if reshare then let '(q0, q1, q2) := zero_shares m in CPriv (vadd z0 q0) (vadd z1 q1) (vadd z2 q2)
         else r
     | CPub _ => r
     end, ins').

  Fixpoint ceval (nodes : list snode) (env : list cv) (ins : list cinput)
           (masks : nat -> V * V * V) (plan : nat -> bool) : list cv :=
    match nodes with
    | [] => env
    | nd :: r =>
        let i := length env in
        let '(c, ins') := ceval_node env ins nd (masks i) (plan i) in
        ceval r (env ++ [c]) ins' masks plan
    end.

  (* reveal_output: s0 + s1 + s2 (recursively_sum_shares); a public output is returned as it is *)
  Definition reveal (c : cv) : V := csum c.
End Shallow.

(* C01: the ring reading [reval] (Model/RingEval.v) instantiated at the concrete ring of arrays of
   n elements modulo 2^w with pointwise operations.  The correspondence kind `ring-reading` runs it
   on exported compiled graphs with the PRF values the real evaluator produced (the tape) and
   compares every node value with the real evaluator's, so that the reading used by the generated
   [ring] obligations is itself tied to the code. *)
From CC Require Import Base.Prelude Base.Scalar Base.Ty Base.Shape Graph.Value Graph.IR Graph.Eval Model.RingEval.

Fixpoint zip_with (f : Z -> Z -> Z) (a b : list Z) : list Z :=
  match a, b with
  | x :: a', y :: b' => f x y :: zip_with f a' b'
  | _, _ => []
  end.

Section Inst.
  Variable w : Z.          (* bit width of the element type *)
  Variable n : nat.        (* number of elements of the common shape *)
  Variable tape : Z -> option value.

  Definition m := 2 ^ w.
  Definition za := zip_with (fun x y => (x + y) mod m).
  Definition zs := zip_with (fun x y => (x - y) mod m).
  Definition zm := zip_with (fun x y => (x * y) mod m).
  Definition zatom (i : Z) : list Z := match tape i with Some (VArr es) => es | _ => [] end.
  Definition zcatom (v : value) : list Z := match v with VArr es => es | _ => [] end.

  Definition reval_Z := reval (list Z) (repeat 0 n) za zm zs zatom zcatom (repeat 1 n).

  Fixpoint rv_matches (rv : rval (list Z)) (v : value) {struct rv} : bool :=
    match rv, v with
    | RKey _, _ => true                           (* PRF keys are opaque to the reading *)
    | RLeaf _ es, VArr es' => eqb es es'
    | RTup _ l, VTup vs =>
        (fix go (l : list (rval (list Z))) (vs : list value) : bool :=
           match l, vs with
           | [], [] => true
           | a :: l', b :: vs' => rv_matches a b && go l' vs'
           | _, _ => false
           end) l vs
    | _, _ => false
    end.

  Fixpoint in_of_value (v : value) : rval (list Z) :=
    match v with
    | VArr es => RLeaf _ es
    | VTup vs => RTup _ (map in_of_value vs)
    end.

  (* index of the first node whose reading differs from the observed value; -1 if none; -2 if the
     reading is undefined on this graph *)
  Definition reading_mismatch (nodes : list node) (ins : list value) (observed : list value) : Z :=
    match reval_Z nodes [] (map in_of_value ins) with
    | Some env =>
        (fix go (i : Z) (e : list (rval (list Z))) (o : list value) : Z :=
           match e, o with
           | [], [] => -1
           | a :: e', b :: o' => if rv_matches a b then go (i + 1) e' o' else i
           | _, _ => i
           end) 0 env observed
    | None => -2
    end.
End Inst.
